#!/bin/bash
# Offline setup after a fresh restore: warm the build cache for /repo and build the checker.
set -u
cd "$(dirname "$0")"
export PATH=/opt/veriftools/go1.26.8/bin:$PATH
export GOTOOLCHAIN=local GOFLAGS=-mod=mod GOPROXY=off GOSUMDB=off GOWORK=off
(cd /repo && go build ./... ) || echo "warning: go build ./... in /repo failed (checks will report it)"
./run.sh build
