package rules

import (
	"fmt"
	"go/token"
	"go/types"
	"sort"
	"strings"

	"golang.org/x/tools/go/ssa"

	"s2scheck/internal/flow"
	"s2scheck/internal/report"
)

func init() { Registry["C20"] = c20 }

func c20(c *Ctx) (*report.Result, error) {
	res := newResult("C20")
	res.RuleDoc["O20.1"] = "panic capture first: StreamWorkflowReplicationMessages defers log.CapturePanic(.., &retError) on its named error result before anything that can panic"
	res.RuleDoc["O20.2"] = "malformed metadata is rejected: missing metadata and the error of history.DecodeClusterShardMD are returned as errors"
	res.RuleDoc["O20.3"] = "bookkeeping balance: the +1 report for the stream's shard is followed at once by a deferred -1 report with the same shard value through the same reporter"
	res.RuleDoc["O20.4"] = "a shared lock cannot be leaked: every critical section of the stream observer's and the stream tracker's mutexes is released by a defer placed before any instruction that may panic, or contains no instruction that may panic and is released on every path"
	res.RuleDoc["O20.6"] = "a shared lock cannot wedge its holder: inside a critical section of a shared mutex no call (through module callees and closures) acquires the same mutex again, and distinct shared mutexes are nested in one order only"
	res.RuleDoc["O20.7"] = "lock discipline of the shared bookkeeping: every read or write of a slice/map field of the stream observer and the stream tracker (outside their constructors) happens inside a critical section of the struct's mutex; a write under the write lock - an access that bypasses the lock races with the growth that replaces the table, and updates made to the old table are lost for every other stream"
	res.RuleDoc["O20.9"] = "the per-shard counter access is preceded by a growth test against the length of the very slice that is indexed: in ReportStreamValue every path to streamActive[idx] passes `idx >= len(streamActive)` (growing on the true side) - a test against cap(), or against another slice, lets an index between length and capacity through to an out-of-range panic"
	res.RuleDoc["O20.5"] = "untrusted ids never enter narrow arithmetic: no +,-,*,<< on a value of a type narrower than 64 bits that derives from the decoded cluster/shard ids without a dominating upper bound or a widening conversion"
	res.Floors["O20.4"] = 10

	h := resolve(c, res, "O20.1", anchor{"proxy", "*adminServiceProxyServer", "StreamWorkflowReplicationMessages"})
	if h != nil {
		checkCapturePanicFirst(c, res, h)
		checkMetadataRejected(c, res, h)
		checkReportBalance(c, res, h)
	}
	checkSharedLocks(c, res)
	if h != nil {
		checkNarrowArithmetic(c, res, h)
	}
	res.Explanation = "SSA of adminServiceProxyServer.StreamWorkflowReplicationMessages (placement of the deferred panic capture, error returns of the metadata decode, balance of the stream counter), critical-section analysis (P-CS) of every Lock/RLock on the mutex fields of proxy.ReplicationStreamObserver and proxy.StreamTracker - the two bookkeeping objects shared by all streams - with a closed, conservative may-panic classification, and an interprocedural taint walk from the results of history.DecodeClusterShardMD through module functions (including the function-valued reportStreamValue field, resolved by signature to every function value of that type in the module) to arithmetic on types narrower than 64 bits. A panic in the handler is recovered by CapturePanic, so a lock held without defer at a may-panic instruction is exactly a wedge for all later streams. Does not decide memory use proportional to a legitimately large shard id."
	res.Assumptions = []string{"log.CapturePanic recovers and converts a panic into the error result", "the may-panic table (total functions) in the checker; nil dereferences and nil-map writes are out of scope"}
	res.RuleDoc["O20.10"] = "no swallowed error in the files the mechanism lives in: no function returns a nil error on a path on which an error obtained from a call is known to be non-nil (io.EOF from a stream Recv, the normal end of a receive loop, is the one accepted idiom)"
	checkNoSwallowedErrors(c, res, "O20.10", []string{"proxy/adminservice.go", "proxy/replication_stream_observer.go", "proxy/stream_tracker.go"})
	return res, nil
}

func checkCapturePanicFirst(c *Ctx, res *report.Result, h *ssa.Function) {
	rule := "O20.1"
	var cap *ssa.Defer
	for _, d := range flow.Defers(h) {
		if flow.IsCallTo(&d.Call, srvPath+"/common/log", "", "CapturePanic") {
			cap = d
		}
	}
	if !res.Check(cap != nil, rule, "StreamWorkflowReplicationMessages: defers log.CapturePanic", fnPos(c.Prog, h), "present", "the stream handler does not capture panics: a panic in bookkeeping or routing would crash the process") {
		return
	}
	// pointer target is the named result
	okTarget := false
	if len(cap.Call.Args) == 2 {
		if al, ok := cap.Call.Args[1].(*ssa.Alloc); ok {
			// the named result cell is what return statements load
			for _, b := range h.Blocks {
				for _, ins := range b.Instrs {
					if ret, ok := ins.(*ssa.Return); ok && len(ret.Results) == 1 {
						if ld, ok := ret.Results[0].(*ssa.UnOp); ok && ld.X == ssa.Value(al) {
							okTarget = true
						}
					}
				}
			}
		}
	}
	res.Check(okTarget, rule, "StreamWorkflowReplicationMessages: CapturePanic writes the handler's error result", instrPos(c.Prog, cap), "&retError (named result)", "the captured panic is not delivered through the handler's returned error")
	// nothing that may panic before it, except the computation of its own arguments
	bad := ""
	for _, b := range h.Blocks {
		for _, ins := range b.Instrs {
			if ins == ssa.Instruction(cap) {
				goto done
			}
			if !cap.Block().Dominates(b) && b != cap.Block() {
				continue
			}
			if b != cap.Block() {
				continue
			}
			if mp, why := flow.MayPanic(ins, nil, nil); mp {
				// calls feeding the defer's own argument list are tolerated (logger lookup)
				if v, ok := ins.(ssa.Value); ok && feedsInstr(v, cap) {
					continue
				}
				bad = why + " at " + instrPos(c.Prog, ins)
			}
		}
	}
done:
	if cap.Block() != h.Blocks[0] {
		bad = "the defer is not in the entry block: some path reaches code before it"
	}
	res.Check(bad == "", rule, "StreamWorkflowReplicationMessages: CapturePanic is deferred before anything that can panic", instrPos(c.Prog, cap), "first statement of the handler", "code that may panic runs before the panic capture is armed: "+bad)
}

func feedsInstr(v ssa.Value, target ssa.Instruction) bool {
	seen := map[ssa.Value]bool{}
	var rec func(x ssa.Value, d int) bool
	rec = func(x ssa.Value, d int) bool {
		if d > 8 || seen[x] {
			return false
		}
		seen[x] = true
		refs := x.Referrers()
		if refs == nil {
			return false
		}
		for _, r := range *refs {
			if r == target {
				return true
			}
			if rv, ok := r.(ssa.Value); ok && rec(rv, d+1) {
				return true
			}
			if st, ok := r.(*ssa.Store); ok {
				if rec(st.Addr, d+1) {
					return true
				}
				if ia, ok := st.Addr.(*ssa.IndexAddr); ok && rec(ia.X, d+1) {
					return true
				}
			}
		}
		return false
	}
	return rec(v, 0)
}

func checkMetadataRejected(c *Ctx, res *report.Result, h *ssa.Function) {
	rule := "O20.2"
	dec := flow.FindCalls(h, func(cc *ssa.CallCommon) bool {
		return flow.IsCallTo(cc, srvPath+"/client/history", "", "DecodeClusterShardMD")
	})
	if len(dec) != 1 {
		res.Undec(rule, "StreamWorkflowReplicationMessages: DecodeClusterShardMD call", fnPos(c.Prog, h), fmt.Sprintf("%d calls", len(dec)))
		return
	}
	good, why := errorReturned(h, dec[0].(*ssa.Call))
	res.Check(good, rule, "StreamWorkflowReplicationMessages: decode error is returned", instrPos(c.Prog, dec[0]), "err != nil -> return err", "malformed cluster/shard ids are not rejected: "+why)
	// missing metadata
	ok := false
	for _, call := range flow.FindCalls(h, func(cc *ssa.CallCommon) bool {
		return flow.IsCallTo(cc, "google.golang.org/grpc/metadata", "", "FromIncomingContext")
	}) {
		cv := call.(*ssa.Call)
		for _, r := range *cv.Referrers() {
			if ex, isEx := r.(*ssa.Extract); isEx && ex.Index == 1 {
				for _, b := range h.Blocks {
					if b == h.Recover {
						continue
					}
					for _, g := range flow.NormGuards(flow.Guards(b)) {
						if g.Cond == ssa.Value(ex) && !g.Side {
							for _, ins := range b.Instrs {
								if ret, isR := ins.(*ssa.Return); isR && !flow.IsNilConst(flow.Ret(ret)[0]) {
									ok = true
								}
							}
						}
					}
				}
			}
		}
	}
	res.Check(ok, rule, "StreamWorkflowReplicationMessages: missing metadata is an error", fnPos(c.Prog, h), "!ok -> return InvalidArgument", "a stream without metadata is not rejected")
}

func checkReportBalance(c *Ctx, res *report.Result, h *ssa.Function) {
	rule := "O20.3"
	// calls through the reportStreamValue field
	type rep struct {
		ins   ssa.CallInstruction
		delta int64
	}
	var reps []rep
	for _, call := range flow.Calls(h) {
		cc := call.Common()
		if cc.IsInvoke() || flow.StaticCallee(cc) != nil {
			continue
		}
		if _, fld, ok := flow.FieldLoadOf(cc.Value); ok && fld == "reportStreamValue" && len(cc.Args) == 2 {
			if d, ok := flow.ConstInt(cc.Args[1]); ok {
				reps = append(reps, rep{call, d})
			}
		}
	}
	var plus, minus *rep
	for i := range reps {
		if reps[i].delta == 1 {
			plus = &reps[i]
		}
		if reps[i].delta == -1 {
			minus = &reps[i]
		}
	}
	if plus == nil {
		res.Undec(rule, "StreamWorkflowReplicationMessages: +1 report", fnPos(c.Prog, h), "no reportStreamValue(shard, 1) call found")
		return
	}
	ok := minus != nil
	why := "no matching reportStreamValue(shard, -1)"
	if ok {
		_, isDefer := minus.ins.(*ssa.Defer)
		sameShard := flow.SameValue(minus.ins.Common().Args[0], plus.ins.Common().Args[0])
		adjacent := isDefer && minus.ins.Block() == plus.ins.Block()
		if adjacent {
			// no may-panic or return between them
			i0 := -1
			i1 := -1
			for i, ins := range plus.ins.Block().Instrs {
				if ins == ssa.Instruction(plus.ins) {
					i0 = i
				}
				if ins == ssa.Instruction(minus.ins) {
					i1 = i
				}
			}
			if i0 < 0 || i1 < i0 {
				adjacent = false
			}
			for i := i0 + 1; i < i1 && adjacent; i++ {
				if mp, _ := flow.MayPanic(plus.ins.Block().Instrs[i], nil, nil); mp {
					if v, isV := plus.ins.Block().Instrs[i].(ssa.Value); isV && feedsInstr(v, minus.ins) {
						continue
					}
					adjacent = false
				}
			}
		}
		switch {
		case !isDefer:
			ok, why = false, "the -1 report is not deferred: an error or panic path skips it and the shard stays marked active"
		case !sameShard:
			ok, why = false, "the -1 report uses a different shard value than the +1 report"
		case !adjacent:
			ok, why = false, "something that can fail runs between the +1 report and the registration of the deferred -1 report"
		}
	}
	res.Check(ok, rule, "StreamWorkflowReplicationMessages: +1 report is balanced by a deferred -1 report of the same shard", instrPos(c.Prog, plus.ins), "defer reportStreamValue(shard, -1) right after reportStreamValue(shard, 1)", why)
}

func checkSharedLocks(c *Ctx, res *report.Result) {
	rule := "O20.4"
	sp, err := c.Prog.SSAPkg("proxy")
	if err != nil {
		res.Undec(rule, "proxy package", "", err.Error())
		return
	}
	// mutex fields of the two shared bookkeeping structs
	shared := map[string]bool{}
	for _, tname := range []string{"ReplicationStreamObserver", "StreamTracker"} {
		tn, ok := sp.Pkg.Scope().Lookup(tname).(*types.TypeName)
		if !ok {
			res.Undec(rule, tname, "", "type not found")
			continue
		}
		st, ok := tn.Type().Underlying().(*types.Struct)
		if !ok {
			continue
		}
		for i := 0; i < st.NumFields(); i++ {
			f := st.Field(i)
			if flow.NamedIs(f.Type(), "sync", "Mutex") || flow.NamedIs(f.Type(), "sync", "RWMutex") {
				shared[tname+"."+f.Name()] = true
			}
		}
	}
	if len(shared) < 2 {
		res.Undec(rule, "shared mutex fields", "", fmt.Sprintf("%d mutex fields found on the observer/tracker", len(shared)))
	}
	n := 0
	for _, f := range c.Prog.RepoFuncs() {
		if f.Package() != sp {
			continue
		}
		for _, sec := range flow.Sections(f) {
			// which struct does the mutex belong to?
			cc := sec.Lock.Instr.Common()
			fa, ok := cc.Args[0].(*ssa.FieldAddr)
			if !ok {
				continue
			}
			owner := ""
			if nt := namedOf(fa.X.Type()); nt != nil {
				owner = nt.Obj().Name()
			}
			if !shared[owner+"."+sec.Lock.Field] {
				continue
			}
			n++
			construct := fmt.Sprintf("%s: %s %s.%s", shortFn(f), sec.Lock.Op, owner, sec.Lock.Field)
			pos := instrPos(c.Prog, sec.Lock.Instr)
			// first may-panic instruction in the section
			var firstPanic ssa.Instruction
			why := ""
			for _, ins := range sec.Instrs {
				if mp, w := flow.MayPanic(ins, nil, flow.RangeProvenIndex); mp {
					if sec.Deferred != nil && flow.DeferCovers(sec.Deferred, ins) {
						continue
					}
					firstPanic, why = ins, w
					break
				}
			}
			switch {
			case firstPanic != nil:
				res.Viol(rule, construct, pos, "the lock is held without a deferred unlock while "+why+" ("+instrPos(c.Prog, firstPanic)+"): a panic there is recovered by the stream handler's CapturePanic and leaves the lock held for every later stream")
			case sec.LeaksAt != nil:
				res.Viol(rule, construct, pos, "an exit is reachable with the lock held ("+instrPos(c.Prog, sec.LeaksAt)+")")
			case sec.Deferred != nil:
				res.Hold(rule, construct, pos, "released by defer before anything that may panic")
			default:
				res.Hold(rule, construct, pos, fmt.Sprintf("explicit unlock on every path; none of the %d instructions in between may panic", len(sec.Instrs)))
			}
		}
	}
	// ---- O20.7: lock discipline
	nAcc := 0
	for _, tname := range []string{"ReplicationStreamObserver", "StreamTracker"} {
		tn, ok := sp.Pkg.Scope().Lookup(tname).(*types.TypeName)
		if !ok {
			continue
		}
		st, ok := tn.Type().Underlying().(*types.Struct)
		if !ok {
			continue
		}
		mutex := ""
		var guarded []string
		for i := 0; i < st.NumFields(); i++ {
			fl := st.Field(i)
			switch fl.Type().Underlying().(type) {
			case *types.Slice, *types.Map:
				guarded = append(guarded, fl.Name())
			}
			if flow.NamedIs(fl.Type(), "sync", "Mutex") || flow.NamedIs(fl.Type(), "sync", "RWMutex") {
				mutex = fl.Name()
			}
		}
		if mutex == "" || len(guarded) == 0 {
			res.Undec("O20.7", tname+": mutex and guarded table", "", "struct shape not recognised")
			continue
		}
		for _, f := range c.Prog.RepoFuncs() {
			if f.Package() != sp || !isShippedFunc(f) {
				continue
			}
			for _, b := range f.Blocks {
				for _, ins := range b.Instrs {
					fa, ok := ins.(*ssa.FieldAddr)
					if !ok {
						continue
					}
					nt := namedOf(fa.X.Type())
					if nt == nil || nt.Obj() != tn {
						continue
					}
					fname := flow.FieldName(fa.X.Type(), fa.Field)
					isG := false
					for _, g := range guarded {
						if g == fname {
							isG = true
						}
					}
					if !isG {
						continue
					}
					if _, fresh := fa.X.(*ssa.Alloc); fresh {
						continue // constructor: the object is not shared yet
					}
					for _, r := range *fa.Referrers() {
						ri, _ := r.(ssa.Instruction)
						write := false
						if stx, isSt := r.(*ssa.Store); isSt && stx.Addr == ssa.Value(fa) {
							write = true
						}
						nAcc++
						kind := "read"
						if write {
							kind = "write"
						}
						res.Check(flow.HeldAt(f, ri, mutex, write), "O20.7", fmt.Sprintf("%s: %s of %s.%s under %s", shortFn(f), kind, tname, fname, mutex), instrPos(c.Prog, ri), "inside a critical section", "the shared table is accessed without holding "+tname+"."+mutex+": the access races with the growth/update that replaces or mutates the table under the lock, and its effect on other streams' entries can be lost")
					}
				}
			}
		}
	}
	if nAcc < 10 {
		res.Undec("O20.7", "accesses of the shared tables", "", fmt.Sprintf("%d accesses found", nAcc))
	}
	res.Analysed["guarded_accesses"] = nAcc
	checkObserverIndexGuard(c, res, "O20.9")
	res.RuleDoc["O20.11"] = "the +1 stream report is all-or-nothing: every function that can end up in adminServiceProxyServer.reportStreamValue (followed from the constructor through its callers' arguments) performs no counting effect (gauge / atomic Inc, Dec, Add, Sub) before an instruction that may panic, and the handler's own gauge Inc is followed at once by its deferred Dec - the deferred -1 is registered only after the +1 returned, so a reporter that counts and then panics (the observer rejects huge ids that way) corrupts the count for every later stream"
	checkReportAllOrNothing(c, res, "O20.11")
	res.RuleDoc["O20.16"] = "negative ids cannot index anything: in package proxy every slice / array / string index that is the int conversion of a signed 32-bit id (a ShardID / ClusterID field, an int32 parameter) is dominated by a test that excludes negative values - `int(id) < len(table)` alone holds for every negative id, and in routing mode the first use is on a worker goroutine that nothing recovers"
	checkSignedIndexLowerBound(c, res, "O20.16", 1)
	res.RuleDoc["O20.15"] = "an intra-proxy stream-open is served or rejected, never parked: no return of intraProxyStreamSender.Run is reachable without recvAck(latch) (or a Shutdown of the latch), and recvAck registers its deferred Shutdown in its entry block - streamIntraProxyRouting waits on that latch only, so a refusal in front of the ack loop leaves the handler, its goroutine and its +1 in the observer behind for ever"
	checkIntraSenderRunTripsLatch(c, res, "O20.15")
	res.RuleDoc["O20.14"] = "ids of any printed length cannot crash the membership goroutine: NodeMeta returns the marshalled node state only on the side of a comparison of its own length with the limit on which len(data) <= limit - the shard keys in it are the ids from stream-open metadata, memberlist panics on an oversized meta, and the UpdateNode goroutine that RegisterShard / UnregisterShard start is outside every CapturePanic"
	checkNodeMetaFitsLimit(c, res, "O20.14")
	res.RuleDoc["O20.13"] = "the counter table only grows: streamActive is assigned by the constructor and by ReportStreamValue on the growing side of its length test with slices.Grow / append of the old table, and by nobody else - a compaction or reset is a second writer of the bookkeeping every open stream relies on for its deferred -1, and a slot cut off while its stream is open corrupts that shard's count for every later stream"
	checkCounterTableWriters(c, res, "O20.13")
	res.RuleDoc["O20.12"] = "a stream the remote refuses ends as an error, not as a crash: every WithLabelValues call in package proxy that spreads a label slice kept in a struct field (f.metricLabelValues..., append(f.metricLabelValues, \"source\")...) implies the same length of that slice as every other site spreading the same field (vector's label count minus the values appended) - a site that disagrees panics when it runs, and the forwarder's goroutines are outside the handler's CapturePanic, so the whole process and every other stream ends with it"
	checkMetricLabelSpread(c, res, "O20.12", []string{"proxy/"}, 8)
	// ---- O20.8: nothing blocks under the shared bookkeeping locks
	res.RuleDoc["O20.8"] = "nothing blocks while a shared bookkeeping lock is held: inside the critical sections of the stream observer's and the stream tracker's mutexes there is no channel operation, stream I/O, sleep, wait or call through a function value"
	checkNoBlockingUnderLock(c, res, "O20.8", []*ssa.Package{sp}, func(owner, field string) bool { return shared[owner+"."+field] }, map[string]string{})
	res.Hold("O20.8", "shared bookkeeping sections contain no blocking operation (none is reviewed as an exception)", "", "scan of the observer's and tracker's critical sections")
	// ---- O20.6: no re-entrant acquisition / no lock-order cycle among the shared locks
	n6 := checkReentrancy(c, res, "O20.6", []*ssa.Package{sp}, func(key string) bool { return shared[key] })
	res.Analysed["reentrancy_sections"] = n6
	res.Analysed["shared_mutex_fields"] = sortedKeys(shared)
	res.Analysed["critical_sections"] = n
}

func namedOf(t types.Type) *types.Named {
	t = types.Unalias(t)
	if p, ok := t.Underlying().(*types.Pointer); ok {
		t = types.Unalias(p.Elem())
	}
	n, _ := t.(*types.Named)
	return n
}

// ---------------------------------------------------------------------------------------------
// O20.5 taint

type taintRun struct {
	c        *Ctx
	res      *report.Result
	visited  map[string]bool
	findings map[string]string
	funcs    map[string]bool
	fnValues map[string][]*ssa.Function // signature string -> function values of the module
}

func narrowInt(t types.Type) bool {
	b, ok := types.Unalias(t).Underlying().(*types.Basic)
	if !ok || b.Info()&types.IsInteger == 0 {
		return false
	}
	switch b.Kind() {
	case types.Int8, types.Int16, types.Int32, types.Uint8, types.Uint16, types.Uint32:
		return true
	}
	return false
}

func (t *taintRun) moduleFuncValues() {
	t.fnValues = map[string][]*ssa.Function{}
	for _, f := range t.c.Prog.RepoFuncs() {
		if !isShippedFunc(f) {
			continue
		}
		for _, b := range f.Blocks {
			for _, ins := range b.Instrs {
				var g *ssa.Function
				switch x := ins.(type) {
				case *ssa.MakeClosure:
					g, _ = x.Fn.(*ssa.Function)
					// bound method wrapper: analyse the method itself
					if g != nil && strings.HasSuffix(g.Name(), "$bound") {
						if len(g.Blocks) > 0 {
							for _, call := range flow.Calls(g) {
								if cal := flow.StaticCallee(call.Common()); cal != nil {
									key := sigKey(x.Type())
									t.fnValues[key] = append(t.fnValues[key], cal)
								}
							}
						}
						continue
					}
					if g != nil {
						key := sigKey(x.Type())
						t.fnValues[key] = append(t.fnValues[key], g)
					}
				}
			}
		}
	}
}

func (t *taintRun) analyse(f *ssa.Function, params map[int]bool, depth int, via string) {
	if f == nil || f.Blocks == nil || depth > 6 {
		return
	}
	var ks []int
	for k := range params {
		ks = append(ks, k)
	}
	sort.Ints(ks)
	key := fmt.Sprintf("%s%v", flow.FuncName(f), ks)
	if t.visited[key] {
		return
	}
	t.visited[key] = true
	t.funcs[shortFn(f)] = true
	tainted := map[ssa.Value]bool{}
	for i, p := range f.Params {
		if params[i] {
			tainted[p] = true
		}
	}
	isT := func(v ssa.Value) bool { return tainted[v] }
	changed := true
	for iter := 0; changed && iter < 20; iter++ {
		changed = false
		mark := func(v ssa.Value) {
			if !tainted[v] {
				tainted[v] = true
				changed = true
			}
		}
		for _, b := range f.Blocks {
			for _, ins := range b.Instrs {
				switch x := ins.(type) {
				case *ssa.Call:
					if depth == 0 && flow.IsCallTo(&x.Call, srvPath+"/client/history", "", "DecodeClusterShardMD") {
						mark(x)
					}
				case *ssa.Extract:
					if isT(x.Tuple) && (x.Index == 0 || x.Index == 1 || depth > 0) {
						mark(x)
					}
				case *ssa.Field:
					if isT(x.X) {
						mark(x)
					}
				case *ssa.FieldAddr:
					if isT(x.X) {
						mark(x)
					}
				case *ssa.UnOp:
					if isT(x.X) {
						mark(x)
					}
				case *ssa.Store:
					if isT(x.Val) {
						if cell := flow.CellOf(x.Addr); cell != nil {
							mark(cell)
						} else if fa, ok := x.Addr.(*ssa.FieldAddr); ok {
							mark(fa)
							if cell := flow.CellOf(fa.X); cell != nil {
								// field-insensitive on local structs
								mark(cell)
							}
						}
					}
				case *ssa.Convert:
					if isT(x.X) {
						mark(x)
					}
				case *ssa.ChangeType:
					if isT(x.X) {
						mark(x)
					}
				case *ssa.Phi:
					for _, e := range x.Edges {
						if isT(e) {
							mark(x)
						}
					}
				case *ssa.BinOp:
					switch x.Op {
					case token.ADD, token.SUB, token.MUL, token.SHL, token.QUO, token.REM, token.AND, token.OR, token.SHR:
						if isT(x.X) || isT(x.Y) {
							mark(x)
						}
					}
				}
			}
		}
	}
	// sinks and calls
	for _, b := range f.Blocks {
		for _, ins := range b.Instrs {
			switch x := ins.(type) {
			case *ssa.BinOp:
				if (x.Op == token.ADD || x.Op == token.SUB || x.Op == token.MUL || x.Op == token.SHL) && narrowInt(x.Type()) && (isT(x.X) || isT(x.Y)) {
					var tv ssa.Value = x.X
					if !isT(tv) {
						tv = x.Y
					}
					if upperBounded(b, tv) {
						continue
					}
					k := fmt.Sprintf("%s: %s in %s", shortFn(f), flow.Describe(x), types.TypeString(x.Type(), nil))
					t.findings[k] = instrPos(t.c.Prog, x) + "|" + via
				}
			case ssa.CallInstruction:
				cc := x.Common()
				targets := []*ssa.Function{}
				if cal := flow.StaticCallee(cc); cal != nil {
					targets = append(targets, cal)
				} else if !cc.IsInvoke() {
					if _, isB := cc.Value.(*ssa.Builtin); !isB {
						targets = append(targets, t.fnValues[sigKey(cc.Value.Type())]...)
					}
				}
				for _, cal := range targets {
					if cal.Blocks == nil || cal.Pkg == nil || !strings.HasPrefix(cal.Pkg.Pkg.Path(), modPath) {
						continue
					}
					ps := map[int]bool{}
					off := 0
					if cal.Signature.Recv() != nil && flow.StaticCallee(cc) == nil {
						off = 1 // dynamic call of a bound method: receiver is not among the arguments
					}
					for i, a := range cc.Args {
						if isT(a) {
							ps[i+off] = true
						}
					}
					if len(ps) > 0 {
						t.analyse(cal, ps, depth+1, via+" -> "+shortFn(cal))
					}
				}
			}
		}
	}
}

// upperBounded: a dominating guard bounds v from above by a constant.
func upperBounded(b *ssa.BasicBlock, v ssa.Value) bool {
	for _, g := range flow.NormGuards(flow.Guards(b)) {
		bo, ok := g.Cond.(*ssa.BinOp)
		if !ok {
			continue
		}
		lhsIsV := bo.X == v
		rhsIsV := bo.Y == v
		if !lhsIsV && !rhsIsV {
			continue
		}
		other := bo.Y
		if rhsIsV {
			other = bo.X
		}
		if _, isConst := flow.ConstInt(other); !isConst {
			continue
		}
		op := bo.Op
		if rhsIsV { // C op v  ==  v op' C
			switch op {
			case token.LSS:
				op = token.GTR
			case token.LEQ:
				op = token.GEQ
			case token.GTR:
				op = token.LSS
			case token.GEQ:
				op = token.LEQ
			}
		}
		if ((op == token.LSS || op == token.LEQ) && g.Side) || ((op == token.GTR || op == token.GEQ) && !g.Side) {
			return true
		}
	}
	return false
}

func checkNarrowArithmetic(c *Ctx, res *report.Result, h *ssa.Function) {
	rule := "O20.5"
	t := &taintRun{c: c, res: res, visited: map[string]bool{}, findings: map[string]string{}, funcs: map[string]bool{}}
	t.moduleFuncValues()
	t.analyse(h, map[int]bool{}, 0, shortFn(h))
	for _, k := range sortedKeys(t.findings) {
		parts := strings.SplitN(t.findings[k], "|", 2)
		res.Viol(rule, k, parts[0], "arithmetic on a type narrower than 64 bits over a value taken from stream-open metadata, with no dominating upper bound and no widening conversion: for large ids it wraps around (e.g. to a negative size)", "taint path: "+parts[1])
	}
	fs := sortedKeys(t.funcs)
	res.Check(len(fs) >= 3, rule, "taint walk reaches the bookkeeping code", "", fmt.Sprintf("%d module functions reached with tainted ids, e.g. %s", len(fs), strings.Join(fs[:min(len(fs), 6)], ", ")), fmt.Sprintf("only %d functions reached: the walk no longer follows the ids into the observer", len(fs)))
	reached := false
	for _, f := range fs {
		if strings.Contains(f, "ReportStreamValue") {
			reached = true
		}
	}
	res.Check(reached, rule, "taint walk follows the function-valued reportStreamValue field into ReportStreamValue", "", "reached", "the stream counter update is not reached from the handler: resolution of the function-valued field failed")
	if len(t.findings) == 0 {
		res.Hold(rule, "no narrow arithmetic on metadata ids", "", fmt.Sprintf("%d functions examined", len(fs)))
	}
	res.Analysed["taint_functions"] = fs
}

// checkReentrancy: inside a critical section of a mutex field selected by `sel` ("Owner.field"), no call
// (through module callees and closures) acquires the same mutex again, and the selected mutexes are
// nested in one order only. Returns the number of sections examined.
func checkReentrancy(c *Ctx, res *report.Result, rule6 string, pkgs []*ssa.Package, sel func(key string) bool) int {
	inPkgs := map[*ssa.Package]bool{}
	for _, p := range pkgs {
		inPkgs[p] = true
	}
	keyOf := func(op flow.MutexOp) string {
		if fa, ok := op.Instr.Common().Args[0].(*ssa.FieldAddr); ok {
			if nt := namedOf(fa.X.Type()); nt != nil {
				return nt.Obj().Name() + "." + op.Field
			}
		}
		return ""
	}
	acq := map[*ssa.Function]map[string]bool{}
	var acquires func(g *ssa.Function, depth int) map[string]bool
	acquires = func(g *ssa.Function, depth int) map[string]bool {
		if m, ok := acq[g]; ok {
			return m
		}
		m := map[string]bool{}
		acq[g] = m
		if depth > 8 || g.Blocks == nil {
			return m
		}
		for _, op := range flow.MutexOps(g) {
			if op.Op != "Lock" && op.Op != "RLock" {
				continue
			}
			if k := keyOf(op); k != "" && sel(k) {
				m[k] = true
			}
		}
		// synchronous callees only: calls and defers (not `go`), closures created here (they may be invoked
		// synchronously by a callee: once.Do, sort callbacks, ...) except those that are only started with `go`
		var cals []*ssa.Function
		goOnly := map[*ssa.Function]bool{}
		for _, b := range g.Blocks {
			for _, ins := range b.Instrs {
				switch x := ins.(type) {
				case *ssa.Go:
					if cal := flow.StaticCallee(&x.Call); cal != nil {
						goOnly[cal] = true
					}
					if mc, ok := x.Call.Value.(*ssa.MakeClosure); ok {
						if fn, ok := mc.Fn.(*ssa.Function); ok {
							goOnly[fn] = true
						}
					}
				case ssa.CallInstruction:
					if cal := flow.StaticCallee(x.Common()); cal != nil {
						cals = append(cals, cal)
					}
				case *ssa.MakeClosure:
					if fn, ok := x.Fn.(*ssa.Function); ok {
						cals = append(cals, fn)
					}
				}
			}
		}
		for _, cal := range cals {
			if goOnly[cal] || cal.Package() == nil || !strings.HasPrefix(cal.Package().Pkg.Path(), modPath) {
				continue
			}
			for k := range acquires(cal, depth+1) {
				m[k] = true
			}
		}
		return m
	}
	order := map[string]map[string]string{} // held -> acquired -> where
	n6 := 0
	for _, f := range c.Prog.RepoFuncs() {
		if !inPkgs[f.Package()] || !isShippedFunc(f) {
			continue
		}
		for _, sec := range flow.Sections(f) {
			held := keyOf(sec.Lock)
			if held == "" || !sel(held) {
				continue
			}
			n6++
			bad := false
			for _, ins := range sec.Instrs {
				call, isCall := ins.(ssa.CallInstruction)
				if !isCall {
					continue
				}
				if _, isDefer := ins.(*ssa.Defer); isDefer {
					continue
				}
				if _, isGo := ins.(*ssa.Go); isGo {
					continue // another goroutine: it waits, the holder does not
				}
				var targets []*ssa.Function
				if cal := flow.StaticCallee(call.Common()); cal != nil {
					targets = append(targets, cal)
				}
				if mc, isMC := call.Common().Value.(*ssa.MakeClosure); isMC {
					if fn, okf := mc.Fn.(*ssa.Function); okf {
						targets = append(targets, fn)
					}
				}
				// a callback handed to a module callee that calls it on this goroutine (directly, in a defer, or through
				// a further module callee - not with `go`) runs inside the section too
				if cal := flow.StaticCallee(call.Common()); cal != nil && cal.Package() != nil && strings.HasPrefix(cal.Package().Pkg.Path(), modPath) {
					for i, a := range call.Common().Args {
						fn, _ := closureFn(flow.ResolveLoad(a))
						if fn != nil && i < len(cal.Params) && paramCalledSync(cal, i, 0) {
							targets = append(targets, fn)
						}
					}
				}
				for _, cal := range targets {
					if cal.Package() == nil || !strings.HasPrefix(cal.Package().Pkg.Path(), modPath) {
						continue
					}
					for k := range acquires(cal, 0) {
						if k == held {
							bad = true
							res.Viol(rule6, fmt.Sprintf("%s: no re-entrant acquisition of %s", shortFn(f), held), instrPos(c.Prog, ins), "while holding "+held+" the function calls "+shortFn(cal)+", which acquires the same non-reentrant mutex: the goroutine blocks on itself, the lock is never released and everything that needs it blocks behind it")
						} else {
							if order[held] == nil {
								order[held] = map[string]string{}
							}
							order[held][k] = instrPos(c.Prog, ins)
						}
					}
				}
			}
			if !bad {
				res.Hold(rule6, fmt.Sprintf("%s: no re-entrant acquisition of %s", shortFn(f), held), instrPos(c.Prog, sec.Lock.Instr), "no call inside the section reaches a Lock/RLock of the same mutex")
			}
		}
	}
	cyc := ""
	for a, m := range order {
		for b, where := range m {
			if _, back := order[b][a]; back {
				cyc = a + " -> " + b + " (" + where + ") and back (" + order[b][a] + ")"
			}
		}
	}
	var nest []string
	for a, m := range order {
		for b := range m {
			nest = append(nest, a+" -> "+b)
		}
	}
	sort.Strings(nest)
	res.Check(cyc == "", rule6, "locks are acquired in one order", "", fmt.Sprintf("%d nested acquisitions, no cycle: %s", len(nest), strings.Join(nest, "; ")), "lock-order inversion: "+cyc)
	return n6
}

// checkObserverIndexGuard: see O20.9 (also filed under C07 as O7.5: LCM mode opens a stream for every shard id
// 1..LCM and each of them is reported to the observer first).
func checkObserverIndexGuard(c *Ctx, res *report.Result, rule string) {
	f := resolve(c, res, rule, anchor{"proxy", "*ReplicationStreamObserver", "ReportStreamValue"})
	if f == nil {
		return
	}
	n := 0
	for _, b := range f.Blocks {
		for _, ins := range b.Instrs {
			ia, ok := ins.(*ssa.IndexAddr)
			if !ok {
				continue
			}
			_, fld, okf := flow.FieldLoadOf(ia.X)
			if !okf || fld != "streamActive" {
				continue
			}
			n++
			// a test `int(idx) >= len(<load of streamActive>)` (or `<` / swapped) on every path from entry
			isLenTest := func(x ssa.Instruction) bool {
				iff, isIf := x.(*ssa.If)
				if !isIf {
					return false
				}
				bo, isB := iff.Cond.(*ssa.BinOp)
				if !isB {
					return false
				}
				for _, side := range []ssa.Value{bo.X, bo.Y} {
					if call, isC := side.(*ssa.Call); isC {
						if bi, isBi := call.Call.Value.(*ssa.Builtin); isBi && bi.Name() == "len" {
							if _, f2, ok2 := flow.FieldLoadOf(call.Call.Args[0]); ok2 && f2 == "streamActive" {
								return true
							}
						}
					}
				}
				return false
			}
			r := flow.FindPath(flow.Point{Block: f.Blocks[0]}, func(x ssa.Instruction) bool { return x == ssa.Instruction(ia) }, isLenTest, nil)
			res.Check(!r.Found, rule, "ReportStreamValue: streamActive[idx] is reached only through a test of idx against len(streamActive)", instrPos(c.Prog, ia), "every path passes `idx >= len(s.streamActive)`", "the counter slot is indexed without a preceding comparison of the index with the slice's length (path "+flow.BlockPath(r.Via)+"): an index between len and cap - any shard id above the last grown size - panics with index out of range and that shard's stream is refused")
			// the edge that skips the growth must imply idx < len(streamActive): `idx > len` or `idx >= len+1` would
			// let idx == len through (boundary value: the shard id that equals the table's current length)
			isStoreSA := func(x ssa.Instruction) bool {
				st, isSt := x.(*ssa.Store)
				if !isSt {
					return false
				}
				fa, isFA := st.Addr.(*ssa.FieldAddr)
				return isFA && flow.FieldName(fa.X.Type(), fa.Field) == "streamActive"
			}
			for _, gb := range f.Blocks {
				if len(gb.Instrs) == 0 || !isLenTest(gb.Instrs[len(gb.Instrs)-1]) {
					continue
				}
				iff := gb.Instrs[len(gb.Instrs)-1].(*ssa.If)
				for si, succ := range gb.Succs {
					// the no-growth way: ia reachable from succ without a store to streamActive
					rr := flow.FindPath(flow.Point{Block: succ}, func(x ssa.Instruction) bool { return x == ssa.Instruction(ia) }, isStoreSA, nil)
					if !rr.Found {
						continue
					}
					implied, form := impliesIndexBelowLen(iff.Cond.(*ssa.BinOp), si == 0, ia.Index)
					construct := "ReportStreamValue: the way around the growth implies idx < len(streamActive)"
					switch {
					case form == "":
						res.Undec(rule, construct, instrPos(c.Prog, iff), "the comparison of the index with the length is not of a form the rule knows (idx, len, each with an optional constant offset, compared by < <= > >=)")
					case implied:
						res.Hold(rule, construct, instrPos(c.Prog, iff), "on the edge that skips the growth: "+form)
					default:
						res.Viol(rule, construct, instrPos(c.Prog, iff), "on the edge that skips the growth only `"+form+"` is known, which does not exclude idx == len(streamActive): the stream whose shard id equals the current table length (1024 on a fresh proxy, then every grown size) panics with index out of range and is refused")
					}
				}
			}
		}
	}
	if n == 0 {
		res.Undec(rule, "ReportStreamValue: counter access", fnPos(c.Prog, f), "no indexed access of streamActive found")
	}
}

// impliesIndexBelowLen: cond is `A op B` where one side is idx(+k) and the other len(streamActive)(+k). Returns
// whether the given side of the test implies idx < len, and a rendering of what the side implies ("" = unknown form).
func impliesIndexBelowLen(bo *ssa.BinOp, side bool, idx ssa.Value) (bool, string) {
	type term struct {
		isLen bool
		off   int64
	}
	var parse func(v ssa.Value, d int) (term, bool)
	parse = func(v ssa.Value, d int) (term, bool) {
		if d > 4 {
			return term{}, false
		}
		switch x := v.(type) {
		case *ssa.Convert:
			return parse(x.X, d+1)
		case *ssa.Call:
			if bi, ok := x.Call.Value.(*ssa.Builtin); ok && bi.Name() == "len" {
				if _, f2, ok2 := flow.FieldLoadOf(x.Call.Args[0]); ok2 && f2 == "streamActive" {
					return term{true, 0}, true
				}
			}
		case *ssa.BinOp:
			if x.Op == token.ADD || x.Op == token.SUB {
				if k, ok := flow.ConstInt(x.Y); ok {
					t, ok2 := parse(x.X, d+1)
					if !ok2 {
						return term{}, false
					}
					if x.Op == token.SUB {
						k = -k
					}
					t.off += k
					return t, true
				}
			}
		}
		if flow.SameValue(flow.Strip(v), flow.Strip(idx)) {
			return term{false, 0}, true
		}
		return term{}, false
	}
	a, okA := parse(bo.X, 0)
	b, okB := parse(bo.Y, 0)
	if !okA || !okB || a.isLen == b.isLen {
		return false, ""
	}
	op := bo.Op
	// orient as idx+a.off OP len+b.off
	if a.isLen {
		a, b = b, a
		switch op {
		case token.LSS:
			op = token.GTR
		case token.LEQ:
			op = token.GEQ
		case token.GTR:
			op = token.LSS
		case token.GEQ:
			op = token.LEQ
		}
	}
	if !side {
		switch op {
		case token.LSS:
			op = token.GEQ
		case token.LEQ:
			op = token.GTR
		case token.GTR:
			op = token.LEQ
		case token.GEQ:
			op = token.LSS
		default:
			return false, ""
		}
	}
	k := b.off - a.off // idx - len OP k
	switch op {
	case token.LSS: // idx - len < k  => idx - len <= k-1
		return k-1 <= -1, fmt.Sprintf("idx - len(streamActive) <= %d", k-1)
	case token.LEQ:
		return k <= -1, fmt.Sprintf("idx - len(streamActive) <= %d", k)
	case token.GTR, token.GEQ:
		return false, "no upper bound on idx"
	}
	return false, ""
}

// sigKey renders a function type without its parameter names (types.TypeString prints them, so renaming a parameter
// of the target would change the key under which a function value is looked up).
func sigKey(t types.Type) string {
	sig, ok := t.Underlying().(*types.Signature)
	if !ok {
		return types.TypeString(t, nil)
	}
	var b strings.Builder
	b.WriteString("func(")
	for i := 0; i < sig.Params().Len(); i++ {
		if i > 0 {
			b.WriteString(",")
		}
		b.WriteString(types.TypeString(sig.Params().At(i).Type(), nil))
	}
	if sig.Variadic() {
		b.WriteString("...")
	}
	b.WriteString(")(")
	for i := 0; i < sig.Results().Len(); i++ {
		if i > 0 {
			b.WriteString(",")
		}
		b.WriteString(types.TypeString(sig.Results().At(i).Type(), nil))
	}
	b.WriteString(")")
	return b.String()
}

// paramCalledSync: fn can call its i-th parameter (a function value) on the calling goroutine: a call or deferred
// call of the parameter, or handing it to a module callee that does (three levels); `go` does not count.
func paramCalledSync(fn *ssa.Function, i int, depth int) bool {
	if depth > 3 || i >= len(fn.Params) || len(fn.Blocks) == 0 {
		return false
	}
	p := ssa.Value(fn.Params[i])
	is := func(v ssa.Value) bool { return v == p || flow.ResolveLoad(v) == p }
	for _, f := range append([]*ssa.Function{fn}, flow.AnonFuncsDeep(fn)...) {
		// closures of fn that are only started with `go` run elsewhere
		if f != fn {
			onlyGo := true
			for _, b := range f.Parent().Blocks {
				for _, ins := range b.Instrs {
					if ci, ok := ins.(ssa.CallInstruction); ok {
						if cl, _ := closureFn(ci.Common().Value); cl == f {
							if _, isGo := ins.(*ssa.Go); !isGo {
								onlyGo = false
							}
						}
					}
				}
			}
			if onlyGo {
				continue
			}
		}
		for _, b := range f.Blocks {
			for _, ins := range b.Instrs {
				ci, ok := ins.(ssa.CallInstruction)
				if !ok {
					continue
				}
				if _, isGo := ins.(*ssa.Go); isGo {
					continue
				}
				cc := ci.Common()
				v := cc.Value
				if fv, isFV := v.(*ssa.FreeVar); isFV {
					v = freeVarBinding(fv)
				}
				if !cc.IsInvoke() && is(v) {
					return true
				}
				if sc := flow.StaticCallee(cc); sc != nil && sc.Package() != nil && strings.HasPrefix(sc.Package().Pkg.Path(), modPath) {
					for j, a := range cc.Args {
						av := a
						if fv, isFV := av.(*ssa.FreeVar); isFV {
							av = freeVarBinding(fv)
						}
						if is(av) && paramCalledSync(sc, j, depth+1) {
							return true
						}
					}
				}
			}
		}
	}
	return false
}
