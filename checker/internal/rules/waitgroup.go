package rules

import (
	"fmt"
	"sort"
	"strings"

	"golang.org/x/tools/go/ssa"

	"s2scheck/internal/flow"
	"s2scheck/internal/report"
)

// waitNotRequired: functions that start counted workers and return without waiting for them by design.
var waitNotRequired = map[string]string{
	"(*proxy.proxyStreamSender).Run": "returns once the latch is tripped and the send channel is closed; the ack worker ends with the stream ('Do not block waiting for ack goroutine') - the WaitGroup is only counted",
}

// checkWaitGroups: every local sync.WaitGroup of the given files is used consistently - the constant passed to Add
// equals the number of goroutines started with it, each of those calls Done from a defer placed in its entry
// block (so on every exit, panics included), none of them is called synchronously, and the starting function
// reaches no return after the last `go` without passing Wait (reviewed exceptions aside). A worker without Done, or
// an Add that counts one too many, parks the handler in Wait for ever (the stream's registrations are never
// removed, the gRPC handler never returns); a missing Wait lets the deferred unregistrations run while the workers
// still use what they unregister.
func checkWaitGroups(c *Ctx, res *report.Result, rule string, files []string, minGroups int) {
	var fs []*ssa.Function
	for _, f := range c.Prog.RepoFuncs() {
		if !isShippedFunc(f) || len(f.Blocks) == 0 || f.Parent() != nil {
			continue
		}
		pos := c.Prog.Pos(f.Pos())
		for _, fl := range files {
			if strings.HasPrefix(pos, fl) {
				fs = append(fs, f)
				break
			}
		}
	}
	sort.Slice(fs, func(i, j int) bool { return fs[i].String() < fs[j].String() })
	n := 0
	for _, f := range fs {
		for _, wg := range localWaitGroups(f) {
			n++
			construct := fmt.Sprintf("%s: WaitGroup #%d is counted, released and awaited consistently", shortFn(f), n)
			bad := waitGroupProblems(c, f, wg)
			res.Check(bad == "", rule, construct, instrPos(c.Prog, wg), "Add = number of `go` workers, each with an entry-block deferred Done, Wait before return", bad)
		}
	}
	if n < minGroups {
		res.Undec(rule, "local WaitGroups", "", fmt.Sprintf("%d found, %d confirmed by hand", n, minGroups))
	}
}

func localWaitGroups(f *ssa.Function) []*ssa.Alloc {
	var out []*ssa.Alloc
	for _, b := range f.Blocks {
		for _, ins := range b.Instrs {
			if al, ok := ins.(*ssa.Alloc); ok {
				if flow.NamedIs(al.Type(), "sync", "WaitGroup") {
					out = append(out, al)
				}
			}
		}
	}
	return out
}

func wgMethod(call ssa.CallInstruction, name string) (ssa.Value, bool) {
	cc := call.Common()
	sc := flow.StaticCallee(cc)
	if sc == nil || sc.Name() != name || sc.Signature.Recv() == nil || !flow.NamedIs(sc.Signature.Recv().Type(), "sync", "WaitGroup") || len(cc.Args) == 0 {
		return nil, false
	}
	return cc.Args[0], true
}

// doneInEntryDefer: worker w calls Done on the value `as` (a free variable or parameter standing for the group) from
// a defer in its entry block.
func doneInEntryDefer(w *ssa.Function, as ssa.Value) bool {
	if len(w.Blocks) == 0 {
		return false
	}
	for _, ins := range w.Blocks[0].Instrs {
		d, ok := ins.(*ssa.Defer)
		if !ok {
			continue
		}
		if v, isDone := wgMethod(d, "Done"); isDone && flow.Strip(flow.ResolveLoad(v)) == as {
			return true
		}
		// defer func() { ...; wg.Done() }()
		if mc, isMC := d.Call.Value.(*ssa.MakeClosure); isMC {
			lit, _ := mc.Fn.(*ssa.Function)
			if lit == nil {
				continue
			}
			// which free variable of the literal stands for the group?
			for i, bnd := range mc.Bindings {
				if flow.Strip(flow.ResolveLoad(bnd)) != as && bnd != as && !cellHolds(bnd, as) {
					continue
				}
				fv := lit.FreeVars[i]
				all := true
				found := false
				// Done on every path of the literal: a Done that dominates every return
				for _, lb := range lit.Blocks {
					for _, li := range lb.Instrs {
						if call, isCall := li.(ssa.CallInstruction); isCall {
							if v, isDone := wgMethod(call, "Done"); isDone && (v == ssa.Value(fv) || flow.Strip(flow.ResolveLoad(v)) == ssa.Value(fv) || loadOf(v, fv)) {
								found = true
								for _, rb := range lit.Blocks {
									if rb == lit.Recover {
										continue // reached only after a recovered panic of the literal itself
									}
									for _, ri := range rb.Instrs {
										if _, isRet := ri.(*ssa.Return); isRet && !lb.Dominates(rb) {
											all = false
										}
									}
								}
							}
						}
					}
				}
				if found && all {
					return true
				}
			}
		}
	}
	return false
}

func waitGroupProblems(c *Ctx, f *ssa.Function, wg *ssa.Alloc) string {
	adds := int64(0)
	var waits []ssa.Instruction
	var gos []*ssa.Go
	workers := 0
	var problems []string
	for _, b := range f.Blocks {
		for _, ins := range b.Instrs {
			call, ok := ins.(ssa.CallInstruction)
			if !ok {
				continue
			}
			if v, isAdd := wgMethod(call, "Add"); isAdd && v == ssa.Value(wg) {
				if k, isK := flow.ConstInt(call.Common().Args[1]); isK {
					adds += k
				} else {
					problems = append(problems, "Add with a non-constant count")
				}
			}
			if v, isWait := wgMethod(call, "Wait"); isWait && v == ssa.Value(wg) {
				waits = append(waits, ins)
			}
			// a worker: a function started here that is handed the group
			var w *ssa.Function
			var as ssa.Value
			cc := call.Common()
			if mc, isMC := cc.Value.(*ssa.MakeClosure); isMC {
				for i, bnd := range mc.Bindings {
					if bnd == ssa.Value(wg) {
						w, _ = mc.Fn.(*ssa.Function)
						if w != nil {
							as = w.FreeVars[i]
						}
					}
				}
			} else if sc := flow.StaticCallee(cc); sc != nil && len(sc.Blocks) > 0 {
				for i, a := range cc.Args {
					if a == ssa.Value(wg) && i < len(sc.Params) && sc.Name() != "Add" && sc.Name() != "Wait" && sc.Name() != "Done" {
						w, as = sc, sc.Params[i]
					}
				}
			}
			if w == nil {
				continue
			}
			if _, isDefer := ins.(*ssa.Defer); isDefer {
				continue
			}
			g, isGo := ins.(*ssa.Go)
			if !isGo {
				problems = append(problems, "the worker "+shortFn(w)+" is called synchronously ("+instrPos(c.Prog, ins)+"): the next worker does not start until it ends")
				continue
			}
			gos = append(gos, g)
			if doneInEntryDefer(w, as) {
				workers++
			} else {
				problems = append(problems, "the worker "+shortFn(w)+" does not call Done from a defer in its entry block: an exit (or a panic) without Done parks Wait for ever")
			}
		}
	}
	if int64(len(gos)) != adds {
		problems = append(problems, fmt.Sprintf("Add counts %d but %d workers are started with the group", adds, len(gos)))
	}
	if why, exempt := waitNotRequired[shortFn(f)]; !exempt {
		if len(waits) == 0 {
			problems = append(problems, "the starting function never waits for its workers: its deferred clean-up runs while they still use what it removes")
		} else if len(gos) > 0 {
			last := gos[len(gos)-1]
			isWait := func(x ssa.Instruction) bool {
				for _, w := range waits {
					if w == x {
						return true
					}
				}
				return false
			}
			if r := flow.FindPath(flow.After(last), flow.IsReturn, isWait, nil); r.Found {
				problems = append(problems, "a return is reachable after the workers were started without passing Wait (path "+flow.BlockPath(r.Via)+")")
			}
		}
	} else {
		_ = why
	}
	return strings.Join(problems, "; ")
}

// cellHolds: cell is a local variable cell (Alloc) into which v is stored (a parameter captured by a closure).
func cellHolds(cell, v ssa.Value) bool {
	al, ok := cell.(*ssa.Alloc)
	if !ok || al.Referrers() == nil {
		return false
	}
	for _, r := range *al.Referrers() {
		if st, isSt := r.(*ssa.Store); isSt && st.Addr == cell && st.Val == v {
			return true
		}
	}
	return false
}

// loadOf: v is a load of the cell fv.
func loadOf(v ssa.Value, fv ssa.Value) bool {
	u, ok := v.(*ssa.UnOp)
	return ok && u.X == fv
}

// checkDeferredCancel: every context.WithCancel / WithTimeout / WithDeadline whose cancel function is a local of f
// is cancelled on every exit of f: a `defer cancel()` is registered before anything that can return. The stream a
// receiver opens on such a context stays open on the serving cluster for as long as the context lives.
func checkDeferredCancel(c *Ctx, res *report.Result, rule string, f *ssa.Function) {
	n := 0
	for _, call := range flow.Calls(f) {
		sc := flow.StaticCallee(call.Common())
		if sc == nil || sc.Pkg == nil || sc.Pkg.Pkg.Path() != "context" {
			continue
		}
		switch sc.Name() {
		case "WithCancel", "WithTimeout", "WithDeadline", "WithCancelCause":
		default:
			continue
		}
		cv, ok := call.(*ssa.Call)
		if !ok {
			continue
		}
		var cancel ssa.Value
		for _, r := range *cv.Referrers() {
			if ex, isEx := r.(*ssa.Extract); isEx && ex.Index == 1 {
				cancel = ex
			}
		}
		if cancel == nil {
			continue
		}
		n++
		// a defer that calls it (directly, or a cell it was stored to)
		var d *ssa.Defer
		for _, df := range flow.Defers(f) {
			if deferRuns(df, func(cc *ssa.CallCommon, outer func(ssa.Value) ssa.Value) bool {
				if cc.IsInvoke() {
					return false
				}
				v := cc.Value
				if v == cancel || flow.Strip(flow.ResolveLoad(v)) == cancel || outer(v) == cancel {
					return true
				}
				ld, isLd := v.(*ssa.UnOp)
				return isLd && cellHolds(ld.X, cancel)
			}) {
				d = df
			}
		}
		construct := fmt.Sprintf("%s: the context created at %s is cancelled on every exit", shortFn(f), instrPos(c.Prog, cv))
		if d == nil {
			res.Viol(rule, construct, instrPos(c.Prog, cv), "no `defer cancel()`: when the function ends the context lives on, and so does the stream that was opened on it - the serving cluster keeps a sender for a receiver that is gone")
			continue
		}
		r := flow.FindPath(flow.After(cv), flow.IsReturn, func(x ssa.Instruction) bool { return x == ssa.Instruction(d) }, nil)
		res.Check(!r.Found, rule, construct, instrPos(c.Prog, d), "defer cancel() precedes every return", "a return is reachable between the creation of the context and the registration of its deferred cancel (path "+flow.BlockPath(r.Via)+")")
	}
	if n == 0 {
		res.Undec(rule, shortFn(f)+": cancellable context", fnPos(c.Prog, f), "no context.WithCancel/WithTimeout found")
	}
}
