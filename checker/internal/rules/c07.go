package rules

import (
	"fmt"
	"go/token"
	"strings"

	"golang.org/x/tools/go/ssa"

	"s2scheck/internal/flow"
	"s2scheck/internal/report"
)

func init() { Registry["C07"] = c07 }

// paramClosure: the closure function a local variable (cell or value) of NewClusterConnection holds.
func closureStoredIn(f *ssa.Function, v ssa.Value) *ssa.Function {
	v = flow.ResolveLoad(v)
	if fn, _ := closureFn(v); fn != nil {
		return fn
	}
	return nil
}

// shardParamsSpec describes how one of the per-direction parameter structs is built.
type shardParamsCheck struct {
	rule, field, closureField string // serverConfiguration field; struct field inside that must follow the client side
	// want[clientSide] = ShardCountConfig field expected
	want map[string]string
	mode string
}

// clientSideOf: which cluster does the literal's forwarding client talk to ("Local"/"Remote")?
func clientSideOf(ncc *ssa.Function, l *cfgLiteral) string {
	p, ok := flow.FieldPath(l.fields["client"])
	if !ok {
		return ""
	}
	// p is local(complit).inboundClient / .outboundClient: find the store to that field and the createClient argument
	field := p[strings.LastIndex(p, ".")+1:]
	for _, b := range ncc.Blocks {
		for _, ins := range b.Instrs {
			st, ok := ins.(*ssa.Store)
			if !ok {
				continue
			}
			fa, ok := st.Addr.(*ssa.FieldAddr)
			if !ok || flow.FieldName(fa.X.Type(), fa.Field) != field {
				continue
			}
			if ex, ok := st.Val.(*ssa.Extract); ok {
				if call, ok := ex.Tuple.(*ssa.Call); ok && flow.IsCallTo(&call.Call, proxyPkg, "", "createClient") {
					if ap, ok := flow.FieldPath(call.Call.Args[2]); ok {
						return ap[strings.LastIndex(ap, ".")+1:]
					}
				}
			}
		}
	}
	return ""
}

func checkShardParams(c *Ctx, res *report.Result, sc shardParamsCheck) {
	ncc := resolve(c, res, sc.rule, anchor{"proxy", "", "NewClusterConnection"})
	if ncc == nil {
		return
	}
	lits := serverConfigLiterals(ncc)
	if len(lits) != 2 {
		res.Undec(sc.rule, "NewClusterConnection: server configurations", fnPos(c.Prog, ncc), fmt.Sprintf("%d literals", len(lits)))
		return
	}
	for _, l := range lits {
		side := clientSideOf(ncc, l)
		construct := fmt.Sprintf("NewClusterConnection: %s-facing server (forwards to %s): %s.%s", l.facing, side, sc.field, sc.closureField)
		call, ok := l.fields[sc.field].(*ssa.Call)
		if !ok || side == "" {
			res.Undec(sc.rule, construct, instrPos(c.Prog, l.cell), "cannot trace the parameter struct / the forwarding client's side")
			continue
		}
		cl := closureStoredIn(ncc, call.Call.Value)
		if cl == nil {
			res.Undec(sc.rule, construct, instrPos(c.Prog, call), "the parameter struct is not built by a local closure the checker can read")
			continue
		}
		// constant `inverse` argument
		inv, isConst := flow.ConstBool(call.Call.Args[1])
		if !isConst {
			res.Undec(sc.rule, construct, instrPos(c.Prog, call), "non-constant direction flag")
			continue
		}
		cfgArg, _ := flow.FieldPath(call.Call.Args[0])
		if !strings.HasSuffix(cfgArg, ".ShardCountConfig") {
			res.Viol(sc.rule, construct, instrPos(c.Prog, call), "built from "+cfgArg+" instead of connConfig.ShardCountConfig")
			continue
		}
		// inside the closure: the return on the side selected by `inverse`
		got := ""
		for _, b := range cl.Blocks {
			for _, ins := range b.Instrs {
				ret, ok := ins.(*ssa.Return)
				if !ok {
					continue
				}
				sel := false
				for _, g := range flow.NormGuards(flow.Guards(b)) {
					if g.Cond == ssa.Value(cl.Params[1]) {
						sel = g.Side == inv
					}
				}
				// the !inverse return is the fall-through: guarded by inverse==false
				if !sel {
					continue
				}
				v := flow.StructValueField(ret.Results[0], sc.closureField, 0)
				if v == nil {
					continue
				}
				if p, ok := flow.FieldPath(v); ok {
					got = p[strings.LastIndex(p, ".")+1:]
				}
			}
		}
		want := sc.want[side]
		res.Check(got == want && want != "", sc.rule, construct, instrPos(c.Prog, call), sc.closureField+" = ShardCountConfig."+got,
			fmt.Sprintf("the server that forwards to the %s cluster gets %s = ShardCountConfig.%s, expected %s", side, sc.closureField, got, want))
	}
}

func c07(c *Ctx) (*report.Result, error) {
	res := newResult("C07")
	res.RuleDoc["O7.1"] = "orientation: the server that forwards to cluster X maps LCM shard ids onto X's own shard count (TargetShardCount = X's count) and both servers use LCM = common.LCM(local count, remote count)"
	res.RuleDoc["O7.2"] = "report: DescribeCluster stores lcmParameters.LCM into HistoryShardCount on every path that returns a response in LCM mode without error and without the bypass header"
	res.RuleDoc["O7.3"] = "remap: in handleStream's LCM case the forwarded client shard id is the incoming LCM shard id, the server shard id is mapShardIDUnique(LCM, TargetShardCount, incoming id) with arguments in that order, cluster ids are carried over unswapped, and all four metadata keys are set before the forwarder is built"
	res.RuleDoc["O7.5"] = "every LCM shard id can open a stream: the stream handler reports the shard to the observer before forwarding, and the observer's slot access is guarded by a test against the length of the indexed slice (same analysis as O20.9) - LCM shard ids run up to local x remote, far beyond the table's initial size"
	res.RuleDoc["O7.9"] = "the remapped ids are the ones the serving cluster sees: StreamForwarder.Run opens the source stream with exactly the targetMetadata the handler prepared (the only place where LCM mode's four rewrites live) - nothing is joined in front of it or appended to it; the forwarder's own shard id fields are the un-remapped ones and Temporal's decoder reads the first value of a key"
	checkForwarderMetadataVerbatim(c, res, "O7.9")
	res.RuleDoc["O7.8"] = "every LCM shard's stream can be open at once: no gRPC server of the module caps concurrent streams by a bound that is not derived from the LCM (today: no cap at all)"
	checkNoStreamCap(c, res, "O7.8")
	checkObserverIndexGuard(c, res, "O7.5")
	res.RuleDoc["O7.6"] = "no shard id of the presented space is refused on the way in: an error return of the stream handler that depends on the decoded shard id may reject only ids below 1 or above the LCM (`< 1`, `<= 0`, `> LCM`): Temporal shard ids are 1-based, so `>= LCM` or `< 2` style bounds refuse a valid shard"
	res.RuleDoc["O7.4"] = "the mapping must be single-valued: mapShardIDUnique returns element 0 only under len == 1 and panics otherwise; common.LCM is a*b/GCD(a,b)"

	checkShardParams(c, res, shardParamsCheck{rule: "O7.1", field: "lcmParameters", closureField: "TargetShardCount",
		want: map[string]string{"Local": "LocalShardCount", "Remote": "RemoteShardCount"}})
	// LCM field: common.LCM(Local, Remote) in the closure, on both sides
	if ncc := resolve(c, res, "O7.1", anchor{"proxy", "", "NewClusterConnection"}); ncc != nil {
		for _, l := range serverConfigLiterals(ncc) {
			call, ok := l.fields["lcmParameters"].(*ssa.Call)
			if !ok {
				continue
			}
			cl := closureStoredIn(ncc, call.Call.Value)
			if cl == nil {
				continue
			}
			okLCM := true
			n := 0
			for _, b := range cl.Blocks {
				for _, ins := range b.Instrs {
					ret, isR := ins.(*ssa.Return)
					if !isR {
						continue
					}
					if _, isConst := ret.Results[0].(*ssa.Const); isConst {
						// zero value: only when the mode is not LCM
						okMode := false
						for _, g := range flow.NormGuards(flow.Guards(b)) {
							if bo, isB := g.Cond.(*ssa.BinOp); isB {
								if s, isS := flow.ConstString(bo.Y); isS && s == lcmMode(c) && ((bo.Op == token.NEQ && g.Side) || (bo.Op == token.EQL && !g.Side)) {
									okMode = true
								}
							}
						}
						if !okMode {
							okLCM = false
						}
						continue
					}
					n++
					v := flow.StructValueField(ret.Results[0], "LCM", 0)
					lc, isC := v.(*ssa.Call)
					if !isC || !flow.IsCallTo(&lc.Call, modPath+"/common", "", "LCM") {
						okLCM = false
						continue
					}
					p0, _ := flow.FieldPath(lc.Call.Args[0])
					p1, _ := flow.FieldPath(lc.Call.Args[1])
					if !(strings.HasSuffix(p0, "LocalShardCount") && strings.HasSuffix(p1, "RemoteShardCount")) && !(strings.HasSuffix(p1, "LocalShardCount") && strings.HasSuffix(p0, "RemoteShardCount")) {
						okLCM = false
					}
				}
			}
			res.Check(okLCM && n == 2, "O7.1", "NewClusterConnection: "+l.facing+"-facing server: LCM = common.LCM(local count, remote count) in LCM mode, zero otherwise", instrPos(c.Prog, call), "ok", "the presented shard count is not the least common multiple of both configured counts")
		}
	}

	// ---- O7.2
	if f := resolve(c, res, "O7.2", anchor{"proxy", "*adminServiceProxyServer", "DescribeCluster"}); f != nil {
		var store *ssa.Store
		for _, b := range f.Blocks {
			for _, ins := range b.Instrs {
				if st, ok := ins.(*ssa.Store); ok {
					if fa, ok := st.Addr.(*ssa.FieldAddr); ok && flow.FieldName(fa.X.Type(), fa.Field) == "HistoryShardCount" {
						if p, ok := flow.FieldPath(st.Val); ok && strings.HasSuffix(p, ".lcmParameters.LCM") {
							store = st
						}
					}
				}
			}
		}
		if !res.Check(store != nil, "O7.2", "DescribeCluster: HistoryShardCount = lcmParameters.LCM", fnPos(c.Prog, f), "present", "the LCM is never reported as the shard count") {
			goto after72
		}
		{
			// guarded by mode == lcm
			okMode := false
			var modeIf *ssa.If
			for _, g := range flow.NormGuards(flow.Guards(store.Block())) {
				if bo, isB := g.Cond.(*ssa.BinOp); isB && bo.Op == token.EQL && g.Side {
					if s, isS := flow.ConstString(bo.Y); isS && s == lcmMode(c) {
						if p, okp := flow.FieldPath(flow.ResolveLoad(bo.X)); okp && strings.HasSuffix(p, ".shardCountConfig.Mode") {
							okMode = true
							modeIf = g.If
						}
					}
				}
			}
			res.Check(okMode, "O7.2", "DescribeCluster: the override is applied in LCM mode", instrPos(c.Prog, store), "case config.ShardCountLCM", "the LCM override is not tied to the LCM mode")
			// the stored-to response is the client's response
			respOK := false
			if fa, ok := store.Addr.(*ssa.FieldAddr); ok {
				if ex, ok := flow.ResolveLoad(fa.X).(*ssa.Extract); ok && ex.Index == 0 {
					if call, ok := ex.Tuple.(*ssa.Call); ok && call.Call.IsInvoke() && call.Call.Method.Name() == "DescribeCluster" {
						respOK = true
					}
				}
			}
			res.Check(respOK, "O7.2", "DescribeCluster: the overridden response is the one returned by the cluster", instrPos(c.Prog, store), "ok", "the override is applied to another value than the forwarded response")
			// every return: early (error / nil response / bypass) or dominated by the mode switch
			if modeIf != nil {
				for _, b := range f.Blocks {
					for _, ins := range b.Instrs {
						ret, ok := ins.(*ssa.Return)
						if !ok {
							continue
						}
						cs := blockClasses(b)
						early := false
						for _, k := range cs {
							if (k.kind == "errnil" && !k.truth) || (k.kind == "nilval" && k.truth) || (k.kind == "call" && strings.HasSuffix(k.arg, "IsRequestTranslationDisabled") && k.truth) {
								early = true
							}
						}
						// `err != nil || resp == nil` joins into one block: accept returns whose block is not
						// reachable from the mode switch and whose operands are the raw call results
						if !early && !modeIf.Block().Dominates(b) {
							r0 := flow.Ret(ret)[0]
							if ex, ok := r0.(*ssa.Extract); ok && ex.Index == 0 {
								if !flow.ReachBlock(modeIf.Block(), b, nil) {
									early = true
								}
							}
						}
						construct := fmt.Sprintf("DescribeCluster: return in block %d passes the mode switch or is an error/bypass return", b.Index)
						res.Check(early || modeIf.Block().Dominates(b), "O7.2", construct, instrPos(c.Prog, ret), "ok", "a response can be returned without the shard-count override although the mode is LCM and no bypass was requested")
					}
				}
				// from the LCM case no path to a return avoids the store
				lcmSucc := modeIf.Block().Succs[0]
				r := flow.FindPath(flow.Point{Block: lcmSucc}, flow.IsReturn, func(x ssa.Instruction) bool { return x == ssa.Instruction(store) }, nil)
				res.Check(!r.Found, "O7.2", "DescribeCluster: in LCM mode every return passes the override", instrPos(c.Prog, store), "ok", "a path through the LCM case returns without storing the LCM")
			}
		}
	}
after72:

	// ---- O7.3
	if f := resolve(c, res, "O7.3", anchor{"proxy", "", "handleStream"}); f != nil {
		checkLCMRemap(c, res, f)
	}

	// ---- O7.4
	if f := resolve(c, res, "O7.4", anchor{"proxy", "", "mapShardIDUnique"}); f != nil {
		var ms *ssa.Call
		for _, call := range flow.Calls(f) {
			if flow.IsCallTo(call.Common(), srvPath+"/common", "", "MapShardID") {
				ms, _ = call.(*ssa.Call)
			}
		}
		ok := ms != nil
		why := "servercommon.MapShardID is not used"
		if ok {
			for i := 0; i < 3; i++ {
				if ms.Call.Args[i] != ssa.Value(f.Params[i]) {
					ok, why = false, "arguments are not passed through in order"
				}
			}
			// every non-panic return is guarded by len(result) == 1 and returns result[0]
			for _, b := range f.Blocks {
				for _, ins := range b.Instrs {
					ret, isR := ins.(*ssa.Return)
					if !isR {
						continue
					}
					g1 := false
					for _, g := range flow.NormGuards(flow.Guards(b)) {
						if bo, isB := g.Cond.(*ssa.BinOp); isB {
							if n, isN := flow.ConstInt(bo.Y); isN && n == 1 && ((bo.Op == token.EQL && g.Side) || (bo.Op == token.NEQ && !g.Side)) {
								if lc, isC := bo.X.(*ssa.Call); isC {
									if bi, isB2 := lc.Call.Value.(*ssa.Builtin); isB2 && bi.Name() == "len" && lc.Call.Args[0] == ssa.Value(ms) {
										g1 = true
									}
								}
							}
						}
					}
					el0 := false
					if ld, isL := ret.Results[0].(*ssa.UnOp); isL {
						if ia, isIA := ld.X.(*ssa.IndexAddr); isIA && ia.X == ssa.Value(ms) {
							if n, isN := flow.ConstInt(ia.Index); isN && n == 0 {
								el0 = true
							}
						}
					}
					if !g1 || !el0 {
						ok, why = false, "a result is returned that is not the single element of MapShardID's answer"
					}
				}
			}
		}
		res.Check(ok, "O7.4", "mapShardIDUnique: single-valued or panic", fnPos(c.Prog, f), "len(ids) == 1 -> ids[0], else panic (captured by the stream handler)", why)
	}
	if f := resolve(c, res, "O7.4", anchor{"common", "", "LCM"}); f != nil {
		ok := false
		for _, b := range f.Blocks {
			for _, ins := range b.Instrs {
				if ret, isR := ins.(*ssa.Return); isR {
					if q, isQ := ret.Results[0].(*ssa.BinOp); isQ && q.Op == token.QUO {
						m, isM := q.X.(*ssa.BinOp)
						g, isG := q.Y.(*ssa.Call)
						if isM && isG && m.Op == token.MUL && flow.IsCallTo(&g.Call, modPath+"/common", "", "GCD") {
							ab := (m.X == ssa.Value(f.Params[0]) && m.Y == ssa.Value(f.Params[1])) || (m.X == ssa.Value(f.Params[1]) && m.Y == ssa.Value(f.Params[0]))
							gab := (g.Call.Args[0] == ssa.Value(f.Params[0]) && g.Call.Args[1] == ssa.Value(f.Params[1])) || (g.Call.Args[0] == ssa.Value(f.Params[1]) && g.Call.Args[1] == ssa.Value(f.Params[0]))
							if ab && gab {
								ok = true
							}
						}
					}
				}
			}
		}
		res.Check(ok, "O7.4", "common.LCM = a*b/GCD(a,b)", fnPos(c.Prog, f), "ok", "LCM is not computed as the product divided by the greatest common divisor")
	}
	if f := resolve(c, res, "O7.4", anchor{"common", "", "GCD"}); f != nil {
		// Euclid: a loop whose carried pair is (b, a % b), ending when b == 0, returning a
		ok := false
		for _, b := range f.Blocks {
			for _, ins := range b.Instrs {
				if bo, isB := ins.(*ssa.BinOp); isB && bo.Op == token.REM {
					// operands are the two loop phis
					_, p1 := bo.X.(*ssa.Phi)
					_, p2 := bo.Y.(*ssa.Phi)
					if p1 && p2 {
						ok = true
					}
				}
			}
		}
		res.Check(ok, "O7.4", "common.GCD is the Euclidean remainder loop", fnPos(c.Prog, f), "a, b = b, a % b", "GCD does not have the Euclidean shape")
	}

	res.Explanation = "SSA of proxy.NewClusterConnection (which direction flag each server's LCMParameters closure call gets, what that flag selects inside the closure, and which cluster the server's forwarding client was created for), of adminServiceProxyServer.DescribeCluster (the override store, its mode guard, and that every non-error/non-bypass return passes it), of handleStream's LCM case (origin of each of the four metadata values, argument order of mapShardIDUnique, dominance over the forwarder construction) and of mapShardIDUnique / common.LCM / common.GCD (shape). Decides the wiring and shape of the LCM presentation; the arithmetic properties of the mapping for all count pairs (uniqueness, range, hash consistency, int32 overflow of a*b) are values, not shapes, and are not decided."
	res.Assumptions = []string{"servercommon.MapShardID implements Temporal's shard mapping", "history metadata keys name client = initiator, server = serving side"}
	checkShardIDRejections(c, res, "O7.6")
	res.RuleDoc["O7.7"] = "no swallowed error in the files the mechanism lives in: no function returns a nil error on a path on which an error obtained from a call is known to be non-nil (io.EOF from a stream Recv, the normal end of a receive loop, is the one accepted idiom)"
	checkNoSwallowedErrors(c, res, "O7.7", []string{"proxy/admin_stream_transfer.go", "proxy/adminservice.go", "proxy/cluster_connection.go"})
	return res, nil
}

func checkLCMRemap(c *Ctx, res *report.Result, f *ssa.Function) {
	rule := "O7.3"
	calls := flow.FindCalls(f, func(cc *ssa.CallCommon) bool { return flow.IsCallTo(cc, proxyPkg, "", "mapShardIDUnique") })
	if len(calls) != 1 {
		res.Undec(rule, "handleStream: mapShardIDUnique call", fnPos(c.Prog, f), fmt.Sprintf("%d calls", len(calls)))
		return
	}
	mc := calls[0].(*ssa.Call)
	var ps [3]string
	for i := 0; i < 3; i++ {
		ps[i], _ = flow.FieldPath(mc.Call.Args[i])
	}
	res.Check(strings.HasSuffix(ps[0], "lcmParameters.LCM") && strings.HasSuffix(ps[1], "lcmParameters.TargetShardCount") && strings.HasSuffix(ps[2], "sourceClusterShardID.ShardID"), rule,
		"handleStream: mapShardIDUnique(LCM, TargetShardCount, incoming server shard id)", instrPos(c.Prog, mc), strings.Join(ps[:], ", "), "the shard mapping is called with ("+strings.Join(ps[:], ", ")+"): source/target counts or the shard id are in the wrong position")
	// guarded by mode == lcm
	okMode := false
	for _, g := range flow.NormGuards(flow.Guards(mc.Block())) {
		if bo, isB := g.Cond.(*ssa.BinOp); isB && bo.Op == token.EQL && g.Side {
			if s, isS := flow.ConstString(bo.Y); isS && s == lcmMode(c) {
				okMode = true
			}
		}
	}
	res.Check(okMode, rule, "handleStream: remap happens in the LCM case", instrPos(c.Prog, mc), "ok", "the remap is not tied to the LCM mode")
	// metadata Set calls
	keyConst := func(name string) string {
		v, _ := depConst(c, "proxy", srvPath+"/client/history", name)
		return v
	}
	want := map[string]string{
		keyConst("MetadataKeyClientClusterID"): "targetClusterShardID.ClusterID",
		keyConst("MetadataKeyClientShardID"):   "sourceClusterShardID.ShardID",
		keyConst("MetadataKeyServerClusterID"): "sourceClusterShardID.ClusterID",
		keyConst("MetadataKeyServerShardID"):   "mapShardIDUnique",
	}
	names := map[string]string{}
	for _, n := range []string{"MetadataKeyClientClusterID", "MetadataKeyClientShardID", "MetadataKeyServerClusterID", "MetadataKeyServerShardID"} {
		names[keyConst(n)] = n
	}
	fwd := flow.FindCalls(f, func(cc *ssa.CallCommon) bool { return flow.IsCallTo(cc, proxyPkg, "", "newStreamForwarder") })
	seen := map[string]bool{}
	for _, call := range flow.Calls(f) {
		cc := call.Common()
		cal := flow.StaticCallee(cc)
		if cal == nil || cal.Name() != "Set" || !flow.NamedIs(cal.Signature.Recv().Type(), "google.golang.org/grpc/metadata", "MD") {
			continue
		}
		key, _ := flow.ConstString(cc.Args[1])
		w, known := want[key]
		if !known || key == "" {
			continue
		}
		seen[key] = true
		// value: Itoa(int(X)) -> X
		origin := "?"
		for _, alt := range flow.SliceSeqs(cc.Args[2]) {
			if len(alt.Elems) == 1 {
				if it, ok := alt.Elems[0].(*ssa.Call); ok && flow.IsCallTo(&it.Call, "strconv", "", "Itoa") {
					v := it.Call.Args[0]
					if cv, ok := v.(*ssa.Convert); ok {
						v = cv.X
					}
					origin = traceShardValue(v, 0)
				}
			}
		}
		construct := "handleStream: " + names[key] + " is set from " + w
		res.Check(strings.HasSuffix(origin, w), rule, construct, instrPos(c.Prog, call), origin, "metadata "+names[key]+" is set from "+origin+": the forwarded stream would name the wrong cluster/shard")
		// on the metadata that the forwarder receives, before it is built
		okMD := cc.Args[0] == ssa.Value(f.Params[1])
		okBefore := len(fwd) == 1 && reaches(call, fwd[0])
		res.Check(okMD && okBefore, rule, "handleStream: "+names[key]+" is written to the forwarded metadata before the forwarder is built", instrPos(c.Prog, call), "ok", "the key is set on other metadata, or after the forwarder was created")
	}
	// on every path: in LCM mode no way from entry to the forwarder avoids any of the four rewrites
	// (a "fast path" that leaves the case early forwards the initiator's real shard id instead of s)
	if len(fwd) == 1 {
		notLCM := func(a, b *ssa.BasicBlock) bool {
			iff := lastIfOf(a)
			if iff == nil || len(a.Succs) != 2 {
				return false
			}
			bo, isB := iff.Cond.(*ssa.BinOp)
			if !isB || bo.Op != token.EQL {
				return false
			}
			if sv, isS := flow.ConstString(bo.Y); isS && sv == lcmMode(c) {
				return b == a.Succs[1]
			}
			return false
		}
		for _, call := range flow.Calls(f) {
			cc := call.Common()
			cal := flow.StaticCallee(cc)
			if cal == nil || cal.Name() != "Set" || !flow.NamedIs(cal.Signature.Recv().Type(), "google.golang.org/grpc/metadata", "MD") {
				continue
			}
			key, _ := flow.ConstString(cc.Args[1])
			if _, known := want[key]; !known || key == "" {
				continue
			}
			r := flow.FindPath(flow.Point{Block: f.Blocks[0]}, func(x ssa.Instruction) bool { return x == ssa.Instruction(fwd[0]) }, func(x ssa.Instruction) bool { return x == ssa.Instruction(call) }, func(a, b *ssa.BasicBlock) bool { return !notLCM(a, b) })
			res.Check(!r.Found, rule, "handleStream: "+names[key]+" is rewritten on every LCM-mode path to the forwarder", instrPos(c.Prog, call), "no LCM-mode path skips it", "in LCM mode the forwarder can be built without this rewrite (path "+flow.BlockPath(r.Via)+"): the stream is then forwarded with the initiator's real shard id / the LCM shard id unmapped")
		}
	}
	for k, n := range names {
		if k != "" && !seen[k] {
			res.Viol(rule, "handleStream: "+n+" is set from "+want[k], fnPos(c.Prog, f), "the LCM case does not set this metadata key: the local cluster would see the proxy's fake shard id")
		}
	}
}

// traceShardValue follows an int32 value back to a parameter field or a call.
func traceShardValue(v ssa.Value, depth int) string {
	if depth > 6 {
		return "?"
	}
	switch x := v.(type) {
	case *ssa.Call:
		if cal := flow.StaticCallee(&x.Call); cal != nil {
			return cal.Name()
		}
	case *ssa.UnOp:
		if x.Op == token.MUL {
			if fa, ok := x.X.(*ssa.FieldAddr); ok {
				field := flow.FieldName(fa.X.Type(), fa.Field)
				if al, ok := fa.X.(*ssa.Alloc); ok {
					// a parameter spilled to a cell?
					if p, ok := flow.FieldPath(x); ok && !strings.HasPrefix(p, "local(") {
						return p
					}
					if o := flow.StructFieldOrigin(al, field, 0); o != nil {
						return traceShardValue(o, depth+1)
					}
				}
				if p, ok := flow.FieldPath(x); ok {
					return p
				}
			}
		}
	case *ssa.Convert:
		return traceShardValue(x.X, depth+1)
	}
	if p, ok := flow.FieldPath(v); ok {
		return p
	}
	return "?"
}

// lcmMode is the current value of config.ShardCountLCM.
func lcmMode(c *Ctx) string {
	if v, ok := pkgConstString(c, "config", "ShardCountLCM"); ok {
		return v
	}
	return "lcm"
}

// checkShardIDRejections: see O7.6.
func checkShardIDRejections(c *Ctx, res *report.Result, rule string) {
	n := 0
	for _, a := range []anchor{{"proxy", "*adminServiceProxyServer", "StreamWorkflowReplicationMessages"}, {"proxy", "*StreamForwarder", "Run"}} {
		if f := resolve(c, res, rule, a); f != nil {
			n += checkShardIDRejectionsIn(c, res, rule, f, n)
		}
	}
	res.Analysed["shard_id_rejections"] = n
}

func checkShardIDRejectionsIn(c *Ctx, res *report.Result, rule string, f *ssa.Function, n0 int) int {
	n := n0
	for _, b := range f.Blocks {
		for _, ins := range b.Instrs {
			iff, ok := ins.(*ssa.If)
			if !ok {
				continue
			}
			// a module helper that judges the shard id (isValidShardID(x.ShardID)): it may compare the id with 0 / 1
			// only - any larger constant is an upper bound that some LCM exceeds
			cv := iff.Cond
			if un, isUn := cv.(*ssa.UnOp); isUn && un.Op == token.NOT {
				cv = un.X
			}
			if hc, isCall := cv.(*ssa.Call); isCall {
				h := flow.StaticCallee(&hc.Call)
				if h != nil && h.Pkg != nil && strings.HasPrefix(h.Pkg.Pkg.Path(), modPath) && len(h.Blocks) > 0 {
					for ai, a := range hc.Call.Args {
						if pa, _ := flow.FieldPath(a); !strings.HasSuffix(pa, ".ShardID") || ai >= len(h.Params) {
							continue
						}
						n++
						bad := ""
						for _, hb := range h.Blocks {
							for _, hi := range hb.Instrs {
								hbo, isB := hi.(*ssa.BinOp)
								if !isB {
									continue
								}
								var k int64
								var isK bool
								if flow.Strip(hbo.X) == ssa.Value(h.Params[ai]) {
									k, isK = flow.ConstInt(hbo.Y)
								} else if flow.Strip(hbo.Y) == ssa.Value(h.Params[ai]) {
									k, isK = flow.ConstInt(hbo.X)
								}
								if isK && k > 1 {
									bad = fmt.Sprintf("%s compares the shard id with the constant %d", shortFn(h), k)
								}
							}
						}
						res.Check(bad == "", rule, fmt.Sprintf("%s: shard-id rejection #%d refuses only ids outside 1..count", f.Name(), n), instrPos(c.Prog, iff), "the helper tests the id against 0 / 1 only",
							"the stream is refused by a helper that bounds the shard id from above by a constant ("+bad+"): in LCM mode the server shard id in the metadata runs up to the least common multiple of the two counts, which exceeds any single cluster's maximum - every stream for a shard above the constant is refused on both servers and never replicates")
					}
				}
				continue
			}
			bo, ok := iff.Cond.(*ssa.BinOp)
			if !ok {
				continue
			}
			px, _ := flow.FieldPath(bo.X)
			py, _ := flow.FieldPath(bo.Y)
			var op token.Token
			var other ssa.Value
			switch {
			case strings.HasSuffix(px, ".ShardID"):
				op, other = bo.Op, bo.Y
			case strings.HasSuffix(py, ".ShardID"):
				// normalise to ShardID on the left
				other = bo.X
				switch bo.Op {
				case token.LSS:
					op = token.GTR
				case token.LEQ:
					op = token.GEQ
				case token.GTR:
					op = token.LSS
				case token.GEQ:
					op = token.LEQ
				default:
					op = bo.Op
				}
			default:
				continue
			}
			if op != token.LSS && op != token.LEQ && op != token.GTR && op != token.GEQ {
				continue
			}
			// does the true side lead to an error return before anything is forwarded?
			rejects := false
			for _, bb := range f.Blocks {
				if bb != b.Succs[0] && !(b.Succs[0].Dominates(bb)) {
					continue
				}
				if len(bb.Instrs) == 0 {
					continue
				}
				if ret, isR := bb.Instrs[len(bb.Instrs)-1].(*ssa.Return); isR && len(ret.Results) == 1 && !flow.IsNilConst(flow.Ret(ret)[0]) {
					rejects = true
				}
			}
			if !rejects {
				continue
			}
			n++
			okBound := false
			desc := flow.Describe(iff.Cond)
			if k, isK := flow.ConstInt(other); isK {
				okBound = (op == token.LSS && k <= 1) || (op == token.LEQ && k <= 0)
			} else if p, _ := flow.FieldPath(other); strings.HasSuffix(p, ".LCM") || strings.HasSuffix(p, "ShardCount") {
				okBound = op == token.GTR
			}
			res.Check(okBound, rule, fmt.Sprintf("%s: shard-id rejection #%d refuses only ids outside 1..count", f.Name(), n), instrPos(c.Prog, iff), desc, "the stream is refused under "+desc+": with 1-based shard ids this refuses a valid shard of the presented space (e.g. s == LCM), whose stream is then never forwarded")
		}
	}
	return n - n0
}
