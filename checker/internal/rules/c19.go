package rules

import (
	"fmt"
	"go/token"
	"go/types"
	"strings"

	"golang.org/x/tools/go/ssa"

	"s2scheck/internal/flow"
	"s2scheck/internal/report"
)

func init() { Registry["C19"] = c19 }

const encPkg = modPath + "/encryption"

// tlsFieldStore is a store into a field of a *tls.Config.
type tlsFieldStore struct {
	st    *ssa.Store
	field string
	fn    *ssa.Function
}

func isTLSConfigPtr(t types.Type) bool { return flow.NamedIs(t, "crypto/tls", "Config") }

func tlsConfigStores(fns []*ssa.Function) []tlsFieldStore {
	var out []tlsFieldStore
	for _, f := range fns {
		for _, b := range f.Blocks {
			for _, ins := range b.Instrs {
				st, ok := ins.(*ssa.Store)
				if !ok {
					continue
				}
				fa, ok := st.Addr.(*ssa.FieldAddr)
				if !ok || !isTLSConfigPtr(fa.X.Type()) {
					continue
				}
				out = append(out, tlsFieldStore{st, flow.FieldName(fa.X.Type(), fa.Field), f})
			}
		}
	}
	return out
}

// skipGuard: is the block guarded by <param>.SkipCAVerification with the given truth?
func skipGuard(b *ssa.BasicBlock) (known bool, skip bool) {
	for _, g := range flow.NormGuards(flow.Guards(b)) {
		if p, ok := flow.FieldPath(flow.ResolveLoad(g.Cond)); ok && strings.HasSuffix(p, ".SkipCAVerification") {
			return true, g.Side
		}
	}
	return false, false
}

var clientAuthNames = map[int64]string{0: "NoClientCert", 1: "RequestClientCert", 2: "RequireAnyClientCert", 3: "VerifyClientCertIfGiven", 4: "RequireAndVerifyClientCert"}

func c19(c *Ctx) (*report.Result, error) {
	res := newResult("C19")
	res.RuleDoc["O19.12"] = "expired certificates are refused: no tls.Config of the module gets its own clock (no store into its Time field) - crypto/tls judges NotBefore / NotAfter against that hook, so a leeway there admits peers whose certificate has expired"
	checkNoTLSClockOverride(c, res, "O19.12")
	res.RuleDoc["O19.11"] = "a connection handed out by a mux connection provider went through the TLS wrapper: in both NewConnection implementations (closures included) no return that can report success is reachable from a dial / accept without the call of the provider's tlsWrapper - a retry path that returns the raw TCP connection runs yamux in plaintext with a peer that showed no certificate"
	checkConnWrappedOnEveryPath(c, res, "O19.11")
	res.RuleDoc["O19.1"] = "server config: unless SkipCAVerification is set, the returned tls.Config has ClientAuth = RequireAndVerifyClientCert and ClientCAs = the pool of fetchCACert (its error is returned); nothing weakens it afterwards; GetConfigForClient never substitutes another config"
	res.RuleDoc["O19.2"] = "client config: InsecureSkipVerify is only ever set from SkipCAVerification; on the verifying path ServerName = CAServerName and an empty name is an error; RootCAs is the pool of fetchCACert whenever RemoteCAPath is set (its error is returned)"
	res.RuleDoc["O19.3"] = "CA bundle: fetchCACert returns a pool only after validateHasCA succeeded; plain http:// is refused"
	res.RuleDoc["O19.5"] = "which settings feed which role: the encryption.TLSConfig passed to GetServerTLSConfig originates (through parameters, getters and struct fields, all call sites) only from ClusterDefinition.TcpServer / .MuxAddressInfo or the zero value, the one passed to GetClientTLSConfig only from .TcpClient / .MuxAddressInfo or zero; the IsEnabled() gate reads the same settings"
	res.RuleDoc["O19.6"] = "the on/off switch: TLSConfig.IsEnabled() is true whenever a certificate/key pair or a CA server name is configured (decided exhaustively over the emptiness of the fields it tests)"
	res.RuleDoc["O19.4"] = "who constructs: every tls.Server / tls.Client / tls.Listen / tls.Dial / credentials.NewTLS of the module receives a config returned by GetServerTLSConfig / GetClientTLSConfig for the matching role; no other tls.Config literal or write to its security fields exists in the module; when TLS is enabled the mux providers wrap their connections"

	srv := resolve(c, res, "O19.1", anchor{"encryption", "", "GetServerTLSConfig"})
	if srv != nil {
		fns := append([]*ssa.Function{srv}, flow.AnonFuncsDeep(srv)...)
		stores := tlsConfigStores(fns)
		sawVerify := false
		for _, s := range stores {
			pos := instrPos(c.Prog, s.st)
			switch s.field {
			case "ClientAuth":
				v, isConst := flow.ConstInt(s.st.Val)
				known, skip := skipGuard(s.st.Block())
				construct := fmt.Sprintf("GetServerTLSConfig: ClientAuth = %s", clientAuthNames[v])
				switch {
				case !isConst:
					res.Undec("O19.1", "GetServerTLSConfig: ClientAuth store", pos, "non-constant client-auth mode")
				case known && skip:
					res.Hold("O19.1", construct+" (verification explicitly disabled)", pos, "the only relaxation the property allows")
				case known && !skip:
					sawVerify = true
					res.Check(v == 4, "O19.1", "GetServerTLSConfig: client-auth mode on the verifying path", pos, "RequireAndVerifyClientCert",
						"with CA verification configured the listener uses "+clientAuthNames[v]+": crypto/tls then does not verify the client certificate against ClientCAs (only RequireAndVerifyClientCert does), so a self-signed or foreign-CA certificate completes the handshake")
				default:
					res.Check(v == 4, "O19.1", construct+" (unconditional)", pos, "strict", "client-auth mode "+clientAuthNames[v]+" is set outside the SkipCAVerification branch")
				}
			case "ClientCAs":
				ok := false
				var call *ssa.Call
				if ex, isEx := s.st.Val.(*ssa.Extract); isEx && ex.Index == 0 {
					if cv, isC := ex.Tuple.(*ssa.Call); isC && flow.IsCallTo(&cv.Call, encPkg, "", "fetchCACert") {
						ok = true
						call = cv
					}
				}
				res.Check(ok, "O19.1", "GetServerTLSConfig: ClientCAs is fetchCACert's pool", pos, "fetchCACert(serverConfig.RemoteCAPath)", "ClientCAs is not the pool loaded from the configured CA")
				if call != nil {
					p, _ := flow.FieldPath(call.Call.Args[0])
					res.Check(strings.HasSuffix(p, ".RemoteCAPath"), "O19.1", "GetServerTLSConfig: CA pool loaded from RemoteCAPath", pos, p, "the CA pool is loaded from "+p)
					good, why := errorReturned(srv, call)
					res.Check(good, "O19.1", "GetServerTLSConfig: CA load error is returned", instrPos(c.Prog, call), "ok", "a listener could start with an empty/absent client CA pool: "+why)
				}
			case "InsecureSkipVerify":
				res.Viol("O19.1", "GetServerTLSConfig: InsecureSkipVerify store", pos, "the server config must not carry InsecureSkipVerify")
			case "GetConfigForClient":
				cl, _ := closureFn(s.st.Val)
				ok := cl != nil
				if ok {
					for _, b := range cl.Blocks {
						for _, ins := range b.Instrs {
							if ret, isR := ins.(*ssa.Return); isR && !flow.IsNilConst(flow.Ret(ret)[0]) {
								ok = false
							}
						}
					}
				}
				res.Check(ok, "O19.1", "GetServerTLSConfig: GetConfigForClient never substitutes a config", pos, "returns (nil, nil) on every path", "GetConfigForClient can return a replacement config that bypasses ClientAuth/ClientCAs")
			case "VerifyPeerCertificate", "VerifyConnection":
				res.Notes = append(res.Notes, "GetServerTLSConfig installs "+s.field+" ("+pos+"): it can only add checks to what ClientAuth enforces; today it only logs")
			case "Certificates", "GetClientCertificate", "GetCertificate", "MinVersion", "NextProtos":
				// not part of peer authentication
			default:
				res.Undec("O19.1", "GetServerTLSConfig: store to tls.Config."+s.field, pos, "unreviewed tls.Config field written by the server config builder")
			}
		}
		if !sawVerify {
			res.Viol("O19.1", "GetServerTLSConfig: client-auth mode on the verifying path", fnPos(c.Prog, srv), "ClientAuth is never set on the SkipCAVerification == false path: the zero value NoClientCert admits any peer")
		}
	}

	cli := resolve(c, res, "O19.2", anchor{"encryption", "", "GetClientTLSConfig"})
	if cli != nil {
		fns := append([]*ssa.Function{cli}, flow.AnonFuncsDeep(cli)...)
		var sawISV, sawName bool
		for _, s := range tlsConfigStores(fns) {
			pos := instrPos(c.Prog, s.st)
			switch s.field {
			case "InsecureSkipVerify":
				sawISV = true
				p, _ := flow.FieldPath(flow.ResolveLoad(s.st.Val))
				res.Check(strings.HasSuffix(p, ".SkipCAVerification"), "O19.2", "GetClientTLSConfig: InsecureSkipVerify = SkipCAVerification", pos, p, "InsecureSkipVerify is set from something other than the explicit SkipCAVerification option")
			case "ServerName":
				sawName = true
				p, _ := flow.FieldPath(flow.ResolveLoad(s.st.Val))
				known, skip := skipGuard(s.st.Block())
				res.Check(strings.HasSuffix(p, ".CAServerName") && known && !skip, "O19.2", "GetClientTLSConfig: ServerName = CAServerName on the verifying path", pos, p, "the expected server name is not the configured CAServerName")
			case "RootCAs":
				ok := false
				var call *ssa.Call
				v := flow.ResolveLoad(s.st.Val)
				if ex, isEx := v.(*ssa.Extract); isEx && ex.Index == 0 {
					if cv, isC := ex.Tuple.(*ssa.Call); isC && flow.IsCallTo(&cv.Call, encPkg, "", "fetchCACert") {
						ok, call = true, cv
					}
				}
				res.Check(ok, "O19.2", "GetClientTLSConfig: RootCAs is fetchCACert's pool", pos, "ok", "RootCAs is not the pool loaded from the configured CA")
				if call != nil {
					p, _ := flow.FieldPath(call.Call.Args[0])
					res.Check(strings.HasSuffix(p, ".RemoteCAPath"), "O19.2", "GetClientTLSConfig: CA pool loaded from RemoteCAPath", pos, p, "loaded from "+p)
					good, why := errorReturned(cli, call)
					res.Check(good, "O19.2", "GetClientTLSConfig: CA load error is returned", instrPos(c.Prog, call), "ok", why)
					// guarded by RemoteCAPath != ""
					okG := false
					for _, g := range flow.NormGuards(flow.Guards(call.Block())) {
						if bo, isB := g.Cond.(*ssa.BinOp); isB && bo.Op == token.NEQ && g.Side {
							if pp, okp := flow.FieldPath(flow.ResolveLoad(bo.X)); okp && strings.HasSuffix(pp, ".RemoteCAPath") {
								okG = true
							}
						}
					}
					// and not under any other condition
					res.Check(okG && len(flow.Guards(call.Block())) <= 2, "O19.2", "GetClientTLSConfig: RootCAs set whenever RemoteCAPath is set", instrPos(c.Prog, call), "if RemoteCAPath != \"\"", "the CA pool is installed under further conditions")
				}
			case "ClientAuth", "ClientCAs":
				res.Undec("O19.2", "GetClientTLSConfig: store to "+s.field, pos, "server-side field written by the client config builder")
			case "VerifyPeerCertificate", "VerifyConnection":
				res.Viol("O19.2", "GetClientTLSConfig: "+s.field, pos, "a custom verification callback on the client config can override chain/name verification")
			case "Certificates", "GetClientCertificate", "MinVersion", "NextProtos":
			default:
				res.Undec("O19.2", "GetClientTLSConfig: store to tls.Config."+s.field, pos, "unreviewed tls.Config field written by the client config builder")
			}
		}
		res.Check(sawISV, "O19.2", "GetClientTLSConfig: InsecureSkipVerify is set explicitly", fnPos(c.Prog, cli), "ok", "InsecureSkipVerify is never assigned")
		res.Check(sawName, "O19.2", "GetClientTLSConfig: ServerName is set", fnPos(c.Prog, cli), "ok", "ServerName is never assigned: the server certificate's name would be checked against the dial address only")
		// empty CAServerName on the verifying path -> error
		okEmpty := false
		for _, b := range cli.Blocks {
			for _, ins := range b.Instrs {
				ret, isR := ins.(*ssa.Return)
				if !isR || flow.IsNilConst(flow.Ret(ret)[1]) {
					continue
				}
				known, skip := skipGuard(b)
				if !known || skip {
					continue
				}
				for _, g := range flow.NormGuards(flow.Guards(b)) {
					if bo, isB := g.Cond.(*ssa.BinOp); isB && bo.Op == token.EQL && g.Side {
						if p, okp := flow.FieldPath(flow.ResolveLoad(bo.X)); okp && strings.HasSuffix(p, ".CAServerName") {
							if s, isS := flow.ConstString(bo.Y); isS && s == "" {
								okEmpty = true
							}
						}
					}
				}
			}
		}
		res.Check(okEmpty, "O19.2", "GetClientTLSConfig: empty CAServerName is rejected when verifying", fnPos(c.Prog, cli), "error return", "an empty CAServerName is accepted on the verifying path")
	}

	if f := resolve(c, res, "O19.3", anchor{"encryption", "", "fetchCACert"}); f != nil {
		vals := flow.FindCalls(f, func(cc *ssa.CallCommon) bool { return flow.IsCallTo(cc, encPkg, "", "validateHasCA") })
		var vErr ssa.Value
		if len(vals) == 1 {
			vErr = errResultOf(vals[0].(*ssa.Call))
		}
		okAll := vErr != nil
		n := 0
		for _, b := range f.Blocks {
			if b == f.Recover {
				continue // reached only after a recovered panic; results are whatever was last spilled
			}
			for _, ins := range b.Instrs {
				ret, isR := ins.(*ssa.Return)
				if !isR || flow.IsNilConst(flow.Ret(ret)[0]) {
					continue
				}
				n++
				if vErr == nil || !guardedErrNil(b, vErr) {
					okAll = false
				}
			}
		}
		res.Check(okAll && n > 0, "O19.3", "fetchCACert: a pool is returned only after validateHasCA succeeded", fnPos(c.Prog, f), "ok", "a certificate pool can be returned for a bundle that contains no CA certificate")
		// http:// refused
		okHTTP := false
		for _, b := range f.Blocks {
			for _, g := range flow.NormGuards(flow.Guards(b)) {
				if gc, isC := g.Cond.(*ssa.Call); isC && g.Side && flow.IsCallTo(&gc.Call, "strings", "", "HasPrefix") {
					if s, isS := flow.ConstString(gc.Call.Args[1]); isS && s == "http://" {
						for _, ins := range b.Instrs {
							if ret, isR := ins.(*ssa.Return); isR && flow.IsNilConst(flow.Ret(ret)[0]) && !flow.IsNilConst(flow.Ret(ret)[1]) {
								okHTTP = true
							}
						}
					}
				}
			}
		}
		res.Check(okHTTP, "O19.3", "fetchCACert: plain http:// is refused", fnPos(c.Prog, f), "ok", "a CA bundle may be fetched over unauthenticated http")
		// O19.10: no pool, no success
		res.RuleDoc["O19.10"] = "no CA bundle is never a success: fetchCACert returns a nil pool only together with an error (a fresh one, or one tested non-nil) - crypto/tls reads a nil ClientCAs / RootCAs as 'the host's root store', so a nil pool with a nil error turns 'only the configured CA' into 'any CA this machine trusts' for every caller that installs the result, the server among them"
		nNil := 0
		for _, b := range f.Blocks {
			if b == f.Recover {
				continue
			}
			ret, isR := b.Instrs[len(b.Instrs)-1].(*ssa.Return)
			if !isR || !flow.IsNilConst(flow.Ret(ret)[0]) {
				continue
			}
			nNil++
			ev := flow.Ret(ret)[1]
			okErr := false
			if call, isC := ev.(*ssa.Call); isC {
				if sc := flow.StaticCallee(&call.Call); sc != nil && sc.Pkg != nil && (sc.Pkg.Pkg.Path() == "errors" && sc.Name() == "New" || sc.Pkg.Pkg.Path() == "fmt" && sc.Name() == "Errorf") {
					okErr = true
				}
			}
			if !okErr && !flow.IsNilConst(ev) {
				for _, g := range flow.NormGuards(flow.Guards(b)) {
					if bo, isB := g.Cond.(*ssa.BinOp); isB {
						x, y := flow.ResolveLoad(bo.X), flow.ResolveLoad(bo.Y)
						if (x == ev && flow.IsNilConst(y) || y == ev && flow.IsNilConst(x)) && (bo.Op == token.NEQ && g.Side || bo.Op == token.EQL && !g.Side) {
							okErr = true
						}
					}
				}
			}
			res.Check(okErr, "O19.10", fmt.Sprintf("fetchCACert: the nil pool returned in block %d comes with an error", b.Index), instrPos(c.Prog, ret), "error freshly made or tested non-nil", "fetchCACert can return (nil, nil): GetServerTLSConfig installs the result as ClientCAs next to RequireAndVerifyClientCert, and crypto/tls verifies client certificates against the host's root store when ClientCAs is nil - a peer with a certificate from any publicly trusted CA is admitted")
		}
		if nNil < 3 {
			res.Undec("O19.10", "fetchCACert: failure returns", fnPos(c.Prog, f), fmt.Sprintf("%d returns with a nil pool, at least 3 confirmed by hand", nNil))
		}
	}
	if f := resolve(c, res, "O19.3", anchor{"encryption", "", "validateHasCA"}); f != nil {
		ok := false
		for _, call := range flow.Calls(f) {
			if cal := flow.StaticCallee(call.Common()); cal != nil && strings.HasPrefix(flow.FuncName(cal), "slices.ContainsFunc") {
				if fn, isF := flow.Strip(call.Common().Args[1]).(*ssa.Function); isF && fn.Name() == "isCACert" {
					ok = true
				}
			}
		}
		res.Check(ok, "O19.3", "validateHasCA requires a certificate with IsCA", fnPos(c.Prog, f), "slices.ContainsFunc(certs, isCACert)", "the bundle is not required to contain a CA certificate")
	}
	if f := resolve(c, res, "O19.3", anchor{"encryption", "", "isCACert"}); f != nil {
		ok := false
		for _, b := range f.Blocks {
			for _, ins := range b.Instrs {
				if ret, isR := ins.(*ssa.Return); isR {
					if _, fld, isF := flow.FieldLoadOf(flow.Ret(ret)[0]); isF && fld == "IsCA" {
						ok = true
					}
				}
			}
		}
		res.Check(ok, "O19.3", "isCACert = cert.IsCA", fnPos(c.Prog, f), "ok", "isCACert does not test the certificate's CA flag")
	}

	checkTLSConstructors(c, res)
	checkTLSSettingsRole(c, res)
	checkIsEnabledTruthTable(c, res)
	res.RuleDoc["O19.7"] = "every endpoint is built from the CA material as it is when the endpoint is built: package encryption keeps no state between calls (no package-level or receiver state written after init) - a cached pool keeps trusting a CA that has been replaced"
	checkStateless(c, res, "O19.7", []string{"encryption"}, map[string]string{})

	res.Explanation = "SSA of encryption.GetServerTLSConfig / GetClientTLSConfig / fetchCACert (every store into a *tls.Config field, its constant or origin, and the SkipCAVerification side it lies on; propagation of CA-load errors), and a who-constructs scan over all non-test functions of the module for tls.Server/Client/Listen/Dial/NewListener, credentials.NewTLS, tls.Config literals and stores to security-relevant tls.Config fields. What a tls.Config enforces is fixed by these fields; the handshake itself (crypto/tls) is trusted. Does not decide certificate validity periods or behaviour of crypto/tls."
	res.Assumptions = []string{"crypto/tls verifies the client chain against ClientCAs only for VerifyClientCertIfGiven / RequireAndVerifyClientCert, and requires a certificate only for RequireAnyClientCert / RequireAndVerifyClientCert", "auth.NewEmptyTLSConfig returns a config without relaxations"}
	res.RuleDoc["O19.9"] = "polarity of the on/off switch: GetServerTLSConfig and GetClientTLSConfig return a nil config with a nil error (taken by every caller as 'plaintext') only on the side on which IsEnabled() is false"
	checkTLSGatePolarity(c, res, "O19.9")
	res.RuleDoc["O19.8"] = "no swallowed error in the files the mechanism lives in: no function returns a nil error on a path on which an error obtained from a call is known to be non-nil (io.EOF from a stream Recv, the normal end of a receive loop, is the one accepted idiom)"
	checkNoSwallowedErrors(c, res, "O19.8", []string{"encryption/tls.go", "transport/mux/receiver.go", "transport/mux/establisher.go", "proxy/cluster_connection.go"})
	return res, nil
}

func closureFn(v ssa.Value) (*ssa.Function, *ssa.MakeClosure) {
	switch x := flow.Strip(v).(type) {
	case *ssa.MakeClosure:
		f, _ := x.Fn.(*ssa.Function)
		return f, x
	case *ssa.Function:
		return x, nil
	}
	return nil, nil
}

func isShippedFunc(f *ssa.Function) bool {
	p := f.Package()
	if p == nil {
		return false
	}
	path := p.Pkg.Path()
	for _, skip := range []string{"/endtoendtest", "/proxy/test", "/cmd/tools", "/develop", "/mocks", "/proto/1_22"} {
		if strings.Contains(path, skip) {
			return false
		}
	}
	if f.Pos().IsValid() {
		if strings.HasSuffix(f.Prog.Fset.Position(f.Pos()).Filename, "testutil.go") {
			return false
		}
	}
	return true
}

// tlsConfigOrigin classifies where a *tls.Config value comes from.
func tlsConfigOrigin(v ssa.Value, depth int) string {
	if depth > 5 {
		return "?"
	}
	v = flow.Strip(flow.ResolveLoad(v))
	switch x := v.(type) {
	case *ssa.Extract:
		if call, ok := x.Tuple.(*ssa.Call); ok && x.Index == 0 {
			if flow.IsCallTo(&call.Call, encPkg, "", "GetServerTLSConfig") {
				return "server"
			}
			if flow.IsCallTo(&call.Call, encPkg, "", "GetClientTLSConfig") {
				return "client"
			}
		}
	case *ssa.FreeVar:
		// bound by the enclosing function's MakeClosure
		fn := x.Parent()
		idx := -1
		for i, fv := range fn.FreeVars {
			if fv == x {
				idx = i
			}
		}
		if par := fn.Parent(); par != nil && idx >= 0 {
			for _, b := range par.Blocks {
				for _, ins := range b.Instrs {
					if mc, ok := ins.(*ssa.MakeClosure); ok && mc.Fn == ssa.Value(fn) && idx < len(mc.Bindings) {
						return tlsConfigOrigin(mc.Bindings[idx], depth+1)
					}
				}
			}
		}
	case *ssa.UnOp:
		if x.Op == token.MUL {
			return tlsConfigOrigin(x.X, depth+1)
		}
	case *ssa.Alloc:
		// a cell: single store
		var src ssa.Value
		n := 0
		for _, r := range *x.Referrers() {
			if st, ok := r.(*ssa.Store); ok && st.Addr == ssa.Value(x) {
				n++
				src = st.Val
			}
		}
		if n == 1 {
			return tlsConfigOrigin(src, depth+1)
		}
		if n == 0 {
			return "nil"
		}
	case *ssa.Phi:
		out := ""
		for _, e := range x.Edges {
			o := tlsConfigOrigin(e, depth+1)
			if o == "nil" {
				continue
			}
			if out == "" {
				out = o
			} else if out != o {
				return "?"
			}
		}
		if out == "" {
			return "nil"
		}
		return out
	case *ssa.Const:
		if x.Value == nil {
			return "nil"
		}
	case *ssa.Parameter:
		return "param:" + x.Name()
	}
	return "?"
}

func checkTLSConstructors(c *Ctx, res *report.Result) {
	rule := "O19.4"
	type site struct {
		pkg, name string
		arg       int
		role      string
	}
	sites := []site{
		{"crypto/tls", "Server", 1, "server"}, {"crypto/tls", "Client", 1, "client"},
		{"crypto/tls", "NewListener", 1, "server"}, {"crypto/tls", "Listen", 2, "server"},
		{"crypto/tls", "Dial", 2, "client"}, {"crypto/tls", "DialWithDialer", 3, "client"},
		{"google.golang.org/grpc/credentials", "NewTLS", 0, "either"},
	}
	n := 0
	funcs := 0
	for _, f := range c.Prog.RepoFuncs() {
		if !isShippedFunc(f) {
			continue
		}
		funcs++
		for _, call := range flow.Calls(f) {
			cc := call.Common()
			for _, s := range sites {
				if !flow.IsCallTo(cc, s.pkg, "", s.name) {
					continue
				}
				n++
				origin := tlsConfigOrigin(cc.Args[s.arg], 0)
				construct := fmt.Sprintf("%s: %s.%s", shortFn(f), s.pkg[strings.LastIndex(s.pkg, "/")+1:], s.name)
				want := s.role
				if want == "either" {
					// credentials.NewTLS: server creds in makeServerOptions, client creds in MakeDialOptions
					if strings.HasPrefix(origin, "param:") {
						origin = paramOrigin(c, f, cc.Args[s.arg])
					}
					ok := origin == "server" || origin == "client"
					// role must match the consumer: grpc.Creds(...) -> server, WithTransportCredentials -> client
					consumer := credsConsumer(call)
					if consumer != "" && origin != consumer {
						ok = false
					}
					res.Check(ok, rule, construct, instrPos(c.Prog, call), "config from Get"+strings.Title(origin)+"TLSConfig used as "+consumer+" credentials", "credentials built from a tls.Config of origin '"+origin+"' used as "+consumer+" credentials")
					continue
				}
				res.Check(origin == want, rule, construct, instrPos(c.Prog, call), "config from Get"+strings.Title(want)+"TLSConfig", "the "+want+"-side TLS endpoint is built from a tls.Config of origin '"+origin+"' instead of the reviewed constructor")
			}
		}
		// literals and stray field writes
		for _, b := range f.Blocks {
			for _, ins := range b.Instrs {
				if al, ok := ins.(*ssa.Alloc); ok {
					if p, okp := al.Type().Underlying().(*types.Pointer); okp && flow.NamedIs(p.Elem(), "crypto/tls", "Config") {
						if _, isPtr := types.Unalias(p.Elem()).(*types.Pointer); !isPtr {
							res.Viol(rule, shortFn(f)+": tls.Config literal", instrPos(c.Prog, al), "a tls.Config is constructed outside encryption.GetServerTLSConfig / GetClientTLSConfig")
						}
					}
				}
			}
		}
		if f.Package().Pkg.Path() != encPkg {
			for _, s := range tlsConfigStores([]*ssa.Function{f}) {
				switch s.field {
				case "ClientAuth", "ClientCAs", "RootCAs", "InsecureSkipVerify", "ServerName", "VerifyPeerCertificate", "VerifyConnection", "GetConfigForClient":
					res.Viol(rule, shortFn(f)+": store to tls.Config."+s.field, instrPos(c.Prog, s.st), "a security-relevant tls.Config field is written outside package encryption")
				}
			}
		}
	}
	if n < 4 {
		res.Undec(rule, "TLS construction sites", "", fmt.Sprintf("%d sites found, 4 confirmed by hand (mux receiver, mux establisher, MakeDialOptions, makeServerOptions)", n))
	}
	res.Analysed["tls_scan_functions"] = funcs
	// the mux providers wrap when TLS is enabled
	for _, spec := range []struct {
		a    anchor
		ctor string
		role string
	}{
		{anchor{"transport/mux", "", "NewMuxReceiverProvider"}, "Server", "server"},
		{anchor{"transport/mux", "", "NewMuxEstablisherProvider"}, "Client", "client"},
	} {
		f := resolve(c, res, rule, spec.a)
		if f == nil {
			continue
		}
		// the connection provider literal's tlsWrapper field
		var wrapper ssa.Value
		for _, b := range f.Blocks {
			for _, ins := range b.Instrs {
				if al, ok := ins.(*ssa.Alloc); ok {
					fs, _ := flow.FieldStores(al)
					if v, ok := fs["tlsWrapper"]; ok {
						wrapper = v
					}
				}
			}
		}
		ok := false
		why := "the provider's tlsWrapper is not a phi over (identity, TLS wrapper)"
		if phi, isPhi := flow.ResolveLoad(wrapper).(*ssa.Phi); isPhi {
			ok = true
			for i, e := range phi.Edges {
				cl, _ := closureFn(e)
				wraps := cl != nil && len(flow.FindCalls(cl, func(cc *ssa.CallCommon) bool { return flow.IsCallTo(cc, "crypto/tls", "", spec.ctor) })) > 0
				cs := edgeClasses(phi.Block().Preds[i], phi.Block())
				enabled := false
				disabled := false
				for _, k := range cs {
					if k.kind == "call" && strings.HasSuffix(k.arg, "TLSConfig).IsEnabled") {
						if k.truth {
							enabled = true
						} else {
							disabled = true
						}
					}
				}
				if enabled && !wraps {
					ok, why = false, "on the IsEnabled() side the connection is not wrapped with tls."+spec.ctor
				}
				if !wraps && !disabled {
					ok, why = false, "the plain (unwrapped) connection can be used on a path where TLS may be enabled"
				}
			}
		}
		res.Check(ok, rule, spec.a.name+": connections are wrapped with tls."+spec.ctor+" whenever TLS is enabled", fnPos(c.Prog, f), "identity wrapper only on the !IsEnabled() side", why)
		// a nil config with TLS enabled is an error
	}
	// makeServerOptions / buildTLSTCPClient / ensurePeer: TLS applied whenever IsEnabled
	if f := resolve(c, res, rule, anchor{"proxy", "", "makeServerOptions"}); f != nil {
		ok := false
		for _, call := range flow.FindCalls(f, func(cc *ssa.CallCommon) bool { return flow.IsCallTo(cc, encPkg, "", "GetServerTLSConfig") }) {
			for _, k := range blockClasses(call.Block()) {
				if k.kind == "call" && strings.HasSuffix(k.arg, "TLSConfig).IsEnabled") && k.truth {
					ok = true
				}
			}
			good, why := errorReturned(f, call.(*ssa.Call))
			res.Check(good, rule, "makeServerOptions: TLS config error is returned", instrPos(c.Prog, call), "ok", why)
		}
		res.Check(ok, rule, "makeServerOptions: server credentials installed under IsEnabled()", fnPos(c.Prog, f), "ok", "GetServerTLSConfig is not consulted on the IsEnabled() side")
	}
}

func blockClasses(b *ssa.BasicBlock) []condClass {
	var out []condClass
	for _, g := range flow.NormGuards(flow.Guards(b)) {
		out = append(out, classifyCond(g.Cond, g.Side))
	}
	return out
}

// credsConsumer: what consumes the credentials value: grpc.Creds (server) or WithTransportCredentials (client).
func credsConsumer(call ssa.CallInstruction) string {
	v, ok := call.(*ssa.Call)
	if !ok {
		return ""
	}
	for _, r := range *v.Referrers() {
		if c2, ok := r.(*ssa.Call); ok {
			if flow.IsCallTo(&c2.Call, grpcPkg, "", "Creds") {
				return "server"
			}
			if flow.IsCallTo(&c2.Call, grpcPkg, "", "WithTransportCredentials") {
				return "client"
			}
		}
	}
	return ""
}

// paramOrigin: origin of a *tls.Config parameter = common origin of the argument at all call sites in
// shipped module code.
func paramOrigin(c *Ctx, f *ssa.Function, v ssa.Value) string {
	p, ok := flow.Strip(v).(*ssa.Parameter)
	if !ok {
		return "?"
	}
	idx := -1
	for i, q := range f.Params {
		if q == p {
			idx = i
		}
	}
	out := ""
	for _, g := range c.Prog.RepoFuncs() {
		if !isShippedFunc(g) {
			continue
		}
		for _, call := range flow.Calls(g) {
			if flow.StaticCallee(call.Common()) != f || idx >= len(call.Common().Args) {
				continue
			}
			o := tlsConfigOrigin(call.Common().Args[idx], 0)
			if o == "nil" {
				continue
			}
			if out == "" {
				out = o
			} else if out != o {
				return "?"
			}
		}
	}
	if out == "" {
		return "nil"
	}
	return out
}
