package rules

import (
	"fmt"
	"go/token"
	"sort"
	"strings"

	"golang.org/x/tools/go/ssa"

	"s2scheck/internal/flow"
	"s2scheck/internal/report"
)

// storedFuncField: the function literal (or named function) that ctor stores into the struct field `field`.
func storedFuncField(ctor *ssa.Function, field string) *ssa.Function {
	var cl *ssa.Function
	for _, b := range ctor.Blocks {
		for _, ins := range b.Instrs {
			if st, ok := ins.(*ssa.Store); ok {
				if fa, ok := st.Addr.(*ssa.FieldAddr); ok && flow.FieldName(fa.X.Type(), fa.Field) == field {
					switch v := flow.Strip(st.Val).(type) {
					case *ssa.Function:
						cl = v
					case *ssa.MakeClosure:
						cl, _ = v.Fn.(*ssa.Function)
					}
				}
			}
		}
	}
	return cl
}

// checkNamespaceMethodGate (O12.8): the namespace translator is consulted per RPC through MatchMethod. Every
// method of both services whose request or response type reaches a namespace-name site (or an events blob) must
// pass the gate. Decided for the two forms a gate can be read in without evaluating it: `return true`, and the
// negated comma-ok lookup of the method (full name, or short name via api.MethodName) in a package-level map
// literal with constant keys - each key is resolved against the method lists of BOTH services (a short name can
// belong to both). Any other form is undecided.
func checkNamespaceMethodGate(c *Ctx, res *report.Result, rule string, m *apiModel, siteCount map[string]int) {
	ctor := resolve(c, res, rule, anchor{"interceptor", "", "NewNamespaceNameTranslator"})
	if ctor == nil {
		return
	}
	if f := resolve(c, res, rule, anchor{"interceptor", "*translatorImpl", "MatchMethod"}); f != nil {
		u := methodUsesFields(f)
		res.Check(u["matchMethod"], rule, "translatorImpl.MatchMethod delegates to matchMethod", fnPos(c.Prog, f), "ok", "MatchMethod does not use the filter configured by the constructor")
	}
	cl := storedFuncField(ctor, "matchMethod")
	construct := "NewNamespaceNameTranslator: matchMethod admits every method that can carry a namespace"
	if cl == nil {
		res.Undec(rule, construct, fnPos(c.Prog, ctor), "matchMethod is not a function literal or named function the checker can read")
		return
	}
	wfP, adP, err := servicePrefixes(c)
	if err != nil {
		res.Undec(rule, construct, fnPos(c.Prog, ctor), err.Error())
		return
	}
	// methods that carry a namespace, by service
	type meth struct{ svc, name string }
	carries := map[meth]string{}
	all := map[meth]bool{}
	for _, r := range m.roots {
		k := meth{r.Service, r.Method}
		all[k] = true
		if siteCount[r.Name()] > 0 {
			if _, ok := carries[k]; !ok {
				carries[k] = fmt.Sprintf("%s (%s) reaches %d namespace-name site(s)", r.Name(), r.Role, siteCount[r.Name()])
			}
		}
	}
	full := func(k meth) string {
		if k.svc == "WorkflowService" {
			return wfP + k.name
		}
		return adP + k.name
	}
	// classify the returns
	allTrue := true
	var lookups []*ssa.Lookup
	unknown := ""
	for _, b := range cl.Blocks {
		for _, ins := range b.Instrs {
			ret, ok := ins.(*ssa.Return)
			if !ok {
				continue
			}
			v := flow.Ret(ret)[0]
			if k, isK := flow.ConstBool(v); isK {
				if k {
					continue
				}
				allTrue = false
				// `return false` only where a lookup found the method
				found := false
				for _, g := range flow.NormGuards(flow.Guards(b)) {
					if ex, isEx := g.Cond.(*ssa.Extract); isEx && ex.Index == 1 && g.Side {
						if lk, isLk := ex.Tuple.(*ssa.Lookup); isLk && lk.CommaOk {
							lookups = append(lookups, lk)
							found = true
						}
					}
				}
				if !found {
					unknown = "a `return false` that is not guarded by a table lookup (" + instrPos(c.Prog, ret) + ")"
				}
				continue
			}
			allTrue = false
			if u, isU := v.(*ssa.UnOp); isU && u.Op == token.NOT {
				if ex, isEx := u.X.(*ssa.Extract); isEx && ex.Index == 1 {
					if lk, isLk := ex.Tuple.(*ssa.Lookup); isLk && lk.CommaOk {
						lookups = append(lookups, lk)
						continue
					}
				}
			}
			unknown = "a returned value that is neither a constant nor a negated table lookup (" + flow.Describe(v) + ")"
		}
	}
	if allTrue {
		res.Hold(rule, construct, fnPos(c.Prog, cl), fmt.Sprintf("the gate returns true on every path: all %d methods of both services are translated (%d of them carry a namespace)", len(all), len(carries)))
		return
	}
	if unknown != "" {
		res.Undec(rule, construct, fnPos(c.Prog, cl), "the method gate is not of a form that can be read without evaluating it: "+unknown)
		return
	}
	pk, err := c.Prog.Pkg("interceptor")
	if err != nil {
		res.Undec(rule, construct, fnPos(c.Prog, cl), err.Error())
		return
	}
	var bad []string
	nKeys := 0
	for _, lk := range lookups {
		// the table
		g, isG := flow.ResolveLoad(lk.X).(*ssa.Global)
		if !isG {
			if u, isU := lk.X.(*ssa.UnOp); isU {
				g, isG = u.X.(*ssa.Global)
			}
		}
		if !isG {
			res.Undec(rule, construct, instrPos(c.Prog, lk), "the looked-up table is not a package-level variable")
			return
		}
		keys, err := mapLiteralKeys(pk, g.Name())
		if err != nil {
			res.Undec(rule, construct, instrPos(c.Prog, lk), "table "+g.Name()+": "+err.Error())
			return
		}
		// is the table written anywhere else?
		for _, f := range c.Prog.RepoFuncs() {
			if f.Name() == "init" {
				continue
			}
			for _, b := range f.Blocks {
				for _, ins := range b.Instrs {
					if mu, isMU := ins.(*ssa.MapUpdate); isMU {
						if u, isU := mu.Map.(*ssa.UnOp); isU && u.X == ssa.Value(g) {
							res.Undec(rule, construct, instrPos(c.Prog, mu), "the table "+g.Name()+" is also written outside its literal")
							return
						}
					}
				}
			}
		}
		// the key: the parameter (full method) or api.MethodName(parameter) (short name)
		short := false
		switch kv := lk.Index.(type) {
		case *ssa.Parameter:
		case *ssa.Call:
			sc := flow.StaticCallee(kv.Common())
			if sc == nil || sc.Name() != "MethodName" || len(kv.Common().Args) != 1 {
				res.Undec(rule, construct, instrPos(c.Prog, lk), "the lookup key is neither the method nor api.MethodName(method)")
				return
			}
			if _, isP := kv.Common().Args[0].(*ssa.Parameter); !isP {
				res.Undec(rule, construct, instrPos(c.Prog, lk), "api.MethodName is not applied to the method parameter")
				return
			}
			short = true
		default:
			res.Undec(rule, construct, instrPos(c.Prog, lk), "the lookup key is neither the method nor api.MethodName(method)")
			return
		}
		for _, tk := range keys {
			nKeys++
			for k := range all {
				hit := (short && k.name == tk.Str) || (!short && full(k) == tk.Str)
				if !hit {
					continue
				}
				if why, ok := carries[k]; ok {
					bad = append(bad, fmt.Sprintf("table key %q excludes %s: %s", tk.Str, full(k), why))
				}
			}
		}
	}
	sort.Strings(bad)
	if len(bad) > 0 {
		res.Viol(rule, construct, fnPos(c.Prog, cl), "the method gate keeps the namespace translator away from a method whose messages carry a namespace: "+strings.Join(bad, "; ")+" - such a call crosses the proxy with the unmapped name")
		return
	}
	res.Hold(rule, construct, fnPos(c.Prog, cl), fmt.Sprintf("the gate excludes only the %d table keys, none of which (resolved against both services' method lists) names a method whose request or response reaches a namespace-name site", nKeys))
}
