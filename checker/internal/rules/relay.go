package rules

import (
	"fmt"
	"go/token"
	"go/types"
	"os"
	"sort"
	"strings"

	"golang.org/x/tools/go/ssa"

	"s2scheck/internal/flow"
	"s2scheck/internal/report"
)

// Relay loops: a loop that takes a message (stream Recv, channel receive, select receive arm) and passes it on
// (stream Send, channel send, Deliver*ToShardOwner). The rule "no message is consumed without being passed on" is
// a must-pass-through rule: no path from the take to the next take of the same loop avoids every forward, except
// over edges that a reviewed table names as legitimate (wrong message kind, nothing to route).
//
// XRELAY is an exploration aid (not in MANIFEST): it lists every take->take path without a forward in the shipped
// packages. The armed instances are the ones in relaySpecs, confirmed by reading.

func init() { Registry["XRELAY"] = xrelay }

type relayTake struct {
	at    ssa.Instruction // the instruction that is the take (call, select, unop)
	start flow.Point      // where the message is in hand
	what  string
}

// relayTakes lists the places of f at which a message is taken from a stream or a channel.
func relayTakes(f *ssa.Function) []relayTake {
	var out []relayTake
	for _, b := range f.Blocks {
		for _, ins := range b.Instrs {
			switch x := ins.(type) {
			case *ssa.Call:
				cc := x.Common()
				if cc.IsInvoke() && (cc.Method.Name() == "Recv" || cc.Method.Name() == "RecvMsg") {
					out = append(out, relayTake{x, flow.After(x), "stream " + cc.Method.Name()})
				}
			case *ssa.UnOp:
				if x.Op == token.ARROW {
					if ch, ok := x.X.Type().Underlying().(*types.Chan); ok && !isSignalElem(ch.Elem()) {
						out = append(out, relayTake{x, flow.After(x), "receive from " + chanName(x.X)})
					}
				}
			case *ssa.Select:
				for i, st := range x.States {
					if st.Dir != types.RecvOnly {
						continue
					}
					ch, ok := st.Chan.Type().Underlying().(*types.Chan)
					if !ok || isSignalElem(ch.Elem()) {
						continue
					}
					// the arm's block: successor of `index == i` true
					if blk := selectArm(x, i); blk != nil {
						out = append(out, relayTake{x, flow.Point{Block: blk}, fmt.Sprintf("select arm %d: receive from %s", i, chanName(st.Chan))})
					}
				}
			}
		}
	}
	return out
}

// chanName: a name for the channel that does not depend on SSA register numbering.
func chanName(v ssa.Value) string {
	if call, ok := v.(*ssa.Call); ok {
		if sc := flow.StaticCallee(call.Common()); sc != nil {
			if o := sc.Origin(); o != nil {
				return o.Name() + "(...)"
			}
			return sc.Name() + "(...)"
		}
	}
	if p, ok := flow.FieldPath(v); ok && p != "" {
		return p
	}
	return "a channel"
}

// isSignalElem: channels of struct{} / time.Time / bool carry no message.
func isSignalElem(t types.Type) bool {
	if st, ok := t.Underlying().(*types.Struct); ok && st.NumFields() == 0 {
		return true
	}
	if flow.NamedIs(t, "time", "Time") {
		return true
	}
	if b, ok := t.Underlying().(*types.Basic); ok && b.Kind() == types.Bool {
		return true
	}
	return false
}

// selectArm returns the block entered when select chose state i.
func selectArm(sel *ssa.Select, i int) *ssa.BasicBlock {
	for _, r := range *sel.Referrers() {
		ex, ok := r.(*ssa.Extract)
		if !ok || ex.Index != 0 {
			continue
		}
		for _, rr := range *ex.Referrers() {
			bo, ok := rr.(*ssa.BinOp)
			if !ok || bo.Op != token.EQL {
				continue
			}
			k, isK := flow.ConstInt(bo.Y)
			if !isK || int(k) != i {
				continue
			}
			for _, u := range *bo.Referrers() {
				if iff, ok := u.(*ssa.If); ok {
					return iff.Block().Succs[0]
				}
			}
		}
	}
	return nil
}

// isRelayForward: the instruction passes a message on.
func isRelayForward(ins ssa.Instruction) bool {
	switch x := ins.(type) {
	case *ssa.Send:
		if ch, ok := x.Chan.Type().Underlying().(*types.Chan); ok && !isSignalElem(ch.Elem()) {
			return true
		}
	case *ssa.Select:
		for _, st := range x.States {
			if st.Dir == types.SendOnly {
				if ch, ok := st.Chan.Type().Underlying().(*types.Chan); ok && !isSignalElem(ch.Elem()) {
					return true
				}
			}
		}
	case ssa.CallInstruction:
		if _, isGo := x.(*ssa.Go); isGo {
			return false
		}
		if _, isDefer := x.(*ssa.Defer); isDefer {
			return false
		}
		n := ""
		cc := x.Common()
		// an immediately called function literal that passes a message on (the send-with-recover idiom)
		if mc, ok := cc.Value.(*ssa.MakeClosure); ok {
			if lit, ok := mc.Fn.(*ssa.Function); ok {
				for _, b := range lit.Blocks {
					for _, li := range b.Instrs {
						if isRelayForward(li) {
							return true
						}
					}
				}
			}
		}
		if cc.IsInvoke() {
			n = cc.Method.Name()
		} else if sc := flow.StaticCallee(cc); sc != nil {
			n = sc.Name()
		}
		switch {
		case n == "Send", n == "SendMsg", n == "SendAndClose", n == "SendAck":
			return true
		case strings.HasPrefix(n, "Deliver") && strings.HasSuffix(n, "ToShardOwner"):
			return true
		}
		// a module helper that passes its argument on on every path (sendToTarget(resp) { ...; return stream.Send(resp) })
		if sc := flow.StaticCallee(cc); sc != nil && alwaysForwards(sc, 0) {
			return true
		}
	}
	return false
}

// alwaysForwards: fn is a module function in which no return is reachable without a stream Send / channel send of
// a message (one level of wrapping, no recursion into further helpers).
var alwaysForwardsMemo = map[*ssa.Function]bool{}

func alwaysForwards(fn *ssa.Function, depth int) bool {
	if fn.Pkg == nil || !strings.HasPrefix(fn.Pkg.Pkg.Path(), modPath) || len(fn.Blocks) == 0 || depth > 0 {
		return false
	}
	if v, ok := alwaysForwardsMemo[fn]; ok {
		return v
	}
	alwaysForwardsMemo[fn] = false
	direct := func(ins ssa.Instruction) bool {
		switch x := ins.(type) {
		case *ssa.Send:
			ch, ok := x.Chan.Type().Underlying().(*types.Chan)
			return ok && !isSignalElem(ch.Elem())
		case *ssa.Call:
			if x.Call.IsInvoke() {
				switch x.Call.Method.Name() {
				case "Send", "SendMsg", "SendAndClose":
					return true
				}
			}
		}
		return false
	}
	has := false
	for _, b := range fn.Blocks {
		for _, ins := range b.Instrs {
			if direct(ins) {
				has = true
			}
		}
	}
	if !has {
		return false
	}
	r := flow.FindPath(flow.Point{Block: fn.Blocks[0]}, flow.IsReturn, direct, nil)
	alwaysForwardsMemo[fn] = !r.Found
	return !r.Found
}

// relayLoopTakes: the takes of f that lie on a cycle.
func relayLoopTakes(f *ssa.Function) []relayTake {
	var out []relayTake
	for _, t := range relayTakes(f) {
		self := func(ins ssa.Instruction) bool { return ins == t.at }
		if r := flow.FindPath(t.start, self, func(ssa.Instruction) bool { return false }, nil); r.Found {
			out = append(out, t)
		}
	}
	return out
}

type relayBypass struct {
	f    *ssa.Function
	take relayTake
	path flow.PathResult
}

// relayBypasses: for every take of f that lies on a cycle, a path from the take to a take (any of f) that avoids
// every forward. through adds rule-specific must-pass instructions; edgeOK prunes reviewed edges.
func relayBypasses(f *ssa.Function, through func(ssa.Instruction) bool, edgeOK func(a, b *ssa.BasicBlock) bool) []relayBypass {
	takes := relayTakes(f)
	if len(takes) == 0 {
		return nil
	}
	isTake := func(ins ssa.Instruction) bool {
		for _, t := range takes {
			if t.at == ins {
				return true
			}
		}
		return false
	}
	var out []relayBypass
	for _, t := range takes {
		// on a cycle?
		self := func(ins ssa.Instruction) bool { return ins == t.at }
		if r := flow.FindPath(t.start, self, func(ssa.Instruction) bool { return false }, nil); !r.Found {
			continue
		}
		hdr := forwardingLoopHeaders(f, t.at)
		th := func(ins ssa.Instruction) bool {
			return isRelayForward(ins) || hdr[ins.Block()] || (through != nil && through(ins))
		}
		eo := func(a, b *ssa.BasicBlock) bool {
			if wrongKindEdge(a, b) {
				return false
			}
			return edgeOK == nil || edgeOK(a, b)
		}
		r := flow.FindPath(t.start, isTake, th, eo)
		if r.Found {
			out = append(out, relayBypass{f, t, r})
		}
	}
	return out
}

// wrongKindEdge: the edge a->b is taken when the message in hand is not of the kind the loop relays: the false side
// of a comma-ok type assertion, or the nil side of a nil test of a value loaded from a type-asserted message body
// (`attr, ok := x.GetAttributes().(*T); ok && attr.Body != nil`).
func wrongKindEdge(a, b *ssa.BasicBlock) bool {
	for _, g := range flow.NormGuards(flow.EdgeGuards(a, b)) {
		if iffBlockOf(g.Cond) != a {
			continue
		}
		if ex, ok := g.Cond.(*ssa.Extract); ok && ex.Index == 1 {
			if ta, isTA := ex.Tuple.(*ssa.TypeAssert); isTA && ta.CommaOk && !g.Side {
				return true
			}
		}
		if bo, ok := g.Cond.(*ssa.BinOp); ok && (bo.Op == token.EQL || bo.Op == token.NEQ) {
			var v ssa.Value
			if flow.IsNilConst(bo.Y) {
				v = bo.X
			} else if flow.IsNilConst(bo.X) {
				v = bo.Y
			}
			if v == nil {
				continue
			}
			nilSide := (bo.Op == token.EQL) == g.Side
			if nilSide && fromAssertedBody(v, 0) {
				return true
			}
		}
	}
	return false
}

// iffBlockOf: the block whose terminating If tests cond (nil when cond is not used by exactly such an If).
func iffBlockOf(cond ssa.Value) *ssa.BasicBlock {
	if cond.Referrers() == nil {
		return nil
	}
	for _, r := range *cond.Referrers() {
		if iff, ok := r.(*ssa.If); ok {
			return iff.Block()
		}
	}
	return nil
}

// fromAssertedBody: v is a field load (or getter result) of the value of a comma-ok type assertion.
func fromAssertedBody(v ssa.Value, d int) bool {
	if d > 4 {
		return false
	}
	switch x := v.(type) {
	case *ssa.UnOp:
		if x.Op == token.MUL {
			if _, isAlloc := x.X.(*ssa.Alloc); isAlloc {
				if rl := flow.ResolveLoad(x); rl != nil && rl != ssa.Value(x) {
					return fromAssertedBody(rl, d)
				}
				return false
			}
			return fromAssertedBody(x.X, d+1)
		}
	case *ssa.FieldAddr:
		return fromAssertedBody(x.X, d+1)
	case *ssa.Field:
		return fromAssertedBody(x.X, d+1)
	case *ssa.Extract:
		if ta, ok := x.Tuple.(*ssa.TypeAssert); ok && ta.CommaOk && x.Index == 0 {
			return d > 0
		}
		// the taken message itself: a nil message carries nothing to pass on
		if call, ok := x.Tuple.(*ssa.Call); ok && x.Index == 0 && call.Common().IsInvoke() && strings.HasPrefix(call.Common().Method.Name(), "Recv") {
			return true
		}
		if _, ok := x.Tuple.(*ssa.Select); ok && x.Index >= 2 {
			return true
		}
	case *ssa.Call:
		if sc := flow.StaticCallee(x.Common()); sc != nil && strings.HasPrefix(sc.Name(), "Get") && len(x.Common().Args) == 1 {
			return fromAssertedBody(x.Common().Args[0], d+1)
		}
	}
	return false
}

// forwardingLoopHeaders: headers of the loops of f that contain a forward but not the take. Reaching such a header
// means the message reached the loop that passes it on; zero iterations mean there was nobody to pass it to.
func forwardingLoopHeaders(f *ssa.Function, take ssa.Instruction) map[*ssa.BasicBlock]bool {
	out := map[*ssa.BasicBlock]bool{}
	for _, h := range f.Blocks {
		var loop map[*ssa.BasicBlock]bool
		for _, p := range h.Preds {
			if h.Dominates(p) { // back edge p -> h
				if loop == nil {
					loop = map[*ssa.BasicBlock]bool{h: true}
				}
				var up func(b *ssa.BasicBlock)
				up = func(b *ssa.BasicBlock) {
					if loop[b] {
						return
					}
					loop[b] = true
					for _, q := range b.Preds {
						up(q)
					}
				}
				up(p)
			}
		}
		if loop == nil || loop[take.Block()] {
			continue
		}
		for b := range loop {
			for _, ins := range b.Instrs {
				if isRelayForward(ins) {
					out[h] = true
				}
			}
		}
	}
	return out
}

// relayAggregators: takes whose loop does not pass every message on by design; each named with the reason and the
// rule that decides its forwarding instead.
var relayAggregators = map[string]string{
	"(*proxy.proxyStreamReceiver).sendAck": "aggregator: an incoming ack updates ackByTarget and only the minimum over the targets is sent upstream, and only when it does not fall below the last one sent (O1.1-O1.4 / O3.1-O3.3 decide that forwarding)",
}

// checkRelayLoops: every loop of the named files that takes messages from a stream or channel and has a forward
// passes every message of the relayed kind on: no take -> take path avoids every forward (a loop around the
// forward that runs zero times - nobody to pass it to - and the wrong-kind edges are not bypasses; a return ends
// the stream and is not a silent loss).
func checkRelayLoops(c *Ctx, res *report.Result, rule string, files []string, minInstances int) {
	n := 0
	var fs []*ssa.Function
	for _, f := range c.Prog.RepoFuncs() {
		if !isShippedFunc(f) || len(f.Blocks) == 0 {
			continue
		}
		fn := c.Prog.Pos(f.Pos())
		in := false
		for _, file := range files {
			if strings.HasPrefix(fn, file) {
				in = true
			}
		}
		if in {
			fs = append(fs, f)
		}
	}
	sort.Slice(fs, func(i, j int) bool { return fs[i].String() < fs[j].String() })
	for _, f := range fs {
		hasFwd := false
		for _, b := range f.Blocks {
			for _, ins := range b.Instrs {
				if isRelayForward(ins) {
					hasFwd = true
				}
			}
		}
		if !hasFwd {
			continue
		}
		takes := relayLoopTakes(f)
		if len(takes) == 0 {
			continue
		}
		if why, ok := relayAggregators[shortFn(f)]; ok {
			res.Hold(rule, shortFn(f)+": relay loop (reviewed exception)", fnPos(c.Prog, f), why)
			// an aggregator still must not run on the set side of its latch, nor go on after a failed Send
			inv := latchInverted(f)
			res.Check(len(inv) == 0, rule, shortFn(f)+": takes are made while the latch is not set", fnPos(c.Prog, f), "ok", "the take is made on the side on which IsShutdown() was just found true: the worker does nothing until it is told to stop")
			if failed, nSends := relayContinuesAfterFailedSend(f); nSends > 0 {
				pos := fnPos(c.Prog, f)
				if len(failed) > 0 {
					pos = instrPos(c.Prog, failed[0])
				}
				res.Check(len(failed) == 0, rule, shortFn(f)+": the loop ends when a Send fails", pos, fmt.Sprintf("%d stream Send(s)", nSends), "the error of a stream Send is not tested, or the next take is reachable from the side on which it is non-nil")
			}
			continue
		}
		bad := map[ssa.Instruction]relayBypass{}
		for _, bp := range relayBypasses(f, nil, nil) {
			bad[bp.take.at] = bp
		}
		if failed, nSends := relayContinuesAfterFailedSend(f); nSends > 0 {
			for i, call := range failed {
				res.Viol(rule, fmt.Sprintf("%s: the loop ends when a Send fails (#%d)", shortFn(f), i+1), instrPos(c.Prog, call), "the error of this stream Send is not tested, or the next take is reachable from the side on which it is non-nil: the message is lost and the relay keeps writing into a broken stream")
			}
			if len(failed) == 0 {
				res.Hold(rule, shortFn(f)+": the loop ends when a Send fails", fnPos(c.Prog, f), fmt.Sprintf("%d stream Send(s): from the non-nil side of each error the next take is unreachable", nSends))
			}
		}
		early := map[ssa.Instruction]relayBypass{}
		for _, bp := range relayEarlyReturns(f) {
			early[bp.take.at] = bp
		}
		inverted := map[ssa.Instruction]bool{}
		for _, t := range latchInverted(f) {
			inverted[t.at] = true
		}
		for i, t := range takes {
			n++
			construct := fmt.Sprintf("%s: every message taken is passed on (take #%d: %s)", shortFn(f), i+1, shortTake(t.what))
			if os.Getenv("S2S_DEBUG_RELAY") != "" {
				fmt.Fprintln(os.Stderr, "relay:", construct, instrPos(c.Prog, t.at))
			}
			if inverted[t.at] {
				res.Viol(rule, construct, instrPos(c.Prog, t.at), "the take is made on the side on which IsShutdown() was just found true (the negation of the loop guard is gone): the worker relays nothing until it is told to stop")
			} else if bp, isEarly := early[t.at]; isEarly {
				res.Viol(rule, construct, instrPos(c.Prog, t.at), "after a successful take the loop can return without passing the message on and without a reason to end (no failed call, io.EOF, tripped latch or closed channel on the path "+flow.BlockPath(bp.path.Via)+"): the relay ends after its first message, silently")
			} else if bp, isBad := bad[t.at]; isBad {
				res.Viol(rule, construct, instrPos(c.Prog, t.at), "a message of the relayed kind can be consumed without being passed on and without ending the stream (path "+flow.BlockPath(bp.path.Via)+"): it is lost silently - the sender believes it delivered and nothing repeats it")
			} else {
				res.Hold(rule, construct, instrPos(c.Prog, t.at), "no path from the take to the next take avoids every Send / channel send / Deliver*ToShardOwner, other than over wrong-kind edges and zero-trip forwarding loops")
			}
		}
	}
	if n < minInstances {
		res.Undec(rule, "relay loops", "", fmt.Sprintf("only %d relay-loop takes found, %d were confirmed by hand", n, minInstances))
	}
}

func shortTake(s string) string {
	if len(s) > 80 {
		s = s[:80]
	}
	return s
}

func xrelay(c *Ctx) (*report.Result, error) {
	res := newResult("XRELAY")
	checkRelayLoops(c, res, "XRL", []string{"proxy/"}, 0)
	var fs []*ssa.Function
	for _, f := range c.Prog.RepoFuncs() {
		if isShippedFunc(f) && len(f.Blocks) > 0 {
			fs = append(fs, f)
		}
	}
	sort.Slice(fs, func(i, j int) bool { return fs[i].String() < fs[j].String() })
	for _, f := range fs {
		hasFwd := false
		for _, b := range f.Blocks {
			for _, ins := range b.Instrs {
				if isRelayForward(ins) {
					hasFwd = true
				}
			}
		}
		if !hasFwd {
			continue
		}
		for _, t := range relayLoopTakes(f) {
			res.Hold("XR-instance", shortFn(f)+": "+t.what, instrPos(c.Prog, t.at), "relay loop")
		}
		for _, bp := range relayBypasses(f, nil, nil) {
			res.Viol("XR", shortFn(f)+": "+bp.take.what, instrPos(c.Prog, bp.take.at), "take->take path without a forward: "+flow.BlockPath(bp.path.Via))
		}
	}
	return res, nil
}

// endJustifiedEdge: the edge a->b is taken when the loop has a reason to end: the take (or a later call) failed,
// the stream reported io.EOF, the latch is set, a closed channel was read, or a select chose a signal channel.
func endJustifiedEdge(a, b *ssa.BasicBlock) bool {
	errT := types.Universe.Lookup("error").Type()
	for _, g := range flow.NormGuards(flow.EdgeGuards(a, b)) {
		if iffBlockOf(g.Cond) != a {
			continue
		}
		switch x := g.Cond.(type) {
		case *ssa.BinOp:
			if x.Op != token.EQL && x.Op != token.NEQ {
				continue
			}
			if types.Identical(x.X.Type(), errT) || types.Identical(x.Y.Type(), errT) {
				if flow.IsNilConst(x.Y) || flow.IsNilConst(x.X) {
					if (x.Op == token.NEQ) == g.Side {
						return true // err != nil
					}
				} else if (x.Op == token.EQL) == g.Side {
					return true // err == sentinel
				}
			}
			// select index == k on a signal channel
			if ex, ok := x.X.(*ssa.Extract); ok && ex.Index == 0 {
				if sel, isSel := ex.Tuple.(*ssa.Select); isSel {
					if k, isK := flow.ConstInt(x.Y); isK && int(k) < len(sel.States) && (x.Op == token.EQL) == g.Side {
						if ch, isCh := sel.States[k].Chan.Type().Underlying().(*types.Chan); isCh && isSignalElem(ch.Elem()) {
							return true
						}
					}
				}
			}
		case *ssa.Call:
			if x.Call.IsInvoke() && x.Call.Method.Name() == "IsShutdown" && g.Side {
				return true
			}
		case *ssa.Extract:
			// comma-ok of a channel receive / select receive: closed channel
			if !g.Side {
				if u, isU := x.Tuple.(*ssa.UnOp); isU && u.Op == token.ARROW && x.Index == 1 {
					return true
				}
				if _, isSel := x.Tuple.(*ssa.Select); isSel && x.Index == 1 {
					return true
				}
			}
		}
	}
	return false
}

// relayEarlyReturns: for every take of f on a cycle, a path from the take to a return that passes no forward and no
// edge that justifies ending the loop: the loop gives up although it holds a message it could pass on.
func relayEarlyReturns(f *ssa.Function) []relayBypass {
	var out []relayBypass
	for _, t := range relayLoopTakes(f) {
		hdr := forwardingLoopHeaders(f, t.at)
		th := func(ins ssa.Instruction) bool { return isRelayForward(ins) || hdr[ins.Block()] }
		eo := func(a, b *ssa.BasicBlock) bool { return !wrongKindEdge(a, b) && !endJustifiedEdge(a, b) }
		isRet := func(ins ssa.Instruction) bool {
			_, ok := ins.(*ssa.Return)
			return ok && ins.Block() != f.Recover
		}
		if r := flow.FindPath(t.start, isRet, th, eo); r.Found {
			out = append(out, relayBypass{f, t, r})
		}
	}
	return out
}

// latchInverted: a take of f that is executed on the side on which IsShutdown() was just found true (the loop guard's
// negation was lost): the worker does nothing until it is told to stop.
func latchInverted(f *ssa.Function) []relayTake {
	var out []relayTake
	for _, t := range relayLoopTakes(f) {
		for _, b := range f.Blocks {
			iff := lastIfOf(b)
			if iff == nil {
				continue
			}
			cond, side := iff.Cond, true
			for {
				if u, ok := cond.(*ssa.UnOp); ok && u.Op == token.NOT {
					cond, side = u.X, !side
					continue
				}
				break
			}
			call, ok := cond.(*ssa.Call)
			if !ok || !call.Call.IsInvoke() || call.Call.Method.Name() != "IsShutdown" {
				continue
			}
			setSucc := b.Succs[0]
			if !side {
				setSucc = b.Succs[1]
			}
			if len(setSucc.Preds) == 1 && setSucc.Dominates(t.start.Block) {
				out = append(out, t)
			}
		}
	}
	return out
}

// relayContinuesAfterFailedSend: a stream Send of f whose error was found non-nil, from which the next take is still
// reachable: the relay goes on after a message it could not pass on (that message is lost, the following ones are
// sent into a broken stream).
func relayContinuesAfterFailedSend(f *ssa.Function) (bad []ssa.Instruction, sends int) {
	takes := relayLoopTakes(f)
	if len(takes) == 0 {
		return nil, 0
	}
	isTake := func(ins ssa.Instruction) bool {
		for _, t := range takes {
			if t.at == ins {
				return true
			}
		}
		return false
	}
	errT := types.Universe.Lookup("error").Type()
	for _, b := range f.Blocks {
		for _, ins := range b.Instrs {
			call, ok := ins.(*ssa.Call)
			if !ok || !call.Call.IsInvoke() || (call.Call.Method.Name() != "Send" && call.Call.Method.Name() != "SendMsg") || !types.Identical(call.Type(), errT) {
				continue
			}
			sends++
			tested := false
			for _, tb := range f.Blocks {
				iff := lastIfOf(tb)
				if iff == nil {
					continue
				}
				bo, isB := iff.Cond.(*ssa.BinOp)
				if !isB || (bo.Op != token.EQL && bo.Op != token.NEQ) || !flow.IsNilConst(bo.Y) || flow.ResolveLoad(bo.X) != ssa.Value(call) && bo.X != ssa.Value(call) {
					continue
				}
				tested = true
				nonNil := tb.Succs[0]
				if bo.Op == token.EQL {
					nonNil = tb.Succs[1]
				}
				if r := flow.FindPath(flow.Point{Block: nonNil}, isTake, func(ssa.Instruction) bool { return false }, func(a, b2 *ssa.BasicBlock) bool { return !(a == tb && b2 != nonNil) }); r.Found && len(nonNil.Preds) == 1 {
					bad = append(bad, call)
				}
			}
			if !tested {
				bad = append(bad, call)
			}
		}
	}
	return bad, sends
}
