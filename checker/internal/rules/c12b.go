package rules

import (
	"fmt"
	"go/ast"
	"go/token"
	"go/types"
	"sort"
	"strings"

	"golang.org/x/tools/go/ssa"

	"s2scheck/internal/flow"
	"s2scheck/internal/load"
	"s2scheck/internal/report"
)

// visitCallback finds the closure handed to visit.Values inside f.
func visitCallback(f *ssa.Function) *ssa.Function {
	for _, c := range flow.Calls(f) {
		cc := c.Common()
		if !flow.IsCallTo(cc, visitPath, "", "Values") || len(cc.Args) < 2 {
			continue
		}
		switch v := cc.Args[1].(type) {
		case *ssa.MakeClosure:
			if g, ok := v.Fn.(*ssa.Function); ok {
				return g
			}
		case *ssa.Function:
			return v
		}
		if ct, ok := cc.Args[1].(*ssa.ChangeType); ok {
			switch v := ct.X.(type) {
			case *ssa.MakeClosure:
				if g, ok := v.Fn.(*ssa.Function); ok {
					return g
				}
			case *ssa.Function:
				return v
			}
		}
	}
	return nil
}

// actionValues resolves the visit.Action operand of a return to its possible constant values,
// each with the block whose guards apply. "call:<fn>" stands for the action result of a callee.
type actionAlt struct {
	val   string
	block *ssa.BasicBlock
	call  *ssa.Call
}

func actionAlts(v ssa.Value, at *ssa.BasicBlock, depth int) []actionAlt {
	v = flow.ResolveLoad(v)
	switch x := v.(type) {
	case *ssa.Const:
		if s, ok := flow.ConstString(x); ok {
			return []actionAlt{{val: s, block: at}}
		}
		return []actionAlt{{val: "?", block: at}}
	case *ssa.Phi:
		if depth > 4 {
			return []actionAlt{{val: "?", block: at}}
		}
		var out []actionAlt
		for i, e := range x.Edges {
			out = append(out, actionAlts(e, x.Block().Preds[i], depth+1)...)
		}
		return out
	case *ssa.Extract:
		if c, ok := x.Tuple.(*ssa.Call); ok {
			return []actionAlt{{val: "call", block: at, call: c}}
		}
	case *ssa.ChangeType:
		return actionAlts(x.X, at, depth+1)
	case *ssa.Convert:
		return actionAlts(x.X, at, depth+1)
	}
	return []actionAlt{{val: "?", block: at}}
}

func guardHasCall(gs []flow.Guard, side bool, pred func(*ssa.CallCommon) bool) bool {
	for _, g := range gs {
		if g.Side != side {
			continue
		}
		if c, ok := g.Cond.(*ssa.Call); ok && pred(&c.Call) {
			return true
		}
	}
	return false
}

func isMethodNamed(c *ssa.CallCommon, name string) bool {
	if c.IsInvoke() {
		return c.Method.Name() == name
	}
	f := flow.StaticCallee(c)
	return f != nil && f.Name() == name && f.Signature.Recv() != nil
}

// guardTypeAssertOK: a guard that is the comma-ok result of a type assertion to *pkg.name, true side.
func guardTypeAssertOK(gs []flow.Guard, pkgSuffix, name string) bool {
	for _, g := range gs {
		if !g.Side {
			continue
		}
		if ex, ok := g.Cond.(*ssa.Extract); ok && ex.Index == 1 {
			if ta, ok := ex.Tuple.(*ssa.TypeAssert); ok && ta.CommaOk {
				t := types.Unalias(ta.AssertedType)
				if p, ok := t.(*types.Pointer); ok {
					if n, ok := types.Unalias(p.Elem()).(*types.Named); ok && n.Obj().Name() == name && n.Obj().Pkg() != nil && strings.HasSuffix(n.Obj().Pkg().Path(), pkgSuffix) {
						return true
					}
				}
			}
		}
	}
	return false
}

func errGuard(gs []flow.Guard) bool {
	for _, g := range gs {
		b, ok := g.Cond.(*ssa.BinOp)
		if !ok {
			continue
		}
		isErr := func(v ssa.Value) bool {
			return types.Identical(v.Type(), types.Universe.Lookup("error").Type())
		}
		if (b.Op == token.NEQ && g.Side) || (b.Op == token.EQL && !g.Side) {
			if (flow.IsNilConst(b.Y) && isErr(b.X)) || (flow.IsNilConst(b.X) && isErr(b.Y)) {
				return true
			}
		}
	}
	return false
}

// checkWalkCuts classifies every Skip/Stop the visit callbacks can return.
func checkWalkCuts(c *Ctx, res *report.Result, rule string) {
	for _, name := range []string{"visitNamespace", "visitSearchAttributes"} {
		if res.Property == "C14" && name == "visitNamespace" {
			continue
		}
		if (res.Property == "C12" || res.Property == "C16") && name == "visitSearchAttributes" {
			continue
		}
		f := resolve(c, res, rule, anchor{"interceptor", "", name})
		if f == nil {
			continue
		}
		cb := visitCallback(f)
		if cb == nil {
			res.Undec(rule, name+": visit callback", fnPos(c.Prog, f), "no closure passed to visit.Values found")
			continue
		}
		classifyCuts(c, res, rule, name, cb, f, 0)
		if name == "visitNamespace" {
			// History handled by per-event recursion: a recursive call on elements of GetEvents()
			ok := false
			for _, call := range flow.Calls(cb) {
				cc := call.Common()
				if flow.StaticCallee(cc) != f || len(cc.Args) < 2 {
					continue
				}
				arg := flow.Strip(cc.Args[1])
				if ld, isLd := arg.(*ssa.UnOp); isLd && ld.Op == token.MUL {
					if ia, isIA := ld.X.(*ssa.IndexAddr); isIA {
						if src, isCall := ia.X.(*ssa.Call); isCall && isMethodNamed(&src.Call, "GetEvents") {
							ok = true
						}
						if ld2, ok2 := ia.X.(*ssa.UnOp); ok2 && ld2.Op == token.MUL {
							if fa, ok3 := ld2.X.(*ssa.FieldAddr); ok3 && flow.FieldName(fa.X.Type(), fa.Field) == "Events" {
								ok = true
							}
						}
					}
				}
			}
			if res.Property == "C12" {
				checkNoDoubleWalk(c, res, rule, f, cb)
			}
			res.Check(ok, rule, name+": History events are walked by per-event recursion", fnPos(c.Prog, cb),
				"the History branch calls visitNamespace on every element of GetEvents()", "the History branch returns Skip but no recursive visitNamespace call over GetEvents() elements was found: events inside a History would not be walked")
		}
	}
}

func classifyCuts(c *Ctx, res *report.Result, rule, owner string, cb, top *ssa.Function, depth int) {
	n := 0
	for _, b := range cb.Blocks {
		for _, ins := range b.Instrs {
			ret, ok := ins.(*ssa.Return)
			if !ok || len(ret.Results) < 1 {
				continue
			}
			for _, alt := range actionAlts(flow.Ret(ret)[0], b, 0) {
				gs := flow.NormGuards(flow.Guards(alt.block))
				var gtxt []string
				for _, g := range gs {
					gtxt = append(gtxt, g.String())
				}
				n++
				construct := fmt.Sprintf("%s: cut #%d (%s)", owner, n, alt.val)
				pos := instrPos(c.Prog, ret)
				switch alt.val {
				case "Continue", "":
					// not a cut
				case "Skip":
					switch {
					case guardHasCall(gs, true, func(cc *ssa.CallCommon) bool { return isMethodNamed(cc, "IsNil") }):
						res.Hold(rule, construct, pos, "class nil-pointer: nothing below a nil pointer")
					case guardHasCall(gs, false, func(cc *ssa.CallCommon) bool { return isMethodNamed(cc, "IsExported") }):
						res.Hold(rule, construct, pos, "class unexported-field: protobuf internals only")
					case guardTypeAssertOK(gs, "api/history/v1", "History"):
						res.Hold(rule, construct, pos, "class History-handled: events are visited by the per-event recursion")
					case containerHandledBefore(cb, alt.block):
						res.Hold(rule, construct, pos, "class container-handled: the skipped value is a search-attribute container that translateIndexedFields has just rebuilt (payload values hold no further containers)")
					default:
						res.Viol(rule, construct, pos, "visit.Skip returned outside the reviewed classes (nil pointer / unexported field / History handled): everything below the skipped value is neither translated nor access-checked", gtxt...)
					}
				case "Stop":
					errOp := ssa.Value(nil)
					if len(ret.Results) > 1 {
						errOp = flow.Ret(ret)[len(ret.Results)-1]
					}
					if errOp != nil && !flow.IsNilConst(flow.ResolveLoad(errOp)) {
						// the operand must be known non-nil here: tested `!= nil` on this side, or freshly made
						known := false
						ev := flow.ResolveLoad(errOp)
						for _, g := range gs {
							if bo, isB := g.Cond.(*ssa.BinOp); isB && (bo.Op == token.NEQ || bo.Op == token.EQL) && flow.IsNilConst(bo.Y) {
								if (bo.X == ev || flow.ResolveLoad(bo.X) == ev || flow.SameValue(bo.X, ev)) && (bo.Op == token.NEQ) == g.Side {
									known = true
								}
							}
						}
						if call, isC := ev.(*ssa.Call); isC {
							if sc := flow.StaticCallee(&call.Call); sc != nil {
								switch sc.Name() {
								case "New", "Errorf", "Error", "Join", "Wrap", "Wrapf":
									known = true
								}
							}
						}
						if _, isMI := ev.(*ssa.MakeInterface); isMI {
							known = true
						}
						// where the error comes from: a step of the translation itself (a function of this package or
						// visit.Assign, called directly), or the 'unhandled type' error of a type switch's default arm.
						// An error from anything else - a budget, a size limit, a deadline - stops the walk for a
						// reason the message did not give: the interceptor only logs translator errors and forwards
						// the message as it is, so everything not yet visited leaves untranslated
						origin := ""
						if known {
							var oc *ssa.Call
							switch x := ev.(type) {
							case *ssa.Extract:
								oc, _ = x.Tuple.(*ssa.Call)
							case *ssa.Call:
								oc = x
							}
							okOrigin := false
							if oc != nil {
								if sc := flow.StaticCallee(&oc.Call); sc != nil && sc.Pkg != nil {
									pp := sc.Pkg.Pkg.Path()
									switch {
									case pp == cb.Pkg.Pkg.Path() && sc.Parent() == nil:
										okOrigin = true
									case strings.HasSuffix(pp, "/visit") && sc.Name() == "Assign":
										okOrigin = true
									case (pp == "fmt" || pp == "errors") && (sc.Name() == "Errorf" || sc.Name() == "New"):
										for _, g := range gs {
											if ex, isE := g.Cond.(*ssa.Extract); isE && ex.Index == 1 && !g.Side {
												if ta, isT := ex.Tuple.(*ssa.TypeAssert); isT && ta.CommaOk {
													okOrigin = true
												}
											}
										}
										origin = "a fresh error outside the default arm of a type switch"
									default:
										origin = "a call of " + shortFn(sc)
									}
								} else {
									origin = "a call through a function value"
								}
							} else if _, isMI := ev.(*ssa.MakeInterface); isMI {
								okOrigin = true
							} else {
								origin = "a value of unknown origin"
							}
							if okOrigin {
								origin = ""
							}
						}
						if known && origin != "" {
							res.Viol(rule, construct, pos, "visit.Stop is returned with an error that does not come from translating the visited value ("+origin+"): a walk cut short by a budget, a size limit or a deadline leaves every field not yet visited untranslated, and the interceptor only logs a translator's error and forwards the message as it is", gtxt...)
						} else if known {
							res.Hold(rule, construct, pos, "class error: Stop is returned with an error that is known to be non-nil on this path")
						} else {
							res.Viol(rule, construct, pos, "visit.Stop is returned with an error value that is not known to be non-nil here (the test of the error is missing or inverted): with a nil error the walk is silently truncated after the first element", gtxt...)
						}
					} else {
						res.Viol(rule, construct, pos, "visit.Stop returned with a nil error: the walk is silently truncated", gtxt...)
					}
				case "call":
					callee := flow.StaticCallee(&alt.call.Call)
					if callee == nil || callee.Blocks == nil || depth > 1 {
						res.Undec(rule, construct, pos, "action comes from a call the checker cannot follow")
						continue
					}
					classifyCalleeActions(c, res, rule, owner+"/"+callee.Name(), callee)
				default:
					res.Undec(rule, construct, pos, "cannot resolve the visit.Action returned here to a constant", gtxt...)
				}
			}
		}
	}
}

// classifyCalleeActions handles helpers like getParentFieldType whose named result is the action.
func classifyCalleeActions(c *Ctx, res *report.Result, rule, owner string, f *ssa.Function) {
	sig := f.Signature
	idx := -1
	for i := 0; i < sig.Results().Len(); i++ {
		if flow.NamedIs(sig.Results().At(i).Type(), visitPath, "Action") {
			idx = i
		}
	}
	if idx < 0 {
		res.Undec(rule, owner, fnPos(c.Prog, f), "helper has no visit.Action result")
		return
	}
	n := 0
	for _, b := range f.Blocks {
		for _, ins := range b.Instrs {
			ret, ok := ins.(*ssa.Return)
			if !ok || len(ret.Results) <= idx {
				continue
			}
			for _, alt := range actionAlts(flow.Ret(ret)[idx], b, 0) {
				gs := flow.NormGuards(flow.Guards(alt.block))
				var gtxt []string
				for _, g := range gs {
					gtxt = append(gtxt, g.String())
				}
				n++
				construct := fmt.Sprintf("%s: cut #%d (%s)", owner, n, alt.val)
				pos := instrPos(c.Prog, ret)
				switch alt.val {
				case "Continue", "":
				case "Skip":
					if guardHasCall(gs, false, func(cc *ssa.CallCommon) bool { return isMethodNamed(cc, "IsExported") }) {
						res.Hold(rule, construct, pos, "class unexported-field")
					} else {
						res.Viol(rule, construct, pos, "helper returns visit.Skip outside the unexported-field class", gtxt...)
					}
				case "Stop":
					res.Viol(rule, construct, pos, "helper returns visit.Stop (no error can accompany it)", gtxt...)
				default:
					res.Undec(rule, construct, pos, "cannot resolve the action value", gtxt...)
				}
			}
		}
	}
}

// checkTranslateOrder implements O12.5: the interceptor translates the populated message.
func checkTranslateOrder(c *Ctx, m *apiModel, res *report.Result) {
	rule := "O12.5"
	res.RuleDoc[rule] = "the request is translated on every path before the handler runs and the handler's result on every path after it; stream SendMsg translates before sending; RecvMsg must translate after receiving if the stream request type has any translatable site"
	icept := resolve(c, res, rule, anchor{"interceptor", "*TranslationInterceptor", "Intercept"})
	if icept != nil {
		// handler calls: dynamic calls whose callee value is the `handler` parameter
		var handler *ssa.Parameter
		for _, p := range icept.Params {
			if flow.NamedIs(p.Type(), "google.golang.org/grpc", "UnaryHandler") {
				handler = p
			}
		}
		if handler == nil {
			res.Undec(rule, "Intercept: handler parameter", fnPos(c.Prog, icept), "no grpc.UnaryHandler parameter")
		} else {
			isHandlerCall := func(ins ssa.Instruction) bool {
				call, ok := ins.(ssa.CallInstruction)
				return ok && call.Common().Value == handler
			}
			isTr := func(name string) func(ssa.Instruction) bool {
				return func(ins ssa.Instruction) bool {
					call, ok := ins.(ssa.CallInstruction)
					return ok && call.Common().IsInvoke() && call.Common().Method.Name() == name
				}
			}
			// classify handler calls: bypass (guarded by the disabled/no-translators/other-service test) or main
			nMain := 0
			for _, b := range icept.Blocks {
				for _, ins := range b.Instrs {
					if !isHandlerCall(ins) {
						continue
					}
					call := ins.(*ssa.Call)
					// is a TranslateRequest possible before it?
					pre := flow.FindPath(flow.Point{Block: icept.Blocks[0]}, func(x ssa.Instruction) bool { return x == ins }, isTr("TranslateRequest"), nil)
					post := flow.FindPath(flow.After(ins), flow.IsReturn, isTr("TranslateResponse"), nil)
					anyTrBefore := false
					for _, b2 := range icept.Blocks {
						for _, x := range b2.Instrs {
							if isTr("TranslateRequest")(x) && reaches(x, ins) {
								anyTrBefore = true
							}
						}
					}
					if !anyTrBefore {
						// bypass path: every edge into it must be one of the reviewed bypass conditions
						for _, pb := range b.Preds {
							iff := lastIfOf(pb)
							if iff == nil || len(pb.Succs) != 2 {
								res.Viol(rule, "Intercept: bypass edge", instrPos(c.Prog, ins), "the untranslated handler call is reachable unconditionally")
								continue
							}
							side := pb.Succs[0] == b
							cls := classifyBypassCond(iff.Cond, side)
							if strings.HasPrefix(cls, "method lacks service prefix") {
								// both service prefixes must have been tested false on the way here
								seen := map[string]bool{strings.TrimPrefix(cls, "method lacks service prefix "): true}
								for _, g := range flow.NormGuards(flow.Guards(pb)) {
									if k := classifyBypassCond(g.Cond, g.Side); strings.HasPrefix(k, "method lacks service prefix ") {
										seen[strings.TrimPrefix(k, "method lacks service prefix ")] = true
									}
								}
								wfp, _ := depConst(c, "interceptor", srvPath+"/common/api", "WorkflowServicePrefix")
								adp, _ := depConst(c, "interceptor", srvPath+"/common/api", "AdminServicePrefix")
								if wfp == "" || adp == "" || !seen[wfp] || !seen[adp] {
									cls = "?"
								} else {
									cls = "method of neither proxied service"
								}
							}
							construct := "Intercept: bypass condition " + cls
							if strings.HasPrefix(cls, "?") {
								res.Viol(rule, "Intercept: bypass condition "+flow.Describe(iff.Cond), instrPos(c.Prog, iff), "translation is bypassed under a condition outside the reviewed set {translation-disabled header, no translators configured, method of neither proxied service}")
							} else {
								res.Hold(rule, construct, instrPos(c.Prog, iff), "reviewed bypass condition")
							}
						}
						_ = call
						continue
					}
					nMain++
					// the translating path: between the loop over translators and the handler there must be no
					// path that skips the loop entirely; since translation is per translator inside a range
					// loop, we require that the range loop over i.translators dominates the handler call.
					res.Check(loopOverFieldDominates(icept, "translators", ins, "TranslateRequest"), rule, "Intercept: request translated before handler", instrPos(c.Prog, ins),
						"the loop applying TranslateRequest to req dominates the handler call", "the handler can be reached without running the request translation loop")
					res.Check(loopOverFieldAfter(icept, "translators", ins, "TranslateResponse"), rule, "Intercept: response translated after handler", instrPos(c.Prog, ins),
						"every path from the handler call to return passes the loop applying TranslateResponse to the handler's result", "a return is reachable after the handler without running the response translation loop")
					_ = pre
					_ = post
					// the translated object is the one passed / returned
					checkTranslateArgs(c, res, rule, icept, call)
				}
			}
			res.Check(nMain == 1, rule, "Intercept: one translating handler call", fnPos(c.Prog, icept), "exactly one handler call on the translating path", fmt.Sprintf("%d handler calls on the translating path", nMain))
		}
	}
	send := resolve(c, res, rule, anchor{"interceptor", "*streamTranslator", "SendMsg"})
	if send != nil {
		under := flow.FindCalls(send, func(cc *ssa.CallCommon) bool { return cc.IsInvoke() && cc.Method.Name() == "SendMsg" })
		if len(under) != 1 {
			res.Undec(rule, "streamTranslator.SendMsg: underlying SendMsg", fnPos(c.Prog, send), fmt.Sprintf("%d underlying SendMsg calls", len(under)))
		} else {
			res.Check(loopOverFieldDominates(send, "translators", under[0], "TranslateResponse"), rule, "streamTranslator.SendMsg: translate before send", instrPos(c.Prog, under[0]),
				"TranslateResponse loop dominates the underlying SendMsg", "the message can be sent without passing the TranslateResponse loop")
			// same message
			ok := false
			for _, tc := range flow.FindCalls(send, func(cc *ssa.CallCommon) bool { return cc.IsInvoke() && cc.Method.Name() == "TranslateResponse" }) {
				if len(tc.Common().Args) == 1 && len(under[0].Common().Args) == 1 && flow.Strip(tc.Common().Args[0]) == flow.Strip(under[0].Common().Args[0]) {
					ok = true
				}
			}
			res.Check(ok, rule, "streamTranslator.SendMsg: translated message is the one sent", instrPos(c.Prog, under[0]), "same value", "the value translated is not the value sent")
		}
	}
	recv := resolve(c, res, rule, anchor{"interceptor", "*streamTranslator", "RecvMsg"})
	if recv != nil {
		// conditional: only matters if a stream request root has translatable sites
		sites := 0
		tabs, err := readInterceptorTables(c)
		if err == nil {
			for _, r := range m.roots {
				if r.Role == "stream-request" {
					f := walkNamespaceSites(m, types.NewPointer(r.Type), tabs.nsNames)
					sites += len(f.allSites())
					for k := range f.blobSites {
						if dataBlobClass[k][0] != "opaque" {
							sites++
						}
					}
					saf := walkSASites(m, types.NewPointer(r.Type))
					sites += len(saf)
				}
			}
		}
		under := flow.FindCalls(recv, func(cc *ssa.CallCommon) bool { return cc.IsInvoke() && cc.Method.Name() == "RecvMsg" })
		trs := flow.FindCalls(recv, func(cc *ssa.CallCommon) bool { return cc.IsInvoke() && cc.Method.Name() == "TranslateRequest" })
		after := len(under) == 1 && len(trs) > 0
		for _, t := range trs {
			if len(under) == 1 && !flow.InstrDominates(under[0], t) {
				after = false
			}
		}
		if sites == 0 {
			res.Hold(rule, "streamTranslator.RecvMsg: translate after receive (vacuous)", fnPos(c.Prog, recv), "no streaming request type of either service has a namespace, events-blob or search-attribute site, so the order of RecvMsg and TranslateRequest cannot matter")
			if !after {
				res.Notes = append(res.Notes, "streamTranslator.RecvMsg translates the still-empty message before receiving it; harmless today because StreamWorkflowReplicationMessagesRequest has no translatable site (type-graph fact), would become a defect if the API adds one")
			}
		} else {
			res.Check(after, rule, "streamTranslator.RecvMsg: translate after receive", fnPos(c.Prog, recv), "RecvMsg dominates TranslateRequest", fmt.Sprintf("the stream request type has %d translatable site(s) but TranslateRequest runs before the message is received", sites))
		}
	}
}

func guardText(gs []flow.Guard) string {
	var s []string
	for _, g := range gs {
		s = append(s, g.String())
	}
	return strings.Join(s, " && ")
}

// reaches: some CFG path from a to b.
func reaches(a, b ssa.Instruction) bool {
	r := flow.FindPath(flow.After(a), func(x ssa.Instruction) bool { return x == b }, func(ssa.Instruction) bool { return false }, nil)
	return r.Found
}

// rangeLoopOverField finds the loop header blocks that range over the slice loaded from field
// `field` of the receiver, and whose body invokes method `meth`.
func rangeLoops(f *ssa.Function, field, meth string) []*ssa.BasicBlock {
	var heads []*ssa.BasicBlock
	for _, b := range f.Blocks {
		iff := lastIfOf(b)
		if iff == nil {
			continue
		}
		// range loop header: cond is `idx < len(slice)`
		bo, ok := iff.Cond.(*ssa.BinOp)
		if !ok || bo.Op != token.LSS {
			continue
		}
		ln, ok := bo.Y.(*ssa.Call)
		if !ok {
			continue
		}
		if bi, ok := ln.Call.Value.(*ssa.Builtin); !ok || bi.Name() != "len" {
			continue
		}
		src := flow.ResolveLoad(ln.Call.Args[0])
		// a helper of the same type that returns exactly the elements of the field admitted by MatchMethod stands
		// for the field itself plus the per-element MatchMethod test
		if hc, ok := src.(*ssa.Call); ok {
			if g := flow.StaticCallee(&hc.Call); g != nil {
				if _, isFilter := matchFilterSummary(g, field); isFilter && len(hc.Call.Args) > 0 {
					src = &ssa.UnOp{Op: token.MUL, X: &ssa.FieldAddr{X: hc.Call.Args[0], Field: fieldIndexOf(hc.Call.Args[0].Type(), field)}}
				}
			}
		}
		if ld, ok := src.(*ssa.UnOp); ok && ld.Op == token.MUL {
			if fa, ok := ld.X.(*ssa.FieldAddr); ok && flow.FieldName(fa.X.Type(), fa.Field) == field {
				// body (true successor region) contains meth invoke
				body := b.Succs[0]
				found := false
				for _, bb := range f.Blocks {
					if body.Dominates(bb) {
						for _, ins := range bb.Instrs {
							if call, ok := ins.(ssa.CallInstruction); ok && call.Common().IsInvoke() && call.Common().Method.Name() == meth {
								found = true
							}
						}
					}
				}
				if found {
					heads = append(heads, b)
				}
			}
		}
	}
	return heads
}

func lastIfOf(b *ssa.BasicBlock) *ssa.If {
	if len(b.Instrs) == 0 {
		return nil
	}
	iff, _ := b.Instrs[len(b.Instrs)-1].(*ssa.If)
	return iff
}

func loopOverFieldDominates(f *ssa.Function, field string, at ssa.Instruction, meth string) bool {
	for _, h := range rangeLoops(f, field, meth) {
		// the loop exit (false successor) dominates `at`
		if h.Succs[1].Dominates(at.Block()) || h.Succs[1] == at.Block() {
			return true
		}
	}
	return false
}

func loopOverFieldAfter(f *ssa.Function, field string, from ssa.Instruction, meth string) bool {
	heads := rangeLoops(f, field, meth)
	isHead := func(ins ssa.Instruction) bool {
		for _, h := range heads {
			if ins.Block() == h && ins == h.Instrs[len(h.Instrs)-1] {
				return true
			}
		}
		return false
	}
	r := flow.FindPath(flow.After(from), flow.IsReturn, isHead, nil)
	return len(heads) > 0 && !r.Found
}

// checkTranslateArgs: TranslateRequest receives the req parameter that is passed to the handler;
// TranslateResponse receives the handler's first result, which is what is returned.
func checkTranslateArgs(c *Ctx, res *report.Result, rule string, f *ssa.Function, handlerCall *ssa.Call) {
	reqArg := ssa.Value(nil)
	if len(handlerCall.Call.Args) >= 2 {
		reqArg = flow.Strip(handlerCall.Call.Args[1])
	}
	okReq, okResp := false, false
	for _, tc := range flow.FindCalls(f, func(cc *ssa.CallCommon) bool { return cc.IsInvoke() && cc.Method.Name() == "TranslateRequest" }) {
		if len(tc.Common().Args) == 1 && flow.Strip(tc.Common().Args[0]) == reqArg && reqArg != nil {
			okReq = true
		}
	}
	for _, tc := range flow.FindCalls(f, func(cc *ssa.CallCommon) bool { return cc.IsInvoke() && cc.Method.Name() == "TranslateResponse" }) {
		if len(tc.Common().Args) == 1 {
			if ex, ok := flow.Strip(tc.Common().Args[0]).(*ssa.Extract); ok && ex.Tuple == ssa.Value(handlerCall) && ex.Index == 0 {
				okResp = true
			}
		}
	}
	res.Check(okReq, rule, "Intercept: translated request is the one handed to the handler", instrPos(c.Prog, handlerCall), "same value", "TranslateRequest is not applied to the value passed to the handler")
	res.Check(okResp, rule, "Intercept: translated response is the handler's result", instrPos(c.Prog, handlerCall), "same value", "TranslateResponse is not applied to the handler's result")
}

// classifyBypassCond names the reviewed conditions under which TranslationInterceptor.Intercept
// forwards without translating.
func classifyBypassCond(cond ssa.Value, side bool) string {
	for {
		if u, ok := cond.(*ssa.UnOp); ok && u.Op == token.NOT {
			cond, side = u.X, !side
			continue
		}
		break
	}
	switch x := cond.(type) {
	case *ssa.Call:
		if flow.IsCallTo(&x.Call, modPath+"/common", "", "IsRequestTranslationDisabled") && side {
			return "translation-disabled header"
		}
		if flow.IsCallTo(&x.Call, "strings", "", "HasPrefix") && !side && len(x.Call.Args) == 2 {
			if s, ok := flow.ConstString(x.Call.Args[1]); ok {
				return "method lacks service prefix " + s
			}
		}
	case *ssa.BinOp:
		if x.Op == token.EQL && side {
			if n, ok := flow.ConstInt(x.Y); ok && n == 0 {
				if l, ok := x.X.(*ssa.Call); ok {
					if bi, ok := l.Call.Value.(*ssa.Builtin); ok && bi.Name() == "len" {
						if ld, ok := l.Call.Args[0].(*ssa.UnOp); ok {
							if fa, ok := ld.X.(*ssa.FieldAddr); ok && flow.FieldName(fa.X.Type(), fa.Field) == "translators" {
								return "no translators configured"
							}
						}
					}
				}
			}
		}
	}
	return "?"
}

// checkVisitLibrary validates, against the source of github.com/keilerkonzept/visit in the module
// cache, the traversal the type-graph model assumes: children are queued for map (keys and values),
// slice/array, interface/pointer (element) and struct (every field); Skip drops the children, Stop
// ends the walk.
func checkVisitLibrary(c *Ctx, res *report.Result, rule string) {
	p, err := load.Load(load.Options{RepoDir: c.RepoDir, Overlay: c.Overlay, Only: []string{visitPath}, NoSSA: true, AnyModule: true})
	construct := "visit library traversal model"
	if err != nil {
		res.Undec(rule, construct, "", "cannot load "+visitPath+" from source: "+err.Error())
		return
	}
	var kinds []string
	found := false
	var skipContinue, stopReturn bool
	for _, pk := range p.All {
		if pk.PkgPath != visitPath {
			continue
		}
		for _, f := range pk.Syntax {
			for _, d := range f.Decls {
				fd, ok := d.(*ast.FuncDecl)
				if !ok || fd.Body == nil {
					continue
				}
				switch fd.Name.Name {
				case "queue":
					found = true
					ast.Inspect(fd.Body, func(n ast.Node) bool {
						cc, ok := n.(*ast.CaseClause)
						if !ok {
							return true
						}
						appends := false
						ast.Inspect(cc, func(m ast.Node) bool {
							if ce, ok := m.(*ast.CallExpr); ok {
								if id, ok := ce.Fun.(*ast.Ident); ok && id.Name == "append" {
									appends = true
								}
							}
							return true
						})
						if appends {
							for _, e := range cc.List {
								if sel, ok := e.(*ast.SelectorExpr); ok {
									kinds = append(kinds, sel.Sel.Name)
								}
							}
						}
						return true
					})
				case "ValuesUnsafe":
					ast.Inspect(fd.Body, func(n ast.Node) bool {
						cc, ok := n.(*ast.CaseClause)
						if !ok || len(cc.List) != 1 || len(cc.Body) != 1 {
							return true
						}
						id, _ := cc.List[0].(*ast.Ident)
						if id == nil {
							return true
						}
						switch st := cc.Body[0].(type) {
						case *ast.BranchStmt:
							if id.Name == "Skip" && st.Tok == token.CONTINUE {
								skipContinue = true
							}
						case *ast.ReturnStmt:
							if id.Name == "Stop" {
								stopReturn = true
							}
						}
						return true
					})
				}
			}
		}
	}
	sort.Strings(kinds)
	want := []string{"Array", "Interface", "Map", "Ptr", "Slice", "Struct"}
	ok := found && strings.Join(kinds, ",") == strings.Join(want, ",") && skipContinue && stopReturn
	res.Check(ok, rule, construct, "", "visit.queue enqueues children for "+strings.Join(kinds, ",")+"; Skip continues without children; Stop returns",
		fmt.Sprintf("the traversal of %s no longer matches the model (kinds with children: %v, skip=%v stop=%v)", visitPath, kinds, skipContinue, stopReturn))
}

// containerHandledBefore: every path from the callback's entry to block b passes a call of translateIndexedFields
// (the value being skipped is the search-attribute container the callback has just handled).
func containerHandledBefore(cb *ssa.Function, b *ssa.BasicBlock) bool {
	isTr := func(x ssa.Instruction) bool {
		call, ok := x.(ssa.CallInstruction)
		return ok && flow.IsCallTo(call.Common(), icPkg, "", "translateIndexedFields")
	}
	if len(b.Instrs) == 0 {
		return false
	}
	any := false
	for _, bb := range cb.Blocks {
		for _, ins := range bb.Instrs {
			if isTr(ins) {
				any = true
			}
		}
	}
	if !any {
		return false
	}
	first := b.Instrs[0]
	r := flow.FindPath(flow.Point{Block: cb.Blocks[0]}, func(x ssa.Instruction) bool { return x == first }, isTr, nil)
	return !r.Found
}

// checkBlobExamined: translateOneDataBlob hands a blob back unexamined (nil error, no decode) only when it is nil or
// empty. With those two exits pruned, no path from entry reaches a nil-error return without passing the event
// deserialisation: an "only proto3" / "only small blobs" shortcut lets names inside the skipped blobs through
// untranslated and unchecked (the serializer also decodes JSON-encoded event blobs).
func checkBlobExamined(c *Ctx, res *report.Result, rule string) {
	f := resolve(c, res, rule, anchor{"interceptor", "", "translateOneDataBlob"})
	if f == nil {
		return
	}
	isDecode := func(x ssa.Instruction) bool {
		call, ok := x.(ssa.CallInstruction)
		return ok && call.Common().IsInvoke() && call.Common().Method.Name() == "DeserializeEvents"
	}
	isOKReturn := func(x ssa.Instruction) bool {
		ret, ok := x.(*ssa.Return)
		if !ok {
			return false
		}
		rs := flow.Ret(ret)
		return len(rs) > 0 && flow.IsNilConst(rs[len(rs)-1])
	}
	legit := func(a, b *ssa.BasicBlock) bool {
		iff := lastIfOf(a)
		if iff == nil || len(a.Succs) != 2 {
			return false
		}
		side := b == a.Succs[0]
		bo, isB := iff.Cond.(*ssa.BinOp)
		if !isB {
			return false
		}
		// blob == nil (true side)
		if (bo.Op == token.EQL || bo.Op == token.NEQ) && (flow.IsNilConst(bo.Y) || flow.IsNilConst(bo.X)) {
			isNil := side
			if bo.Op == token.NEQ {
				isNil = !side
			}
			return isNil
		}
		// len(blob.Data) == 0 (true side)
		if k, isK := flow.ConstInt(bo.Y); isK && k == 0 {
			if lc, isC := bo.X.(*ssa.Call); isC {
				if bi, isBi := lc.Call.Value.(*ssa.Builtin); isBi && bi.Name() == "len" {
					if p, _ := flow.FieldPath(lc.Call.Args[0]); strings.HasSuffix(p, ".Data") {
						switch bo.Op {
						case token.EQL:
							return side
						case token.NEQ, token.GTR:
							return !side
						}
					}
				}
			}
		}
		return false
	}
	r := flow.FindPath(flow.Point{Block: f.Blocks[0]}, isOKReturn, isDecode, func(a, b *ssa.BasicBlock) bool { return !legit(a, b) })
	res.Check(!r.Found, rule, "translateOneDataBlob: only nil or empty blobs are passed on without being decoded", fnPos(c.Prog, f), "every other nil-error return lies behind DeserializeEvents", "a non-empty blob can be returned with a nil error without having been decoded (path "+flow.BlockPath(r.Via)+"): the names inside it are neither translated nor access-checked")
}

// checkNoDoubleWalk: after the visit callback walked a subtree itself (a recursive call of the enclosing visitor), it
// must not let the library walk the same subtree again (Continue): names would be mapped twice, which differs from
// once for chained (a->b, b->c) or swapped mappings, and the second walk ignores the event shortcut. A translation
// clause (C12, C13): for the access check of C16 a second look at the same names is harmless.
func checkNoDoubleWalk(c *Ctx, res *report.Result, rule string, f, cb *ssa.Function) {
	name := f.Name()
	for _, call := range flow.Calls(cb) {
		if flow.StaticCallee(call.Common()) != f {
			continue
		}
		twice := ""
		for _, b := range cb.Blocks {
			if len(b.Instrs) == 0 {
				continue
			}
			ret, isRet := b.Instrs[len(b.Instrs)-1].(*ssa.Return)
			if !isRet || len(ret.Results) < 1 {
				continue
			}
			for _, alt := range actionAlts(flow.Ret(ret)[0], b, 0) {
				if (alt.val == "Continue" || alt.val == "") && flow.ReachBlock(call.Block(), alt.block, nil) {
					twice = instrPos(c.Prog, ret)
				}
			}
		}
		res.Check(twice == "", rule, name+": a subtree walked by the callback itself is not walked again", instrPos(c.Prog, call), "every return after the recursive call is Skip or Stop", "after the recursive "+name+" call the callback can return Continue ("+twice+"): the library then descends into the same events and translates them a second time")
	}
}

func fieldIndexOf(t types.Type, field string) int {
	if p, ok := t.Underlying().(*types.Pointer); ok {
		t = p.Elem()
	}
	st, ok := t.Underlying().(*types.Struct)
	if !ok {
		return 0
	}
	for i := 0; i < st.NumFields(); i++ {
		if st.Field(i).Name() == field {
			return i
		}
	}
	return 0
}

// matchFilterSummary: g is a method whose result is exactly "the elements of receiver.<field>, in order, for which
// element.MatchMethod(p) is true", p a parameter of g. Returns the index of p among g's parameters. Recognised
// shape: one range loop over the field; one append, of the range element, whose block is entered on the true side
// of the element's MatchMethod(p); every return yields the accumulated slice; the loop has no other exit.
// Where the accumulator starts (a fresh slice, or a re-sliced view of the field) does not matter here - an in-place
// filter is a state write and is the statelessness rule's business.
func matchFilterSummary(g *ssa.Function, field string) (int, bool) {
	if g == nil || len(g.Blocks) == 0 || g.Signature.Recv() == nil || len(g.Params) < 2 {
		return 0, false
	}
	recv := g.Params[0]
	isFieldLoad := func(v ssa.Value) bool {
		ld, ok := flow.ResolveLoad(v).(*ssa.UnOp)
		if !ok || ld.Op != token.MUL {
			return false
		}
		fa, ok := ld.X.(*ssa.FieldAddr)
		return ok && flow.FieldName(fa.X.Type(), fa.Field) == field && flow.Strip(flow.ResolveLoad(fa.X)) == ssa.Value(recv)
	}
	var appends []*ssa.Call
	loops := 0
	for _, b := range g.Blocks {
		if iff := lastIfOf(b); iff != nil {
			if bo, ok := iff.Cond.(*ssa.BinOp); ok && bo.Op == token.LSS {
				if ln, ok := bo.Y.(*ssa.Call); ok {
					if bi, ok := ln.Call.Value.(*ssa.Builtin); ok && bi.Name() == "len" && isFieldLoad(ln.Call.Args[0]) {
						loops++
					}
				}
			}
		}
		for _, ins := range b.Instrs {
			if call, ok := ins.(*ssa.Call); ok {
				if bi, ok := call.Call.Value.(*ssa.Builtin); ok && bi.Name() == "append" {
					appends = append(appends, call)
				}
			}
			switch ins.(type) {
			case *ssa.Go, *ssa.Defer, *ssa.Panic, *ssa.Select, *ssa.Send:
				return 0, false
			}
		}
	}
	if loops != 1 || len(appends) != 1 {
		return 0, false
	}
	ap := appends[0]
	// the appended element
	var elem ssa.Value
	if sl, ok := ap.Call.Args[1].(*ssa.Slice); ok {
		if al, ok := sl.X.(*ssa.Alloc); ok {
			n := 0
			for _, r := range *al.Referrers() {
				if ia, ok := r.(*ssa.IndexAddr); ok {
					for _, rr := range *ia.Referrers() {
						if st, ok := rr.(*ssa.Store); ok && st.Addr == ssa.Value(ia) {
							elem = st.Val
							n++
						}
					}
				}
			}
			if n != 1 {
				return 0, false
			}
		}
	}
	if elem == nil {
		return 0, false
	}
	eld, ok := elem.(*ssa.UnOp)
	if !ok || eld.Op != token.MUL {
		return 0, false
	}
	eia, ok := eld.X.(*ssa.IndexAddr)
	if !ok || !isFieldLoad(eia.X) {
		return 0, false
	}
	// guarded by elem.MatchMethod(param) == true, and by nothing else but the loop test
	pidx := -1
	for _, gd := range flow.NormGuards(flow.Guards(ap.Block())) {
		if call, ok := gd.Cond.(*ssa.Call); ok && call.Call.IsInvoke() && call.Call.Method.Name() == "MatchMethod" {
			if !gd.Side || call.Call.Value != elem || len(call.Call.Args) != 1 {
				return 0, false
			}
			for i, p := range g.Params {
				if call.Call.Args[0] == ssa.Value(p) {
					pidx = i
				}
			}
			continue
		}
		if bo, ok := gd.Cond.(*ssa.BinOp); ok && bo.Op == token.LSS && gd.Side {
			continue // the range test
		}
		return 0, false
	}
	if pidx < 0 {
		return 0, false
	}
	// every return yields the accumulator
	acc := map[ssa.Value]bool{ssa.Value(ap): true}
	var grow func(v ssa.Value, d int)
	grow = func(v ssa.Value, d int) {
		if d > 6 || acc[v] && d > 0 {
			return
		}
		acc[v] = true
		if ph, ok := v.(*ssa.Phi); ok {
			for _, e := range ph.Edges {
				grow(e, d+1)
			}
		}
	}
	grow(ap.Call.Args[0], 0)
	nret := 0
	for _, b := range g.Blocks {
		for _, ins := range b.Instrs {
			if ret, ok := ins.(*ssa.Return); ok {
				nret++
				if len(ret.Results) != 1 || !acc[ret.Results[0]] {
					return 0, false
				}
				// not from inside the loop body (an early exit would drop admitted elements)
				for _, gd := range flow.NormGuards(flow.Guards(b)) {
					if call, ok := gd.Cond.(*ssa.Call); ok && call.Call.IsInvoke() && call.Call.Method.Name() == "MatchMethod" {
						return 0, false
					}
				}
			}
		}
	}
	return pidx, nret > 0
}
