package rules

import (
	"fmt"
	"go/token"
	"go/types"
	"strings"

	"golang.org/x/tools/go/ssa"

	"s2scheck/internal/flow"
	"s2scheck/internal/report"
)

func init() { Registry["C10"] = c10 }

const (
	muxPkg  = modPath + "/transport/mux"
	sessPkg = modPath + "/transport/mux/session"
	semPkg  = "golang.org/x/sync/semaphore"
)

// isCtxDoneEdge: the edge is taken only when <recv>.lifetime.Err() != nil.
func ctxDoneClasses(cs []condClass) bool {
	for _, c := range cs {
		if c.kind == "ctxdone" && c.truth {
			return true
		}
	}
	return false
}

// successEdge finds, for a call whose error result is errv, the If testing it and returns the block
// taken when the error is nil.
func successSucc(f *ssa.Function, errv ssa.Value) *ssa.BasicBlock {
	for _, b := range f.Blocks {
		iff := lastIfOf(b)
		if iff == nil {
			continue
		}
		bo, ok := iff.Cond.(*ssa.BinOp)
		if !ok || (bo.Op != token.NEQ && bo.Op != token.EQL) {
			continue
		}
		x, y := flow.ResolveLoad(bo.X), flow.ResolveLoad(bo.Y)
		if !((x == errv && flow.IsNilConst(y)) || (y == errv && flow.IsNilConst(x))) {
			continue
		}
		if bo.Op == token.NEQ {
			return b.Succs[1]
		}
		return b.Succs[0]
	}
	return nil
}

// dischargeSpec: typestate of an owned resource.
type dischargeSpec struct {
	rule, construct string
	f               *ssa.Function
	start           *ssa.BasicBlock // first block in which the resource is live
	isDischarge     func(ssa.Instruction) bool
	isEnd           func(ssa.Instruction) bool
	exemptEdge      func(a, b *ssa.BasicBlock) bool // resource known absent / obligation waived
	okDetail, what  string
	pos             string
}

func checkDischarge(c *Ctx, res *report.Result, d dischargeSpec) {
	if d.start == nil {
		res.Undec(d.rule, d.construct, d.pos, "cannot locate the point where the resource becomes live")
		return
	}
	edgeOK := func(a, b *ssa.BasicBlock) bool { return d.exemptEdge == nil || !d.exemptEdge(a, b) }
	r := flow.FindPath(flow.Point{Block: d.start}, d.isEnd, d.isDischarge, edgeOK)
	if r.Found {
		res.Viol(d.rule, d.construct, instrPos(c.Prog, r.End), d.what, "leaking exit: "+instrPos(c.Prog, r.End), "path: "+flow.BlockPath(r.Via))
	} else {
		res.Hold(d.rule, d.construct, d.pos, d.okDetail)
	}
}

func isCloseOf(ins ssa.Instruction, v ssa.Value) bool {
	call, ok := ins.(ssa.CallInstruction)
	if !ok {
		return false
	}
	cc := call.Common()
	if cc.IsInvoke() {
		return cc.Method.Name() == "Close" && flow.Strip(cc.Value) == flow.Strip(v)
	}
	if f := flow.StaticCallee(cc); f != nil && f.Name() == "Close" && len(cc.Args) >= 1 {
		return flow.Strip(cc.Args[0]) == flow.Strip(v)
	}
	return false
}

func isFieldCall(ins ssa.Instruction, field string) (ssa.CallInstruction, bool) {
	call, ok := ins.(ssa.CallInstruction)
	if !ok {
		return nil, false
	}
	cc := call.Common()
	if cc.IsInvoke() || flow.StaticCallee(cc) != nil {
		return nil, false
	}
	if _, f, ok := flow.FieldLoadOf(cc.Value); ok && f == field {
		return call, true
	}
	return nil, false
}

func c10(c *Ctx) (*report.Result, error) {
	res := newResult("C10")
	res.RuleDoc["O10.1"] = "permit: after muxPermits.Acquire succeeds, every path back to the loop head passes Release(1) or the hand-over addNewMux(session, conn); a return without either is allowed only when the lifetime is over"
	res.RuleDoc["O10.2"] = "the hand-over returns the permit exactly once: the session's shutdown callback unregisters the mux and allows one more connection; waitAndCleanup cancels, closes session and connection and runs the callback on its single path; NewManagedMuxSession always starts waitAndCleanup"
	res.RuleDoc["O10.3"] = "who may grow the pool: permits are released only by the connect loop's failure branches (once per acquire), the session callback and the balanced try-acquire of HasConnectionsAvailable; sessions enter the table only through AddConnection"
	res.RuleDoc["O10.4"] = "owned connection / session: from a successful NewConnection (resp. sessionFn, Accept) every path to the loop head or a return closes the connection (resp. session) or hands it over - also during shutdown"
	res.RuleDoc["O10.6"] = "the session table's locks cannot wedge their holder: inside a critical section of any mutex of transport/mux, transport/mux/session and transport/grpcutil no call acquires the same (non-reentrant) mutex again, and these mutexes nest in one order"
	res.RuleDoc["O10.7"] = "session ids are never reused while the manager lives: the key under which AddConnection inserts a session derives from a field that is incremented by one in the same write-locked section on every insertion - a key derived from something that can shrink (the table's length) collides with a live session after any single death, the replacement overwrites a healthy session and the table stays one short"
	res.RuleDoc["O10.9"] = "the limit is the configured one: the pool size handed to the connection providers is cd.MuxCount whenever it is set (the default applies only under MuxCount == 0 / <= 0) - a guard such as `> 1` silently turns a configured limit of 1 into the default of 10"
	res.RuleDoc["O10.5"] = "shutdown order: onClose waits for the provider, then closes every session of the table under the table lock, then signals; AddConnection tests the lifetime under the same lock"

	loop := connectLoop(c, res)
	if loop != nil {
		checkConnectLoop(c, res, loop)
	}
	checkSessionLifecycle(c, res)
	checkPoolGrowers(c, res, loop)
	checkAddConnectionOwnership(c, res)
	checkReceiverAccept(c, res)
	checkShutdownOrder(c, res)

	res.Explanation = "Typestate (must-discharge) analysis on the SSA of the mux connect loop ((*muxProvider).Start's goroutine), multiMuxManager.AddConnection / unregisterMux / onClose, session.NewManagedMuxSession / waitAndCleanup and receivingConnProvider.NewConnection: a held permit, an accepted/dialled connection and a yamux session are resources that must be released, closed or handed over on every CFG path (loads of the captured err cell are forwarded so that 'err != nil' is correlated with the producing call); who-may-call inventory of every semaphore Release / AllowMoreConns / insertion into the session table in shipped code. Decides that no path leaks a permit or a socket and that nothing but the reviewed sites can grow the pool; does not decide that the pool actually returns to full strength (needs the peer and time)."
	res.Assumptions = []string{"semaphore.Weighted semantics", "yamux.Session.Close / net.Conn.Close release the underlying socket", "a closed yamux session closes its CloseChan (so waitAndCleanup runs)"}
	{
		var pk []*ssa.Package
		for _, rel := range []string{"transport/mux", "transport/mux/session", "transport/grpcutil"} {
			if sp, err := c.Prog.SSAPkg(rel); err == nil {
				pk = append(pk, sp)
			}
		}
		n := checkReentrancy(c, res, "O10.6", pk, func(string) bool { return true })
		res.Analysed["reentrancy_sections"] = n
		if n < 5 {
			res.Undec("O10.6", "critical sections of the mux packages", "", fmt.Sprintf("%d sections found", n))
		}
	}
	checkSessionIDs(c, res, "O10.7")
	res.RuleDoc["O10.8"] = "no blocking operation under the session table's locks except the reviewed shutdown closes (same analysis and table as O11.5): connecting, pinging, waiting and stream I/O happen outside muxesLock"
	{
		var pk []*ssa.Package
		for _, rel := range []string{"transport/mux", "transport/mux/session"} {
			if spk, err := c.Prog.SSAPkg(rel); err == nil {
				pk = append(pk, spk)
			}
		}
		checkNoBlockingUnderLock(c, res, "O10.8", pk, func(string, string) bool { return true }, muxLockAllowed)
	}
	checkConfiguredLimit(c, res, "O10.9")
	res.RuleDoc["O10.11"] = "locks are paired (same analysis as O8.13): every Lock / RLock of the transport packages is released on every way out of its function and every Unlock is preceded by its Lock - a leaked session-table or connection-map lock parks every later session change and dial"
	checkLockPairing(c, res, "O10.11", []string{"transport/mux", "transport/mux/session"}, 6)
	res.RuleDoc["O10.12"] = "silent death is detected: both session factories hand yamux a config with keep-alive enabled (yamux.DefaultConfig(), or a literal with EnableKeepAlive = true, never switched off) - the keep-alive goroutine is the only code that closes a session whose peer stopped answering"
	checkYamuxKeepAlive(c, res, "O10.12")
	res.RuleDoc["O10.14"] = "a connection that failed its first ping gives its permit back: every function of the module that returns its named error result has assigned it somewhere (same analysis as O11.10) - a shadowed err makes the connect loop register a session that never answered and keep its slot"
	checkNamedErrorResultAssigned(c, res, "O10.14", 4)
	res.RuleDoc["O10.13"] = "the providers' single accept / dial loop cannot be parked by one peer: the TLS wrappers only construct the connection (tls.Server / tls.Client) and nothing in transport/mux runs the handshake itself, so it happens under yamux's first ping and its write timeout"
	checkLazyTLSWrappers(c, res, "O10.13")
	res.RuleDoc["O10.10"] = "no swallowed error in the files the mechanism lives in: no function returns a nil error on a path on which an error obtained from a call is known to be non-nil (io.EOF from a stream Recv, the normal end of a receive loop, is the one accepted idiom)"
	checkNoSwallowedErrors(c, res, "O10.10", []string{"transport/mux/provider.go", "transport/mux/multi_mux_manager.go", "transport/mux/receiver.go", "transport/mux/establisher.go", "transport/mux/grpc_mux_manager.go", "transport/mux/session/managed_mux_session.go"})
	return res, nil
}

// connectLoop returns the goroutine closure of (*muxProvider).Start that holds the connect loop.
func connectLoop(c *Ctx, res *report.Result) *ssa.Function {
	start := resolve(c, res, "O10.1", anchor{"transport/mux", "*muxProvider", "Start"})
	if start == nil {
		return nil
	}
	for _, a := range flow.AnonFuncsDeep(start) {
		if len(flow.FindCalls(a, func(cc *ssa.CallCommon) bool { return flow.IsCallTo(cc, semPkg, "Weighted", "Acquire") })) > 0 {
			return a
		}
	}
	res.Undec("O10.1", "muxProvider.Start: connect loop", fnPos(c.Prog, start), "no closure acquiring muxPermits found")
	return nil
}

func checkConnectLoop(c *Ctx, res *report.Result, f *ssa.Function) {
	acqs := flow.FindCalls(f, func(cc *ssa.CallCommon) bool { return flow.IsCallTo(cc, semPkg, "Weighted", "Acquire") })
	if len(acqs) != 1 {
		res.Undec("O10.1", "connect loop: Acquire", fnPos(c.Prog, f), fmt.Sprintf("%d Acquire calls", len(acqs)))
		return
	}
	acq := acqs[0].(*ssa.Call)
	isAcquire := func(ins ssa.Instruction) bool { return ins == ssa.Instruction(acq) }
	isRelease := func(ins ssa.Instruction) bool {
		call, ok := ins.(ssa.CallInstruction)
		if !ok || !flow.IsCallTo(call.Common(), semPkg, "Weighted", "Release") {
			return false
		}
		_, fld, ok := flow.FieldLoadOf(call.Common().Args[0])
		return ok && fld == "muxPermits"
	}
	isHandover := func(ins ssa.Instruction) bool { _, ok := isFieldCall(ins, "addNewMux"); return ok }
	isPermitDischarge := func(ins ssa.Instruction) bool { return isRelease(ins) || isHandover(ins) }
	succ := successSucc(f, ssa.Value(acq))
	pos := instrPos(c.Prog, acq)
	// acquire takes the provider's lifetime and weight 1
	okArgs := len(acq.Call.Args) == 3
	if okArgs {
		if _, fld, ok := flow.FieldLoadOf(acq.Call.Args[1]); !ok || fld != "lifetime" {
			okArgs = false
		}
		if n, ok := flow.ConstInt(acq.Call.Args[2]); !ok || n != 1 {
			okArgs = false
		}
	}
	res.Check(okArgs, "O10.1", "connect loop: Acquire(lifetime, 1) before connecting", pos, "one permit per connection attempt, cancellable by the lifetime", "the loop does not acquire exactly one permit bound to the provider's lifetime")
	// (a) back to the loop head without discharge
	checkDischarge(c, res, dischargeSpec{rule: "O10.1", construct: "connect loop: permit returned or handed over before the next iteration", f: f, start: succ,
		isDischarge: isPermitDischarge, isEnd: isAcquire, pos: pos,
		okDetail: "every path from a successful Acquire to the next Acquire passes Release(1) or addNewMux",
		what:     "a path re-enters the loop still holding the permit: the slot is lost and the pool can never return to full strength"})
	// (b) return without discharge outside shutdown
	checkDischarge(c, res, dischargeSpec{rule: "O10.1", construct: "connect loop: a held permit is dropped only when the lifetime is over", f: f, start: succ,
		isDischarge: isPermitDischarge, isEnd: flow.IsReturn, pos: pos,
		exemptEdge: func(a, b *ssa.BasicBlock) bool { return ctxDoneClasses(edgeClasses(a, b)) },
		okDetail:   "returns without Release only under lifetime.Err() != nil",
		what:       "the goroutine can exit holding a permit although the provider is not shutting down"})
	// (c) exactly once: after a discharge no second discharge without a new Acquire
	twice := ""
	for _, b := range f.Blocks {
		for _, ins := range b.Instrs {
			if !isPermitDischarge(ins) {
				continue
			}
			r := flow.FindPath(flow.After(ins), isPermitDischarge, isAcquire, nil)
			if r.Found {
				twice = instrPos(c.Prog, ins) + " then " + instrPos(c.Prog, r.End)
			}
		}
	}
	res.Check(twice == "", "O10.1", "connect loop: a permit is returned at most once per acquire", pos, "no two releases/hand-overs without an Acquire in between", "a permit is released twice for one acquire ("+twice+"): the pool grows beyond the configured count")

	// ---- O10.4 connection and session
	var connCall, sessCall *ssa.Call
	for _, call := range flow.Calls(f) {
		cc := call.Common()
		if cc.IsInvoke() && cc.Method.Name() == "NewConnection" {
			connCall, _ = call.(*ssa.Call)
		}
		if fc, ok := isFieldCall(call, "sessionFn"); ok {
			sessCall, _ = fc.(*ssa.Call)
		}
	}
	endLoopOrReturn := func(ins ssa.Instruction) bool { return isAcquire(ins) || flow.IsReturn(ins) }
	if connCall == nil {
		res.Undec("O10.4", "connect loop: NewConnection call", fnPos(c.Prog, f), "not found")
	} else {
		var conn ssa.Value
		for _, r := range *connCall.Referrers() {
			if ex, ok := r.(*ssa.Extract); ok && ex.Index == 0 {
				conn = ex
			}
		}
		checkDischarge(c, res, dischargeSpec{rule: "O10.4", construct: "connect loop: connection from NewConnection is closed or handed over", f: f,
			start: successSucc(f, errResultOf(connCall)), pos: instrPos(c.Prog, connCall),
			isDischarge: func(ins ssa.Instruction) bool {
				if isCloseOf(ins, conn) {
					return true
				}
				if fc, ok := isFieldCall(ins, "addNewMux"); ok {
					for _, a := range fc.Common().Args {
						if flow.Strip(a) == conn {
							return true
						}
					}
				}
				return false
			},
			isEnd:    endLoopOrReturn,
			okDetail: "every path from a successful NewConnection to the next iteration or a return closes the connection or passes it to addNewMux",
			what:     "a live connection is dropped without Close (no exemption for shutdown: the socket must be closed there too)"})
	}
	if sessCall == nil {
		res.Undec("O10.4", "connect loop: sessionFn call", fnPos(c.Prog, f), "not found")
	} else {
		var sess ssa.Value
		for _, r := range *sessCall.Referrers() {
			if ex, ok := r.(*ssa.Extract); ok && ex.Index == 0 {
				sess = ex
			}
		}
		checkDischarge(c, res, dischargeSpec{rule: "O10.4", construct: "connect loop: session from sessionFn is closed or handed over", f: f,
			start: successSucc(f, errResultOf(sessCall)), pos: instrPos(c.Prog, sessCall),
			isDischarge: func(ins ssa.Instruction) bool {
				if isCloseOf(ins, sess) {
					return true
				}
				if fc, ok := isFieldCall(ins, "addNewMux"); ok {
					for _, a := range fc.Common().Args {
						if flow.Strip(a) == sess {
							return true
						}
					}
				}
				return false
			},
			isEnd:    endLoopOrReturn,
			okDetail: "every path from a successful sessionFn to the next iteration or a return closes the session or passes it to addNewMux",
			what:     "a yamux session (and its goroutines) is dropped without Close"})
	}
}

func checkSessionLifecycle(c *Ctx, res *report.Result) {
	rule := "O10.2"
	add := resolve(c, res, rule, anchor{"transport/mux", "*multiMuxManager", "AddConnection"})
	if add != nil {
		mk := flow.FindCalls(add, func(cc *ssa.CallCommon) bool { return flow.IsCallTo(cc, sessPkg, "", "NewManagedMuxSession") })
		if len(mk) != 1 {
			res.Undec(rule, "AddConnection: NewManagedMuxSession call", fnPos(c.Prog, add), fmt.Sprintf("%d calls", len(mk)))
		} else {
			args := mk[0].Common().Args
			cb, _ := closureFn(args[len(args)-1])
			ok := cb != nil
			why := "the shutdown callback is not a closure the checker can read"
			if ok {
				nUnreg := len(flow.FindCalls(cb, func(cc *ssa.CallCommon) bool { return flow.IsCallTo(cc, muxPkg, "multiMuxManager", "unregisterMux") }))
				allow := flow.FindCalls(cb, func(cc *ssa.CallCommon) bool { return cc.IsInvoke() && cc.Method.Name() == "AllowMoreConns" })
				okAmt := len(allow) == 1
				if okAmt {
					if n, isN := flow.ConstInt(allow[0].Common().Args[0]); !isN || n != 1 {
						okAmt = false
					}
				}
				if nUnreg != 1 || !okAmt {
					ok, why = false, fmt.Sprintf("the callback calls unregisterMux %d time(s) and AllowMoreConns(1) %v", nUnreg, okAmt)
				}
				// both on every path of the callback
				for _, call := range append(flow.FindCalls(cb, func(cc *ssa.CallCommon) bool { return flow.IsCallTo(cc, muxPkg, "multiMuxManager", "unregisterMux") }), allow...) {
					r := flow.FindPath(flow.Point{Block: cb.Blocks[0]}, flow.IsReturn, func(x ssa.Instruction) bool { return x == ssa.Instruction(call) }, nil)
					if r.Found {
						ok, why = false, "the callback can return without "+flow.CalleeName(call.Common())
					}
				}
			}
			res.Check(ok, rule, "AddConnection: session callback unregisters the mux and returns exactly one permit", instrPos(c.Prog, mk[0]), "unregisterMux(id); AllowMoreConns(1)", why)
			// session and conn are the parameters
			okArgs := len(args) >= 4 && flow.Strip(args[2]) == ssa.Value(add.Params[1]) && flow.Strip(args[3]) == ssa.Value(add.Params[2])
			res.Check(okArgs, rule, "AddConnection: the managed session wraps the given session and connection", instrPos(c.Prog, mk[0]), "ok", "the managed session is built from other values than the handed-over session/connection")
		}
	}
	wc := resolve(c, res, rule, anchor{"transport/mux/session", "", "waitAndCleanup"})
	if wc != nil {
		type step struct {
			name string
			pred func(ssa.CallInstruction, ssa.Value) bool
		}
		steps := []step{
			{"s.cancel()", func(ci ssa.CallInstruction, _ ssa.Value) bool { _, ok := isFieldCall(ci, "cancel"); return ok }},
			{"s.session.Close()", func(ci ssa.CallInstruction, _ ssa.Value) bool {
				cc := ci.Common()
				if cal := flow.StaticCallee(cc); cal != nil && cal.Name() == "Close" && cal.Signature.Recv() != nil && flow.NamedIs(cal.Signature.Recv().Type(), "github.com/hashicorp/yamux", "Session") {
					_, fld, ok := flow.FieldLoadOf(cc.Args[0])
					return ok && fld == "session"
				}
				return false
			}},
			{"s.conn.Close()", func(ci ssa.CallInstruction, _ ssa.Value) bool {
				cc := ci.Common()
				if cc.IsInvoke() && cc.Method.Name() == "Close" {
					_, fld, ok := flow.FieldLoadOf(cc.Value)
					return ok && fld == "conn"
				}
				return false
			}},
			{"afterShutdown()", func(ci ssa.CallInstruction, cb ssa.Value) bool {
				cc := ci.Common()
				return cb != nil && !cc.IsInvoke() && cc.Value == cb
			}},
		}
		// onEveryPath: fn executes a call satisfying pred before every return
		onEveryPath := func(fn *ssa.Function, pred func(ssa.CallInstruction) bool) bool {
			found := false
			isHit := func(x ssa.Instruction) bool {
				ci, ok := x.(ssa.CallInstruction)
				if _, isGo := x.(*ssa.Go); isGo || !ok {
					return false
				}
				return pred(ci)
			}
			for _, call := range flow.Calls(fn) {
				if isHit(call) {
					found = true
				}
			}
			if !found {
				return false
			}
			return !flow.FindPath(flow.Point{Block: fn.Blocks[0]}, flow.IsReturn, isHit, nil).Found
		}
		for _, st := range steps {
			st := st
			ok := onEveryPath(wc, func(ci ssa.CallInstruction) bool {
				if st.pred(ci, wc.Params[1]) {
					return true
				}
				// a helper of the same package that is handed the session (and the callback) and performs the step on
				// every one of its paths stands for it
				h := flow.StaticCallee(ci.Common())
				if _, isCall := ci.(*ssa.Call); !isCall || h == nil || h.Pkg != wc.Pkg || len(h.Blocks) == 0 || h == wc {
					return false
				}
				var cb ssa.Value
				sess := false
				for j, a := range ci.Common().Args {
					if a == ssa.Value(wc.Params[1]) && j < len(h.Params) {
						cb = h.Params[j]
					}
					if a == ssa.Value(wc.Params[0]) {
						sess = true
					}
				}
				return sess && onEveryPath(h, func(ci2 ssa.CallInstruction) bool { return st.pred(ci2, cb) })
			})
			res.Check(ok, rule, "waitAndCleanup: "+st.name+" on every path", fnPos(c.Prog, wc), "executed before the function returns on every path", "waitAndCleanup can finish without "+st.name+": a dead session would keep its socket or its permit")
		}
	}
	nm := resolve(c, res, rule, anchor{"transport/mux/session", "", "NewManagedMuxSession"})
	if nm != nil {
		var goCall ssa.Instruction
		okArg := false
		for _, b := range nm.Blocks {
			for _, ins := range b.Instrs {
				if g, ok := ins.(*ssa.Go); ok && flow.IsCallTo(&g.Call, sessPkg, "", "waitAndCleanup") {
					goCall = g
					if len(g.Call.Args) == 2 && g.Call.Args[1] == ssa.Value(nm.Params[len(nm.Params)-1]) {
						okArg = true
					}
				}
			}
		}
		ok := goCall != nil && okArg
		if ok {
			r := flow.FindPath(flow.Point{Block: nm.Blocks[0]}, flow.IsReturn, func(x ssa.Instruction) bool { return x == goCall }, nil)
			ok = !r.Found
		}
		res.Check(ok, rule, "NewManagedMuxSession: starts waitAndCleanup(s, afterShutdown) on every path", fnPos(c.Prog, nm), "go waitAndCleanup(s, afterShutdown)", "a managed session can be created without its cleanup goroutine (or with another callback): its permit would never come back")
	}
}

func checkPoolGrowers(c *Ctx, res *report.Result, loop *ssa.Function) {
	rule := "O10.3"
	type site struct{ fn, what string }
	var releases, allows, inserts []string
	for _, f := range c.Prog.RepoFuncs() {
		if !isShippedFunc(f) {
			continue
		}
		for _, b := range f.Blocks {
			for _, ins := range b.Instrs {
				if call, ok := ins.(ssa.CallInstruction); ok {
					cc := call.Common()
					if flow.IsCallTo(cc, semPkg, "Weighted", "Release") {
						releases = append(releases, shortFn(f))
					}
					if (cc.IsInvoke() && cc.Method.Name() == "AllowMoreConns") || flow.IsCallTo(cc, muxPkg, "muxProvider", "AllowMoreConns") {
						allows = append(allows, shortFn(f))
					}
				}
				if mu, ok := ins.(*ssa.MapUpdate); ok {
					if _, fld, ok := flow.FieldLoadOf(mu.Map); ok && fld == "muxes" {
						inserts = append(inserts, shortFn(f))
					}
				}
			}
		}
	}
	allowedRelease := map[string]bool{"(*transport/mux.muxProvider).AllowMoreConns": true, "(*transport/mux.muxProvider).HasConnectionsAvailable": true}
	if loop != nil {
		allowedRelease[shortFn(loop)] = true
	}
	for _, r := range releases {
		res.Check(allowedRelease[r], rule, "Release site: "+r, "", "reviewed site", "semaphore permits are released by an unreviewed function: the number of live sessions can exceed the configured count")
	}
	if len(releases) < 3 {
		res.Undec(rule, "Release sites", "", fmt.Sprintf("%d Release call sites found, at least 5 confirmed by hand", len(releases)))
	}
	for _, a := range allows {
		res.Check(strings.Contains(a, "multiMuxManager).AddConnection$"), rule, "AllowMoreConns site: "+a, "", "the session shutdown callback", "AllowMoreConns is called outside the session shutdown callback")
	}
	if len(allows) == 0 {
		res.Viol(rule, "AllowMoreConns sites", "", "nothing ever returns the permit of a dead session")
	}
	for _, i := range inserts {
		res.Check(i == "(*transport/mux.multiMuxManager).AddConnection", rule, "session table insertion: "+i, "", "only AddConnection inserts", "a session enters the table outside AddConnection (without a held permit)")
	}
	if len(inserts) == 0 {
		res.Undec(rule, "session table insertions", "", "no insertion into muxes found")
	}
	// HasConnectionsAvailable: balanced try-acquire
	if f := resolve(c, res, rule, anchor{"transport/mux", "*muxProvider", "HasConnectionsAvailable"}); f != nil {
		try := flow.FindCalls(f, func(cc *ssa.CallCommon) bool { return flow.IsCallTo(cc, semPkg, "Weighted", "TryAcquire") })
		rel := flow.FindCalls(f, func(cc *ssa.CallCommon) bool { return flow.IsCallTo(cc, semPkg, "Weighted", "Release") })
		ok := len(try) == 1 && len(rel) == 1
		if ok {
			tv := try[0].(*ssa.Call)
			ok = guardedTrue(rel[0].Block(), tv)
			n1, _ := flow.ConstInt(try[0].Common().Args[1])
			n2, _ := flow.ConstInt(rel[0].Common().Args[1])
			if n1 != n2 {
				ok = false
			}
			// and released on every path of the success side
			succ := tv.Block().Succs[0]
			r := flow.FindPath(flow.Point{Block: succ}, flow.IsReturn, func(x ssa.Instruction) bool { return x == ssa.Instruction(rel[0]) }, nil)
			if r.Found {
				ok = false
			}
		}
		res.Check(ok, rule, "HasConnectionsAvailable: try-acquire is balanced by a release of the same weight", fnPos(c.Prog, f), "TryAcquire(1) -> Release(1)", "the probe changes the number of permits")
	}
	// AllowMoreConns releases exactly its argument
	if f := resolve(c, res, rule, anchor{"transport/mux", "*muxProvider", "AllowMoreConns"}); f != nil {
		rel := flow.FindCalls(f, func(cc *ssa.CallCommon) bool { return flow.IsCallTo(cc, semPkg, "Weighted", "Release") })
		res.Check(len(rel) == 1 && rel[0].Common().Args[1] == ssa.Value(f.Params[1]), rule, "AllowMoreConns releases exactly the requested amount", fnPos(c.Prog, f), "Release(amt)", "AllowMoreConns releases a different number of permits")
	}
}

func checkAddConnectionOwnership(c *Ctx, res *report.Result) {
	rule := "O10.4"
	f := resolve(c, res, rule, anchor{"transport/mux", "*multiMuxManager", "AddConnection"})
	if f == nil {
		return
	}
	sess, conn := ssa.Value(f.Params[1]), ssa.Value(f.Params[2])
	isManaged := func(ins ssa.Instruction) bool {
		call, ok := ins.(ssa.CallInstruction)
		return ok && flow.IsCallTo(call.Common(), sessPkg, "", "NewManagedMuxSession")
	}
	for _, r := range []struct {
		name string
		v    ssa.Value
	}{{"session", sess}, {"connection", conn}} {
		v := r.v
		checkDischarge(c, res, dischargeSpec{rule: rule, construct: "AddConnection: handed-over " + r.name + " is managed or closed", f: f, start: f.Blocks[0], pos: fnPos(c.Prog, f),
			isDischarge: func(ins ssa.Instruction) bool { return isManaged(ins) || isCloseOf(ins, v) },
			isEnd:       flow.IsReturn,
			okDetail:    "every path wraps it into a managed session or closes it",
			what:        "AddConnection can return without taking ownership of the " + r.name + " it was handed (the caller considers it handed over and will not close it): the socket and the yamux goroutines outlive shutdown"})
	}
	// the caller considers the permit handed over as well: declining the hand-over without giving the
	// permit back is acceptable only when the lifetime is over (the pool is shutting down)
	isAllow := func(ins ssa.Instruction) bool {
		call, ok := ins.(ssa.CallInstruction)
		return ok && ((call.Common().IsInvoke() && call.Common().Method.Name() == "AllowMoreConns") || flow.IsCallTo(call.Common(), muxPkg, "muxProvider", "AllowMoreConns"))
	}
	checkDischarge(c, res, dischargeSpec{rule: "O10.1", construct: "AddConnection: the permit travels with the session or is returned", f: f, start: f.Blocks[0], pos: fnPos(c.Prog, f),
		isDischarge: func(ins ssa.Instruction) bool { return isManaged(ins) || isAllow(ins) },
		isEnd:       flow.IsReturn,
		exemptEdge:  func(a, b *ssa.BasicBlock) bool { return ctxDoneClasses(edgeClasses(a, b)) },
		okDetail:    "every return either built the managed session (whose shutdown callback returns the permit) or lies on the lifetime-is-over side",
		what:        "AddConnection can decline a session outside shutdown without returning the permit the connect loop acquired for it (the loop treats addNewMux as the hand-over of the permit): the slot is lost and the pool never returns to full strength"})
	// the managed session is stored into the table
	stored := false
	for _, b := range f.Blocks {
		for _, ins := range b.Instrs {
			if mu, ok := ins.(*ssa.MapUpdate); ok {
				if _, fld, ok := flow.FieldLoadOf(mu.Map); ok && fld == "muxes" {
					if call, ok := mu.Value.(*ssa.Call); ok && flow.IsCallTo(&call.Call, sessPkg, "", "NewManagedMuxSession") {
						stored = true
					}
				}
			}
		}
	}
	res.Check(stored, rule, "AddConnection: the managed session is stored in the table", fnPos(c.Prog, f), "muxes[id] = NewManagedMuxSession(..)", "the managed session is not registered: onClose could not close it")
}

func checkReceiverAccept(c *Ctx, res *report.Result) {
	rule := "O10.4"
	f := resolve(c, res, rule, anchor{"transport/mux", "*receivingConnProvider", "NewConnection"})
	if f == nil {
		return
	}
	var acc *ssa.Call
	for _, call := range flow.Calls(f) {
		cc := call.Common()
		if cc.IsInvoke() && cc.Method.Name() == "Accept" {
			acc, _ = call.(*ssa.Call)
		}
	}
	if acc == nil {
		res.Undec(rule, "receivingConnProvider.NewConnection: Accept call", fnPos(c.Prog, f), "not found")
		return
	}
	var conn ssa.Value
	for _, r := range *acc.Referrers() {
		if ex, ok := r.(*ssa.Extract); ok && ex.Index == 0 {
			conn = ex
		}
	}
	errv := errResultOf(acc)
	// the connection is live unless err != nil or conn == nil is known
	isReturnOfConn := func(ins ssa.Instruction) bool {
		ret, ok := ins.(*ssa.Return)
		if !ok {
			return false
		}
		return valueDerivesFrom(flow.Ret(ret)[0], map[ssa.Value]bool{conn: true}, 0)
	}
	checkDischarge(c, res, dischargeSpec{rule: rule, construct: "receivingConnProvider.NewConnection: an accepted connection is returned or closed", f: f,
		start: acc.Block(), pos: instrPos(c.Prog, acc),
		isDischarge: func(ins ssa.Instruction) bool { return isCloseOf(ins, conn) || isReturnOfConn(ins) },
		isEnd:       flow.IsReturn,
		exemptEdge: func(a, b *ssa.BasicBlock) bool {
			for _, g := range flow.EdgeGuards(a, b) {
				bo, ok := g.Cond.(*ssa.BinOp)
				if !ok || (bo.Op != token.NEQ && bo.Op != token.EQL) {
					continue
				}
				x := flow.ResolveLoad(bo.X)
				if !flow.IsNilConst(bo.Y) {
					continue
				}
				isNil := (bo.Op == token.EQL) == g.Side
				if x == errv && !isNil {
					return true // Accept failed: no connection
				}
				if flow.Strip(x) == flow.Strip(conn) && isNil {
					return true
				}
			}
			return false
		},
		okDetail: "every path returns the accepted connection or closes it (paths on which Accept failed or the connection is nil are exempt)",
		what:     "a connection accepted while the lifetime ends is dropped without Close"})
}

func checkShutdownOrder(c *Ctx, res *report.Result) {
	rule := "O10.5"
	f := resolve(c, res, rule, anchor{"transport/mux", "*multiMuxManager", "onClose"})
	if f != nil {
		wait := flow.FindCalls(f, func(cc *ssa.CallCommon) bool { return cc.IsInvoke() && cc.Method.Name() == "WaitForClose" })
		closes := flow.FindCalls(f, func(cc *ssa.CallCommon) bool { return cc.IsInvoke() && cc.Method.Name() == "Close" })
		shut := flow.FindCalls(f, func(cc *ssa.CallCommon) bool { return cc.IsInvoke() && cc.Method.Name() == "Shutdown" })
		ok := len(wait) == 1 && len(closes) >= 1 && len(shut) == 1
		why := "expected WaitForClose, session Close and Shutdown calls"
		if ok {
			for _, cl := range closes {
				if !flow.InstrDominates(wait[0], cl) {
					ok, why = false, "sessions are closed before the provider has stopped: the connect loop could add a session after the sweep"
				}
				if !flow.HeldAt(f, cl, "muxesLock", true) {
					ok, why = false, "sessions are closed outside the table lock: a concurrent AddConnection could slip in"
				}
				// the Close receiver is the ranged map value of m.muxes
				recv := flow.Strip(cl.Common().Value)
				ex, isEx := recv.(*ssa.Extract)
				if !isEx || ex.Index != 2 {
					ok, why = false, "Close is not applied to every element of the session table"
				} else if nx, isN := ex.Tuple.(*ssa.Next); isN {
					if rg, isR := nx.Iter.(*ssa.Range); isR {
						if _, fld, okf := flow.FieldLoadOf(rg.X); !okf || fld != "muxes" {
							ok, why = false, "the sweep does not range over the session table"
						}
					}
				}
				if !flow.InstrDominates(cl, shut[0]) && !cl.Block().Dominates(shut[0].Block()) {
					// loop body does not dominate what follows the loop; require that the loop header does
					if nxBlock := cl.Block(); !flow.ReachBlock(nxBlock, shut[0].Block(), nil) {
						ok, why = false, "completion is signalled on a path that skips the sweep"
					}
				}
			}
			if !flow.InstrDominates(wait[0], shut[0]) {
				ok, why = false, "completion is signalled before the provider stopped"
			}
		}
		res.Check(ok, rule, "onClose: wait for the provider, close every session under the lock, then signal", fnPos(c.Prog, f), "WaitForClose -> Lock -> range muxes: Close -> Unlock -> Shutdown", why)
	}
	add := resolve(c, res, rule, anchor{"transport/mux", "*multiMuxManager", "AddConnection"})
	if add != nil {
		ok := false
		for _, call := range flow.Calls(add) {
			cc := call.Common()
			if cc.IsInvoke() && cc.Method.Name() == "Err" {
				if _, fld, okf := flow.FieldLoadOf(cc.Value); okf && fld == "lifetime" && flow.HeldAt(add, call, "muxesLock", true) {
					ok = true
				}
			}
		}
		res.Check(ok, rule, "AddConnection: lifetime is tested under the table lock", fnPos(c.Prog, add), "a session arriving after cancellation is refused in the same critical section in which onClose sweeps", "the lifetime test and the insertion are not in one critical section with onClose's sweep: a session could be inserted after the sweep and never closed")
		// insertion in the same section
		for _, b := range add.Blocks {
			for _, ins := range b.Instrs {
				if mu, isMU := ins.(*ssa.MapUpdate); isMU {
					if _, fld, okf := flow.FieldLoadOf(mu.Map); okf && fld == "muxes" {
						res.Check(flow.HeldAt(add, mu, "muxesLock", true), rule, "AddConnection: insertion under the table lock", instrPos(c.Prog, mu), "ok", "the session table is written without its lock")
					}
				}
			}
		}
	}
	_ = types.Typ
}

// checkSessionIDs: see O10.7.
func checkSessionIDs(c *Ctx, res *report.Result, rule string) {
	f := resolve(c, res, rule, anchor{"transport/mux", "*multiMuxManager", "AddConnection"})
	if f == nil {
		return
	}
	var ins *ssa.MapUpdate
	for _, b := range f.Blocks {
		for _, x := range b.Instrs {
			if mu, ok := x.(*ssa.MapUpdate); ok {
				if _, fld, okf := flow.FieldLoadOf(mu.Map); okf && fld == "muxes" {
					ins = mu
				}
			}
		}
	}
	if ins == nil {
		res.Undec(rule, "AddConnection: insertion into muxes", fnPos(c.Prog, f), "not found")
		return
	}
	// origin of the key: follow call arguments / conversions / slices of variadic args back to field loads or len()
	fields := map[string]ssa.Value{}
	usesLen := false
	seen := map[ssa.Value]bool{}
	var walk func(v ssa.Value, d int)
	walk = func(v ssa.Value, d int) {
		if v == nil || d > 12 || seen[v] {
			return
		}
		seen[v] = true
		if _, fld, ok := flow.FieldLoadOf(v); ok {
			if _, isConst := v.(*ssa.Const); !isConst {
				fields[fld] = v
			}
			return
		}
		switch x := v.(type) {
		case *ssa.Call:
			if bi, isB := x.Call.Value.(*ssa.Builtin); isB && bi.Name() == "len" {
				usesLen = true
				return
			}
			for _, a := range x.Call.Args {
				walk(a, d+1)
			}
		case *ssa.Convert:
			walk(x.X, d+1)
		case *ssa.ChangeType:
			walk(x.X, d+1)
		case *ssa.MakeInterface:
			walk(x.X, d+1)
		case *ssa.BinOp:
			walk(x.X, d+1)
			walk(x.Y, d+1)
		case *ssa.Slice:
			walk(x.X, d+1)
		case *ssa.Alloc:
			// variadic argument array: the values stored into its elements
			for _, r := range *x.Referrers() {
				if st, ok := r.(*ssa.Store); ok && st.Addr == ssa.Value(x) {
					walk(st.Val, d+1) // a local captured by a closure lives in a cell
				}
				if ia, ok := r.(*ssa.IndexAddr); ok {
					for _, rr := range *ia.Referrers() {
						if st, ok := rr.(*ssa.Store); ok {
							walk(st.Val, d+1)
						}
					}
				}
			}
		case *ssa.UnOp:
			walk(x.X, d+1)
		case *ssa.Phi:
			for _, e := range x.Edges {
				walk(e, d+1)
			}
		}
	}
	walk(ins.Key, 0)
	if usesLen {
		res.Viol(rule, "AddConnection: session id is never reused", instrPos(c.Prog, ins), "the id derives from len(...): the table shrinks when a session dies, so the next id equals that of a session that is still alive; the replacement overwrites it (one healthy session becomes unmanaged, the table stays one short, and its later cleanup removes the wrong entry)")
		return
	}
	okCounter := ""
	for fld := range fields {
		for _, b := range f.Blocks {
			for _, x := range b.Instrs {
				st, isSt := x.(*ssa.Store)
				if !isSt {
					continue
				}
				fa, isFA := st.Addr.(*ssa.FieldAddr)
				if !isFA || flow.FieldName(fa.X.Type(), fa.Field) != fld {
					continue
				}
				if bo, isB := st.Val.(*ssa.BinOp); isB && bo.Op == token.ADD {
					if k, isK := flow.ConstInt(bo.Y); isK && k == 1 && flow.HeldAt(f, st, "muxesLock", true) && flow.HeldAt(f, ins, "muxesLock", true) {
						okCounter = fld
					}
				}
			}
		}
	}
	res.Check(okCounter != "", rule, "AddConnection: session id is never reused", instrPos(c.Prog, ins), "id from "+okCounter+", incremented by one under muxesLock with every insertion", fmt.Sprintf("the inserted key does not derive from a field that is incremented in the same locked section (origins: %v): ids may repeat", sortedKeys(fields)))
}

// checkConfiguredLimit: see O10.9.
func checkConfiguredLimit(c *Ctx, res *report.Result, rule string) {
	f := resolve(c, res, rule, anchor{"transport/mux", "", "NewGRPCMuxManager"})
	if f == nil {
		return
	}
	n := 0
	for _, g := range append([]*ssa.Function{f}, flow.AnonFuncsDeep(f)...) {
		for _, call := range flow.Calls(g) {
			cal := flow.StaticCallee(call.Common())
			if cal == nil || (cal.Name() != "NewMuxEstablisherProvider" && cal.Name() != "NewMuxReceiverProvider") {
				continue
			}
			// the size argument: int64(muxCount)
			var size ssa.Value
			for _, a := range call.Common().Args {
				if cv, ok := a.(*ssa.Convert); ok && types.Identical(cv.Type().Underlying(), types.Typ[types.Int64]) {
					size = cv.X
				}
			}
			if size == nil {
				continue
			}
			n++
			v := flow.Strip(flow.ResolveLoad(size))
			if fv, isFV := v.(*ssa.FreeVar); isFV {
				if bnd := freeVarBinding(fv); bnd != nil {
					v = flow.Strip(flow.ResolveLoad(bnd))
				}
			}
			ok := false
			why := "the pool size is not `cd.MuxCount if set, else a default`: " + flow.Describe(v)
			// candidate values with the guards under which they are chosen: phi edges, or the stores into a cell
			type cand struct {
				val ssa.Value
				gs  []flow.Guard
			}
			var cands []cand
			if phi, isPhi := v.(*ssa.Phi); isPhi {
				for i, e := range phi.Edges {
					cands = append(cands, cand{e, flow.NormGuards(flow.EdgeGuards(phi.Block().Preds[i], phi.Block()))})
				}
			} else {
				var cell *ssa.Alloc
				if ld, isLd := v.(*ssa.UnOp); isLd && ld.Op == token.MUL {
					switch y := ld.X.(type) {
					case *ssa.Alloc:
						cell = y
					case *ssa.FreeVar:
						cell, _ = freeVarBinding(y).(*ssa.Alloc)
					}
				}
				if cell != nil {
					for _, r := range *cell.Referrers() {
						if st, isSt := r.(*ssa.Store); isSt && st.Addr == ssa.Value(cell) {
							cands = append(cands, cand{st.Val, flow.NormGuards(flow.Guards(st.Block()))})
						}
					}
				}
			}
			if len(cands) > 0 {
				okAll := true
				sawField := false
				for _, cd := range cands {
					e := cd.val
					if _, isC := flow.ConstInt(e); isC {
						continue // default
					}
					p, _ := flow.FieldPath(e)
					if !strings.HasSuffix(p, ".MuxCount") {
						okAll = false
						why = "the pool size can come from " + p
						continue
					}
					sawField = true
					good := false
					for _, gd := range cd.gs {
						bo, isB := gd.Cond.(*ssa.BinOp)
						if !isB {
							continue
						}
						k, isK := flow.ConstInt(bo.Y)
						px, _ := flow.FieldPath(bo.X)
						if !isK || !strings.HasSuffix(px, ".MuxCount") {
							continue
						}
						if k == 0 && ((bo.Op == token.NEQ && gd.Side) || (bo.Op == token.GTR && gd.Side) || (bo.Op == token.EQL && !gd.Side) || (bo.Op == token.LEQ && !gd.Side)) {
							good = true
						}
						if k == 1 && ((bo.Op == token.GEQ && gd.Side) || (bo.Op == token.LSS && !gd.Side)) {
							good = true
						}
						if !good {
							why = fmt.Sprintf("the configured count is used only under (%s) = %v: a set value outside that range (e.g. 1) is replaced by the default", flow.Describe(gd.Cond), gd.Side)
						}
					}
					if !good {
						okAll = false
					}
				}
				ok = okAll && sawField
			}
			res.Check(ok, rule, fmt.Sprintf("NewGRPCMuxManager: pool size of %s is the configured MuxCount whenever it is set", cal.Name()), instrPos(c.Prog, call), "phi(default under MuxCount == 0, cd.MuxCount otherwise)", why)
		}
	}
	if n < 2 {
		res.Undec(rule, "NewGRPCMuxManager: provider constructions", fnPos(c.Prog, f), fmt.Sprintf("%d found, 2 confirmed by hand", n))
	}
}
