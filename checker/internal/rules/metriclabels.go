package rules

import (
	"fmt"
	"go/types"
	"sort"
	"strings"

	"golang.org/x/tools/go/ssa"

	"s2scheck/internal/flow"
	"s2scheck/internal/report"
)

// checkMetricLabelArity: prometheus panics ("inconsistent label cardinality") when WithLabelValues is called with
// a number of values other than the number of labels the vector was declared with. For every vector of package
// metrics built by Default{Counter,Gauge,Histogram}Vec the label count is computed from the package initialiser
// (array literals, append of literals, label slices shared through package variables), and every WithLabelValues
// call of the module on that vector with an explicit argument list must pass exactly that many. WithLabelValues is
// variadic, so a call site that was not updated when a label was added still compiles - and panics the first time
// its branch runs (in the codec: instead of returning the repair error).
func metricVectorLabels(c *Ctx, res *report.Result, rule string) (map[*ssa.Global]int, func(ssa.Value, int) (int, bool)) {
	mp, err := c.Prog.SSAPkg("metrics")
	if err != nil {
		res.Undec(rule, "package metrics", "", err.Error())
		return nil, nil
	}
	init := mp.Func("init")
	if init == nil {
		res.Undec(rule, "package metrics", "", "no initialiser")
		return nil, nil
	}
	// stores into package variables, by variable
	stored := map[*ssa.Global]ssa.Value{}
	for _, b := range init.Blocks {
		for _, ins := range b.Instrs {
			if st, ok := ins.(*ssa.Store); ok {
				if g, isG := st.Addr.(*ssa.Global); isG {
					stored[g] = st.Val
				}
			}
		}
	}
	var count func(v ssa.Value, d int) (int, bool)
	count = func(v ssa.Value, d int) (int, bool) {
		if d > 6 || v == nil {
			return 0, false
		}
		switch x := v.(type) {
		case *ssa.Const:
			return 0, x.IsNil()
		case *ssa.Slice:
			if al, ok := x.X.(*ssa.Alloc); ok {
				if pt, ok := al.Type().Underlying().(*types.Pointer); ok {
					if at, ok := pt.Elem().Underlying().(*types.Array); ok {
						return int(at.Len()), true
					}
				}
			}
			return count(x.X, d+1)
		case *ssa.UnOp:
			if g, ok := x.X.(*ssa.Global); ok {
				return count(stored[g], d+1)
			}
		case *ssa.Call:
			if bi, ok := x.Call.Value.(*ssa.Builtin); ok && bi.Name() == "append" {
				a, oka := count(x.Call.Args[0], d+1)
				b, okb := count(x.Call.Args[1], d+1)
				return a + b, oka && okb
			}
		}
		return 0, false
	}
	labels := map[*ssa.Global]int{}
	for g, v := range stored {
		call, ok := v.(*ssa.Call)
		if !ok {
			continue
		}
		sc := flow.StaticCallee(&call.Call)
		if sc == nil || !strings.HasPrefix(sc.Name(), "Default") || !strings.HasSuffix(sc.Name(), "Vec") || len(call.Call.Args) < 3 {
			continue
		}
		if n, okn := count(call.Call.Args[2], 0); okn {
			labels[g] = n
		} else {
			res.Undec(rule, "metrics."+g.Name()+": number of labels", c.Prog.Pos(g.Pos()), "the label list of this vector could not be counted from the initialiser")
		}
	}
	if len(labels) < 10 {
		res.Undec(rule, "metric vectors of package metrics", "", fmt.Sprintf("%d vectors with a countable label list, at least 10 expected", len(labels)))
	}
	return labels, count
}

func checkMetricLabelArity(c *Ctx, res *report.Result, rule string, files []string, minSites int) {
	labels, count := metricVectorLabels(c, res, rule)
	if labels == nil {
		return
	}
	// call sites
	n := 0
	var fs []*ssa.Function
	for _, f := range c.Prog.RepoFuncs() {
		if !isShippedFunc(f) || len(f.Blocks) == 0 {
			continue
		}
		pos := c.Prog.Pos(f.Pos())
		for _, fl := range files {
			if strings.HasPrefix(pos, fl) {
				fs = append(fs, f)
				break
			}
		}
	}
	sort.Slice(fs, func(i, j int) bool { return fs[i].String() < fs[j].String() })
	seen := map[string]int{}
	for _, f := range fs {
		for _, call := range flow.Calls(f) {
			sc := flow.StaticCallee(call.Common())
			if sc == nil || sc.Name() != "WithLabelValues" || len(call.Common().Args) < 2 {
				continue
			}
			ld, ok := call.Common().Args[0].(*ssa.UnOp)
			if !ok {
				continue
			}
			g, ok := ld.X.(*ssa.Global)
			if !ok {
				continue
			}
			want, known := labels[g]
			if !known {
				continue
			}
			got, explicit := count(call.Common().Args[1], 0)
			if !explicit {
				continue // values passed as a slice built elsewhere (metricLabelValues...)
			}
			n++
			k := shortFn(f) + ": " + g.Name()
			seen[k]++
			res.Check(got == want, rule, fmt.Sprintf("%s.WithLabelValues #%d passes as many values as the vector has labels", k, seen[k]), instrPos(c.Prog, call), fmt.Sprintf("%d of %d", got, want), fmt.Sprintf("%d values for a vector declared with %d labels: prometheus panics with 'inconsistent label cardinality' when this line runs - on the codec's repair path that replaces the error the caller was to get by a panic in the goroutine that receives from the stream", got, want))
		}
	}
	if n < minSites {
		res.Undec(rule, "WithLabelValues call sites", "", fmt.Sprintf("%d found with an explicit value list, at least %d expected", n, minSites))
	}
}

// checkMetricLabelSpread: the stream handlers pass their label values as a slice kept in a struct field
// (`f.metricLabelValues...`, `append(f.metricLabelValues, "source")...`), whose length is fixed where the proxy is
// wired together. Every such call site implies a length of that slice: the vector's label count minus the values
// appended at the site. All sites that spread the same field must imply the same length - whatever it is, an object
// cannot satisfy two different ones, so a disagreement is a line that panics when it runs (prometheus: "inconsistent
// label cardinality"). In the forwarder's goroutines that panic is outside the handler's CapturePanic: the process,
// and with it every other stream, ends.
func checkMetricLabelSpread(c *Ctx, res *report.Result, rule string, files []string, minSites int) {
	labels, count := metricVectorLabels(c, res, rule)
	if labels == nil {
		return
	}
	type site struct {
		f       *ssa.Function
		call    ssa.CallInstruction
		g       *ssa.Global
		implied int
		extra   int
	}
	byBase := map[string][]site{}
	baseOf := func(v ssa.Value) (string, bool) {
		base, field, ok := flow.FieldLoadOf(v)
		if !ok {
			return "", false
		}
		t := base.Type()
		if pt, isP := t.Underlying().(*types.Pointer); isP {
			t = pt.Elem()
		}
		return types.TypeString(t, func(p *types.Package) string { return p.Name() }) + "." + field, true
	}
	n := 0
	for _, f := range c.Prog.RepoFuncs() {
		if !isShippedFunc(f) || len(f.Blocks) == 0 {
			continue
		}
		pos := c.Prog.Pos(f.Pos())
		in := false
		for _, fl := range files {
			if strings.HasPrefix(pos, fl) {
				in = true
			}
		}
		if !in {
			continue
		}
		for _, call := range flow.Calls(f) {
			sc := flow.StaticCallee(call.Common())
			if sc == nil || sc.Name() != "WithLabelValues" || len(call.Common().Args) < 2 {
				continue
			}
			ld, ok := call.Common().Args[0].(*ssa.UnOp)
			if !ok {
				continue
			}
			g, ok := ld.X.(*ssa.Global)
			if !ok {
				continue
			}
			want, known := labels[g]
			if !known {
				continue
			}
			arg := call.Common().Args[1]
			if _, explicit := count(arg, 0); explicit {
				continue
			}
			extra := 0
			for d := 0; d < 4; d++ {
				ap, isCall := arg.(*ssa.Call)
				if !isCall {
					break
				}
				bi, isB := ap.Call.Value.(*ssa.Builtin)
				if !isB || bi.Name() != "append" {
					break
				}
				k, okk := count(ap.Call.Args[1], 0)
				if !okk {
					extra = -1
					break
				}
				extra += k
				arg = ap.Call.Args[0]
			}
			key, isField := baseOf(arg)
			if extra < 0 || !isField {
				continue // a slice built some other way: not decided here
			}
			n++
			byBase[key] = append(byBase[key], site{f, call, g, want - extra, extra})
		}
	}
	var keys []string
	for k := range byBase {
		keys = append(keys, k)
	}
	sort.Strings(keys)
	for _, key := range keys {
		sites := byBase[key]
		votes := map[int]int{}
		for _, s := range sites {
			votes[s.implied]++
		}
		best, bestN := 0, -1
		for v, k := range votes {
			if k > bestN || (k == bestN && v < best) {
				best, bestN = v, k
			}
		}
		sort.Slice(sites, func(i, j int) bool {
			if sites[i].f != sites[j].f {
				return sites[i].f.String() < sites[j].f.String()
			}
			return sites[i].call.Pos() < sites[j].call.Pos()
		})
		seen := map[string]int{}
		for _, s := range sites {
			k := shortFn(s.f) + ": " + s.g.Name()
			seen[k]++
			res.Check(s.implied == best, rule, fmt.Sprintf("%s.WithLabelValues(%s...) #%d agrees with the other sites on the length of %s", k, key, seen[k], key), instrPos(c.Prog, s.call),
				fmt.Sprintf("%d labels - %d appended = %d, like %d of %d sites", labels[s.g], s.extra, s.implied, bestN, len(sites)),
				fmt.Sprintf("this site needs %s to hold %d values (%d labels - %d appended), %d of the %d sites that spread the same field need %d: no object satisfies both, so one of them panics with 'inconsistent label cardinality' when it runs - in a stream worker that is outside the handler's panic capture and ends the process", key, s.implied, labels[s.g], s.extra, bestN, len(sites), best))
		}
	}
	if n < minSites {
		res.Undec(rule, "WithLabelValues call sites that spread a label slice field", "", fmt.Sprintf("%d found, at least %d expected", n, minSites))
	}
}

func init() {
	Registry["XLBL"] = func(c *Ctx) (*report.Result, error) {
		res := newResult("XLBL")
		checkMetricLabelSpread(c, res, "X.spread", []string{"proxy/", "transport/", "interceptor/", "proto/"}, 0)
		return res, nil
	}
}
