package rules

import (
	"fmt"
	"go/token"
	"go/types"
	"sort"
	"strings"

	"golang.org/x/tools/go/ssa"

	"s2scheck/internal/flow"
	"s2scheck/internal/report"
)

// naturalLoops: header -> blocks of the natural loops of f (back edge b -> h with h dominating b; the body is every
// block that reaches b without passing h).
func naturalLoops(f *ssa.Function) map[*ssa.BasicBlock]map[*ssa.BasicBlock]bool {
	out := map[*ssa.BasicBlock]map[*ssa.BasicBlock]bool{}
	for _, b := range f.Blocks {
		for _, h := range b.Succs {
			if !h.Dominates(b) {
				continue
			}
			body := out[h]
			if body == nil {
				body = map[*ssa.BasicBlock]bool{h: true}
				out[h] = body
			}
			work := []*ssa.BasicBlock{b}
			for len(work) > 0 {
				x := work[len(work)-1]
				work = work[:len(work)-1]
				if body[x] {
					continue
				}
				body[x] = true
				work = append(work, x.Preds...)
			}
		}
	}
	return out
}

// cellStores: every store to the cell `al` in the function that owns it and in the closures that capture it.
func cellStores(al *ssa.Alloc) []*ssa.Store {
	var out []*ssa.Store
	owner := al.Parent()
	for _, fn := range append([]*ssa.Function{owner}, flow.AnonFuncsDeep(owner)...) {
		for _, b := range fn.Blocks {
			for _, ins := range b.Instrs {
				st, ok := ins.(*ssa.Store)
				if !ok {
					continue
				}
				addr := st.Addr
				if fv, isF := addr.(*ssa.FreeVar); isF {
					addr = freeVarBinding(fv)
				}
				if addr == ssa.Value(al) {
					out = append(out, st)
				}
			}
		}
	}
	return out
}

// positionIn: the instruction of `in` at which `ins` happens: ins itself when it belongs to `in`, otherwise the
// MakeClosure (in `in`) of the closure - possibly nested - that holds ins.
func positionIn(ins ssa.Instruction, in *ssa.Function) ssa.Instruction {
	fn := ins.Parent()
	if fn == in {
		return ins
	}
	for fn != nil && fn.Parent() != in {
		fn = fn.Parent()
	}
	if fn == nil {
		return nil
	}
	for _, b := range in.Blocks {
		for _, x := range b.Instrs {
			if mc, ok := x.(*ssa.MakeClosure); ok && mc.Fn == ssa.Value(fn) {
				return mc
			}
		}
	}
	return nil
}

// checkRegistryChanFresh (O8.18): the delivery channel of a shard is looked up for every hand-over. The registry
// entry is replaced when a newer incarnation of the stream registers, and the older incarnation's channel stays open
// (and buffered) until that incarnation has wound down - so a consumer that keeps a looked-up channel in a variable
// across iterations keeps feeding the dead incarnation's buffer until its close makes the send panic, and what it
// put there is lost. Decided on SSA: the channel operand of every send (statement or select arm) that can hold a
// result of GetRemoteSendChan / GetLocalAckChan is that call's own result (through a variable stored exactly once,
// before the use), never a loop-carried value, and no loop contains the send without containing the lookup.
func checkRegistryChanFresh(c *Ctx, res *report.Result, rule string, minInstances int) {
	isLookup := func(v ssa.Value) *ssa.Call {
		ex, ok := v.(*ssa.Extract)
		if !ok || ex.Index != 0 {
			return nil
		}
		call, ok := ex.Tuple.(*ssa.Call)
		if !ok {
			return nil
		}
		if flow.IsCallTo(&call.Call, proxyPkg, "shardManagerImpl", "GetRemoteSendChan") || flow.IsCallTo(&call.Call, proxyPkg, "shardManagerImpl", "GetLocalAckChan") {
			return call
		}
		if call.Call.IsInvoke() && (call.Call.Method.Name() == "GetRemoteSendChan" || call.Call.Method.Name() == "GetLocalAckChan") {
			return call
		}
		return nil
	}
	type origin struct {
		lookups []*ssa.Call
		stale   string // why the value can be older than the latest lookup
		other   bool
	}
	var trace func(v ssa.Value, use ssa.Instruction, o *origin, seen map[ssa.Value]bool)
	trace = func(v ssa.Value, use ssa.Instruction, o *origin, seen map[ssa.Value]bool) {
		if v == nil || seen[v] {
			return
		}
		seen[v] = true
		if call := isLookup(v); call != nil {
			o.lookups = append(o.lookups, call)
			return
		}
		switch x := v.(type) {
		case *ssa.Const:
			return
		case *ssa.FreeVar:
			trace(freeVarBinding(x), use, o, seen)
		case *ssa.ChangeType:
			trace(x.X, use, o, seen)
		case *ssa.MakeInterface:
			trace(x.X, use, o, seen)
		case *ssa.Phi:
			loops := naturalLoops(x.Parent())
			if _, isHeader := loops[x.Block()]; isHeader {
				sub := &origin{}
				for _, e := range x.Edges {
					trace(e, use, sub, seen)
				}
				if len(sub.lookups) > 0 {
					o.lookups = append(o.lookups, sub.lookups...)
					o.stale = "the channel is carried round the loop in a variable: an iteration can use the result of a lookup made in an earlier one"
				}
				o.other = o.other || sub.other
				return
			}
			for _, e := range x.Edges {
				trace(e, use, o, seen)
			}
		case *ssa.UnOp:
			if x.Op != token.MUL {
				o.other = true
				return
			}
			addr := x.X
			if fv, isF := addr.(*ssa.FreeVar); isF {
				addr = freeVarBinding(fv)
			}
			al, isA := addr.(*ssa.Alloc)
			if !isA {
				o.other = true
				return
			}
			stores := cellStores(al)
			sub := &origin{}
			for _, st := range stores {
				trace(st.Val, st, sub, seen)
			}
			o.other = o.other || sub.other
			if len(sub.lookups) == 0 {
				return
			}
			o.lookups = append(o.lookups, sub.lookups...)
			if sub.stale != "" {
				o.stale = sub.stale
			}
			// the variable must be (re)assigned on every way to the load: exactly one store, which dominates the load
			ld := positionIn(x, al.Parent())
			if len(stores) != 1 {
				o.stale = fmt.Sprintf("the channel is kept in a variable with %d assignments (one of them the lookup): a later hand-over can find the result of an earlier lookup in it", len(stores))
			} else if st := positionIn(stores[0], al.Parent()); st == nil || ld == nil || !flow.InstrDominates(st, ld) {
				o.stale = "the variable holding the channel is not assigned on every way to this use"
			} else {
				for h, body := range naturalLoops(al.Parent()) {
					if body[ld.Block()] && !body[st.Block()] {
						_ = h
						o.stale = "the variable holding the channel is assigned outside a loop that the hand-over is in"
					}
				}
			}
		default:
			o.other = true
		}
	}
	n := 0
	var fns []*ssa.Function
	for _, f := range c.Prog.RepoFuncs() {
		if f.Pkg != nil && f.Pkg.Pkg.Path() == proxyPkg && isShippedFunc(f) && len(f.Blocks) > 0 {
			fns = append(fns, f)
		}
	}
	sort.Slice(fns, func(i, j int) bool { return fns[i].String() < fns[j].String() })
	for _, f := range fns {
		k := 0
		for _, b := range f.Blocks {
			for _, ins := range b.Instrs {
				var chans []ssa.Value
				switch x := ins.(type) {
				case *ssa.Send:
					chans = append(chans, x.Chan)
				case *ssa.Select:
					for _, st := range x.States {
						if st.Dir == types.SendOnly {
							chans = append(chans, st.Chan)
						}
					}
				}
				for _, ch := range chans {
					o := &origin{}
					trace(ch, ins, o, map[ssa.Value]bool{})
					if len(o.lookups) == 0 {
						continue
					}
					n++
					k++
					why := o.stale
					if why == "" {
						// no loop may hold the send without the lookup
						for _, call := range o.lookups {
							use := positionIn(ins, call.Parent())
							if use == nil {
								why = "the lookup and the send are in unrelated functions"
								break
							}
							for _, body := range naturalLoops(call.Parent()) {
								if body[use.Block()] && !body[call.Block()] {
									why = "the lookup is made once outside a loop, the send is inside it: every iteration after the first uses the channel that was registered when the loop started"
								}
							}
							if !flow.InstrDominates(call, use) {
								why = "the lookup does not precede the send on every path"
							}
						}
					}
					top := f
					for top.Parent() != nil {
						top = top.Parent()
					}
					res.Check(why == "", rule, fmt.Sprintf("%s: send #%d on a registry channel uses the lookup of this very hand-over", shortFn(top), k), instrPos(c.Prog, ins),
						"the channel is the result of the lookup that precedes the send in the same iteration",
						why+" - the registry entry is replaced when a newer incarnation registers while the old channel stays open and buffered until its owner has wound down, so messages keep going into the dead incarnation's buffer and are lost with it")
				}
			}
		}
	}
	if n < minInstances {
		res.Undec(rule, "sends on channels obtained from the shard registries", "", fmt.Sprintf("%d found, at least %d confirmed by hand", n, minInstances))
	}
}

// checkPrevAckWriters (O1.15): what the sender re-acknowledges for an idle source shard is only what the id table
// said the target confirmed. prevAckBySource is read by recvAck's fallback branch (an ack that covers no new entry
// re-sends the remembered level of every source shard), so every value ever put into it is acknowledged to a source
// later without any further test. Its single writer is recvAck, under the sender's mutex, after the forward was
// reported delivered, with the (source shard, level) pair of AggregateUpTo's result; Run creates the map.
func checkPrevAckWriters(c *Ctx, res *report.Result, rule string) {
	n := 0
	for _, f := range c.Prog.RepoFuncs() {
		if f.Pkg == nil || f.Pkg.Pkg.Path() != proxyPkg || !isShippedFunc(f) || len(f.Blocks) == 0 {
			continue
		}
		top := f
		for top.Parent() != nil {
			top = top.Parent()
		}
		for _, b := range f.Blocks {
			for _, ins := range b.Instrs {
				switch x := ins.(type) {
				case *ssa.MapUpdate:
					base, field, ok := flow.FieldLoadOf(x.Map)
					if !ok || field != "prevAckBySource" || !isNamedPtr(base.Type(), "proxyStreamSender") {
						continue
					}
					n++
					construct := fmt.Sprintf("%s: prevAckBySource[..] = .. #%d stores a level the id table reported for that source shard", shortFn(top), n)
					if top.Name() != "recvAck" {
						res.Viol(rule, construct, instrPos(c.Prog, ins), "prevAckBySource is written outside recvAck: the fallback branch of recvAck acknowledges every remembered level to its source shard again whenever an ack covers no new entry, so a level that did not come from the id table (a source's own high watermark, say) is acknowledged although the target never confirmed it")
						continue
					}
					// value and key: the pair of a range over AggregateUpTo's first result
					okPair, why := false, "the stored level is not the value of a range over AggregateUpTo's result"
					if vex, isE := flow.ResolveLoad(x.Value).(*ssa.Extract); isE && vex.Index == 2 {
						if nx, isN := vex.Tuple.(*ssa.Next); isN {
							if rg, isR := nx.Iter.(*ssa.Range); isR {
								if ag, isA := flow.ResolveLoad(rg.X).(*ssa.Extract); isA && ag.Index == 0 {
									if call, isC := ag.Tuple.(*ssa.Call); isC && flow.IsCallTo(&call.Call, proxyPkg, "proxyIDRingBuffer", "AggregateUpTo") {
										okPair, why = true, ""
										if kex, isK := flow.ResolveLoad(x.Key).(*ssa.Extract); !isK || kex.Tuple != vex.Tuple || kex.Index != 1 {
											okPair, why = false, "the level is filed under a source shard other than the one the id table reported it for"
										}
									}
								}
							}
						}
					}
					if okPair && !flow.HeldAt(f, ins, "mu", true) {
						okPair, why = false, "the map is written outside the sender's mutex"
					}
					res.Check(okPair, rule, construct, instrPos(c.Prog, ins), "range pair of AggregateUpTo(ack watermark), under s.mu", why+": the fallback branch acknowledges this value to the source shard later without any further test")
				case *ssa.Store:
					fa, ok := x.Addr.(*ssa.FieldAddr)
					if !ok || flow.FieldName(fa.X.Type(), fa.Field) != "prevAckBySource" || !isNamedPtr(fa.X.Type(), "proxyStreamSender") {
						continue
					}
					_, isMake := x.Val.(*ssa.MakeMap)
					res.Check(isMake && (top.Name() == "Run" || strings.HasPrefix(top.Name(), "new")), rule, fmt.Sprintf("%s: prevAckBySource is (re)created empty, at the start of an incarnation", shortFn(top)), instrPos(c.Prog, ins), "make(map) in Run", "the remembered acknowledgement levels are replaced by something other than a fresh empty map, or outside the start of an incarnation")
				}
			}
		}
	}
	if n < 1 {
		res.Undec(rule, "writers of prevAckBySource", "", "no element store found, 1 confirmed by hand")
	}
}

func isNamedPtr(t types.Type, name string) bool {
	if p, ok := t.Underlying().(*types.Pointer); ok {
		t = p.Elem()
	}
	nm, ok := t.(*types.Named)
	return ok && nm.Obj().Name() == name
}

// checkTranslatorAlwaysVisits (O12.12 / O14.12): the Translate methods of the named translator types hand every message,
// whole, to the reflective visitor: no return is reachable from the entry without a call of a visitor (the receiver's
// `visitor` field, or a function of package interceptor with the visitor signature) on the method's own parameter. A
// content-based short cut in front of the walk ("the top-level namespace has no mapping", "only these task kinds carry
// search attributes") is wrong for every message that carries a translatable site somewhere the short cut did not look.
func checkTranslatorAlwaysVisits(c *Ctx, res *report.Result, rule string, typeNames []string) {
	pk, err := c.Prog.Pkg("interceptor")
	if err != nil {
		res.Undec(rule, "package interceptor", "", err.Error())
		return
	}
	var visitorSig *types.Signature
	if o := pk.Types.Scope().Lookup("visitor"); o != nil {
		visitorSig, _ = o.Type().Underlying().(*types.Signature)
	}
	if visitorSig == nil {
		res.Undec(rule, "type interceptor.visitor", "", "the visitor function type was not found")
		return
	}
	for _, tn := range typeNames {
		for _, name := range []string{"TranslateRequest", "TranslateResponse"} {
			f := resolve(c, res, rule, anchor{"interceptor", "*" + tn, name})
			if f == nil || len(f.Params) < 2 {
				continue
			}
			isVisit := func(ins ssa.Instruction) bool {
				call, ok := ins.(*ssa.Call)
				if !ok || call.Call.IsInvoke() {
					return false
				}
				sig, _ := call.Call.Value.Type().Underlying().(*types.Signature)
				if sig == nil || !types.Identical(sig, visitorSig) {
					return false
				}
				if sc := flow.StaticCallee(&call.Call); sc != nil {
					if sc.Pkg == nil || sc.Pkg.Pkg != pk.Types {
						return false
					}
				} else if base, field, isF := flow.FieldLoadOf(call.Call.Value); !isF || field != "visitor" || flow.Strip(base) != ssa.Value(f.Params[0]) {
					return false
				}
				// the message handed over is the method's parameter, whole
				return len(call.Call.Args) == 3 && flow.Strip(flow.ResolveLoad(call.Call.Args[1])) == ssa.Value(f.Params[1])
			}
			r := flow.FindPath(flow.Point{Block: f.Blocks[0]}, flow.IsReturn, isVisit, nil)
			res.Check(!r.Found, rule, tn+"."+name+": every message is handed, whole, to the visitor", fnPos(c.Prog, f), "no return without visitor(.., message, ..)",
				"a return is reachable without the visitor having walked the whole message"+pathSuffix(r)+": whatever the short cut looks at (the top-level namespace, the message or task type, a size), a message that carries a translatable site somewhere else leaves untranslated")
		}
	}
}

func pathSuffix(r flow.PathResult) string {
	if !r.Found {
		return ""
	}
	var parts []string
	for _, b := range r.Via {
		parts = append(parts, fmt.Sprintf("%d:%s", b.Index, b.Comment))
	}
	return " (path " + strings.Join(parts, " -> ") + ")"
}

// checkOnlyTranslatorsWriteMessage (O13.11): between its arrival and its hand-over a message is written by the
// translators and by nobody else. In Intercept and in the stream wrapper's RecvMsg / SendMsg every call that receives
// the message (the parameter, the handler's result, or a type assertion / conversion of either) is a translator's
// Translate method, the handler, the wrapped stream, or a reader; a call that can overwrite it (proto.Reset, proto.Merge,
// proto.Unmarshal*, the message's own Reset / Unmarshal, or a module function that does one of those with it) undoes what
// a translator that already ran has mapped - a "roll back on error" restores the other side's names.
func checkOnlyTranslatorsWriteMessage(c *Ctx, res *report.Result, rule string) {
	type target struct {
		a anchor
	}
	n := 0
	for _, a := range []anchor{{"interceptor", "*TranslationInterceptor", "Intercept"}, {"interceptor", "*streamTranslator", "RecvMsg"}, {"interceptor", "*streamTranslator", "SendMsg"}} {
		f := resolve(c, res, rule, a)
		if f == nil {
			continue
		}
		// message values: parameters of interface type `any` / proto.Message, results of calls through function-valued
		// parameters (the handler), and assertions / conversions of those
		msgs := map[ssa.Value]bool{}
		for _, p := range f.Params[1:] {
			if it, ok := p.Type().Underlying().(*types.Interface); ok && it.NumMethods() == 0 {
				msgs[p] = true
			}
		}
		for changed := true; changed; {
			changed = false
			for _, b := range f.Blocks {
				for _, ins := range b.Instrs {
					v, isV := ins.(ssa.Value)
					if !isV || msgs[v] {
						continue
					}
					add := false
					switch x := ins.(type) {
					case *ssa.TypeAssert:
						add = msgs[x.X]
					case *ssa.ChangeInterface:
						add = msgs[x.X]
					case *ssa.MakeInterface:
						add = msgs[x.X]
					case *ssa.Extract:
						if x.Index == 0 {
							if call, ok := x.Tuple.(*ssa.Call); ok {
								if _, isParam := call.Call.Value.(*ssa.Parameter); isParam {
									add = true // the handler's result
								}
							}
							add = add || msgs[x.Tuple]
						}
					case *ssa.Phi:
						for _, e := range x.Edges {
							add = add || msgs[e]
						}
					}
					if add {
						msgs[v] = true
						changed = true
					}
				}
			}
		}
		var writes func(fn *ssa.Function, isMsg func(ssa.Value) bool, depth int) (ssa.Instruction, string)
		writes = func(fn *ssa.Function, isMsg func(ssa.Value) bool, depth int) (ssa.Instruction, string) {
			for _, call := range flow.Calls(fn) {
				cc := call.Common()
				if cc.IsInvoke() {
					if isMsg(cc.Value) {
						switch m := cc.Method.Name(); {
						case m == "Reset" || m == "Unmarshal" || strings.HasPrefix(m, "XXX_"):
							return call, "the message's own " + m + "()"
						}
					}
					continue
				}
				argIdx := -1
				for i, a := range cc.Args {
					if isMsg(flow.ResolveLoad(a)) || isMsg(a) {
						argIdx = i
					}
				}
				if argIdx < 0 {
					continue
				}
				sc := flow.StaticCallee(cc)
				if sc == nil {
					continue // the handler / a function value: the hand-over itself
				}
				if sc.Pkg != nil && sc.Pkg.Pkg.Path() == "google.golang.org/protobuf/proto" {
					switch nm := sc.Name(); {
					case nm == "Reset" || nm == "Merge" && argIdx == 0 || strings.HasPrefix(nm, "Unmarshal"):
						return call, "proto." + nm
					}
					continue
				}
				if sc.Pkg != nil && strings.HasPrefix(sc.Pkg.Pkg.Path(), modPath) && len(sc.Blocks) > 0 && depth < 2 {
					if sc.Name() == "TranslateRequest" || sc.Name() == "TranslateResponse" {
						continue
					}
					idx := argIdx
					if sc.Signature.Recv() != nil {
						// Args[0] is the receiver for static method calls: Params are aligned with Args
					}
					if idx < len(sc.Params) {
						p := sc.Params[idx]
						if ins, what := writes(sc, func(v ssa.Value) bool {
							for d := 0; d < 4 && v != nil; d++ {
								if v == ssa.Value(p) {
									return true
								}
								switch x := v.(type) {
								case *ssa.TypeAssert:
									v = x.X
								case *ssa.ChangeInterface:
									v = x.X
								case *ssa.MakeInterface:
									v = x.X
								default:
									return false
								}
							}
							return false
						}, depth+1); ins != nil {
							return call, what + " in " + shortFn(sc)
						}
					}
				}
			}
			return nil, ""
		}
		ins, what := writes(f, func(v ssa.Value) bool { return msgs[v] }, 0)
		n++
		pos := fnPos(c.Prog, f)
		if ins != nil {
			pos = instrPos(c.Prog, ins)
		}
		res.Check(ins == nil, rule, shortFn(f)+": only the translators write the message between arrival and hand-over", pos, "every call that receives the message is a translator, the hand-over or a reader",
			"the message is overwritten by "+what+": whatever it restores or merges replaces what a translator that already ran has mapped, and the message is handed over with the other side's names")
	}
	if n < 3 {
		res.Undec(rule, "Intercept / RecvMsg / SendMsg", "", fmt.Sprintf("%d of 3 functions analysed", n))
	}
}

// checkAppendAlwaysAppends (O5.10): every mapping handed to Append becomes a live entry. No return of Append is
// reachable without the store of a proxyIDMapping built from the sourceShard and sourceTask parameters into a slot of
// the ring, followed by the increment of size. The sender allocates one proxy id per Append and the target confirms
// proxy ids: an Append that stores nothing (a "duplicate of the tail", say) leaves a proxy id without an entry, the
// start id + position arithmetic of every later entry is off by one, and the acknowledgement for the skipped id
// translates to nothing or to its neighbour.
func checkAppendAlwaysAppends(c *Ctx, res *report.Result, rule string) {
	f := resolve(c, res, rule, anchor{"proxy", "*proxyIDRingBuffer", "Append"})
	if f == nil || len(f.Params) < 4 {
		return
	}
	recvField := func(v ssa.Value, name string) bool {
		fa, ok := v.(*ssa.FieldAddr)
		return ok && flow.FieldName(fa.X.Type(), fa.Field) == name && flow.Strip(flow.ResolveLoad(fa.X)) == ssa.Value(f.Params[0])
	}
	isElemStore := func(ins ssa.Instruction) bool {
		st, ok := ins.(*ssa.Store)
		if !ok {
			return false
		}
		ia, ok := st.Addr.(*ssa.IndexAddr)
		if !ok {
			return false
		}
		sl, ok := ia.X.(*ssa.UnOp)
		if !ok || !recvField(sl.X, "entries") {
			return false
		}
		ld, ok := st.Val.(*ssa.UnOp)
		if !ok {
			return false
		}
		al, ok := ld.X.(*ssa.Alloc)
		if !ok {
			return false
		}
		fields, multi := flow.FieldStores(al)
		return !multi["sourceShard"] && !multi["sourceTask"] && flow.ResolveLoad(fields["sourceShard"]) == ssa.Value(f.Params[2]) && flow.ResolveLoad(fields["sourceTask"]) == ssa.Value(f.Params[3])
	}
	var elem ssa.Instruction
	for _, b := range f.Blocks {
		for _, ins := range b.Instrs {
			if isElemStore(ins) {
				elem = ins
			}
		}
	}
	if elem == nil {
		res.Undec(rule, "Append: the store of the caller's mapping", fnPos(c.Prog, f), "no store of proxyIDMapping{sourceShard: <param>, sourceTask: <param>} into b.entries[..] found")
		return
	}
	r := flow.FindPath(flow.Point{Block: f.Blocks[0]}, flow.IsReturn, isElemStore, nil)
	res.Check(!r.Found, rule, "Append: every call stores the caller's mapping", instrPos(c.Prog, elem), "no return before the element store",
		"Append can return without storing the mapping it was given"+pathSuffix(r)+": the sender has already allocated a proxy id for it, so the id has no entry, every later entry sits one position off its id, and the target's confirmation of the skipped id translates to nothing or to its neighbour")
	isSizeInc := func(ins ssa.Instruction) bool {
		st, ok := ins.(*ssa.Store)
		if !ok || !recvField(st.Addr, "size") {
			return false
		}
		bo, ok := st.Val.(*ssa.BinOp)
		if !ok || bo.Op != token.ADD {
			return false
		}
		n, isN := flow.ConstInt(bo.Y)
		ld, isL := bo.X.(*ssa.UnOp)
		return isN && n == 1 && isL && recvField(ld.X, "size")
	}
	r2 := flow.FindPath(flow.After(elem), flow.IsReturn, isSizeInc, nil)
	res.Check(!r2.Found, rule, "Append: the stored mapping is made live", instrPos(c.Prog, elem), "size++ follows on every path", "after storing the mapping Append can return without size++: the slot is outside the live range and the next Append overwrites it")
}

// checkAckWatermarkSource (O4.17 / O1.16): what the sender translates is the target's overall confirmation. The
// watermark handed to the id table's AggregateUpTo in recvAck is the received SyncReplicationState's own top-level
// InclusiveLowWatermark (field or getter), read from the attribute of the request just received - not a per-priority
// lane's watermark (HighPriorityState / LowPriorityState: one lane can be ahead of a task the other has not applied),
// not a value chosen by a helper. Everything at or below that number is discarded from the table and acknowledged.
func checkAckWatermarkSource(c *Ctx, res *report.Result, rule string) {
	f := resolve(c, res, rule, anchor{"proxy", "*proxyStreamSender", "recvAck"})
	if f == nil {
		return
	}
	calls := flow.FindCalls(f, func(cc *ssa.CallCommon) bool {
		return flow.IsCallTo(cc, proxyPkg, "proxyIDRingBuffer", "AggregateUpTo")
	})
	if len(calls) != 1 {
		res.Undec(rule, "recvAck: AggregateUpTo call", fnPos(c.Prog, f), fmt.Sprintf("%d calls, 1 confirmed by hand", len(calls)))
		return
	}
	call := calls[0]
	args := call.Common().Args
	wm := flow.ResolveLoad(args[len(args)-1])
	isSyncState := func(t types.Type) bool {
		if p, ok := t.Underlying().(*types.Pointer); ok {
			t = p.Elem()
		}
		nm, ok := t.(*types.Named)
		return ok && nm.Obj().Name() == "SyncReplicationState"
	}
	ok, why := false, "the watermark is not read from the received SyncReplicationState's InclusiveLowWatermark"
	var state ssa.Value
	// stateOf: v is the InclusiveLowWatermark (field or getter) of the returned state value; a module helper whose every
	// return is that of one of its parameters stands for the read
	var stateOf func(v ssa.Value, d int) ssa.Value
	stateOf = func(v ssa.Value, d int) ssa.Value {
		v = flow.ResolveLoad(v)
		if base, field, isF := flow.FieldLoadOf(v); isF && field == "InclusiveLowWatermark" && isSyncState(base.Type()) {
			return base
		}
		gc, isC := v.(*ssa.Call)
		if !isC {
			return nil
		}
		sc := flow.StaticCallee(&gc.Call)
		if sc == nil {
			return nil
		}
		if sc.Name() == "GetInclusiveLowWatermark" && len(gc.Call.Args) == 1 && isSyncState(gc.Call.Args[0].Type()) {
			return gc.Call.Args[0]
		}
		if d < 2 && sc.Pkg != nil && strings.HasPrefix(sc.Pkg.Pkg.Path(), modPath) && len(sc.Blocks) > 0 {
			why = "the watermark is whatever " + shortFn(sc) + " returns, and that is not always its argument's own InclusiveLowWatermark"
			idx := -1
			for _, b := range sc.Blocks {
				ret, isR := b.Instrs[len(b.Instrs)-1].(*ssa.Return)
				if !isR || len(ret.Results) != 1 {
					continue
				}
				st := stateOf(flow.Ret(ret)[0], d+1)
				if st == nil {
					return nil
				}
				k := -1
				for i, p := range sc.Params {
					if flow.Strip(flow.ResolveLoad(st)) == ssa.Value(p) {
						k = i
					}
				}
				if k < 0 || idx >= 0 && idx != k {
					return nil
				}
				idx = k
			}
			if idx >= 0 && idx < len(gc.Call.Args) {
				return gc.Call.Args[idx]
			}
		}
		return nil
	}
	if st := stateOf(wm, 0); st != nil {
		ok, state = true, st
	}
	if ok {
		// the state is the attribute of the request received in this iteration
		st := flow.ResolveLoad(state)
		fromReq := false
		if base, field, isF := flow.FieldLoadOf(st); isF && field == "SyncReplicationState" {
			v := flow.ResolveLoad(base)
			for d := 0; d < 4 && v != nil && !fromReq; d++ {
				switch x := v.(type) {
				case *ssa.Extract:
					v = x.Tuple
				case *ssa.TypeAssert:
					v = flow.ResolveLoad(x.X)
				case *ssa.Call:
					if sc := flow.StaticCallee(&x.Call); sc != nil && sc.Name() == "GetAttributes" {
						if ex, isE := flow.ResolveLoad(x.Call.Args[0]).(*ssa.Extract); isE {
							if rc, isC := ex.Tuple.(*ssa.Call); isC && rc.Call.IsInvoke() && rc.Call.Method.Name() == "Recv" {
								fromReq = true
							}
						}
					}
					v = nil
				default:
					v = nil
				}
			}
		} else if gc, isC := st.(*ssa.Call); isC {
			if sc := flow.StaticCallee(&gc.Call); sc != nil && sc.Name() == "GetSyncReplicationState" {
				fromReq = true
			}
		}
		if !fromReq {
			ok, why = false, "the SyncReplicationState the watermark is read from is not the attribute of the request just received"
		}
	}
	res.Check(ok, rule, "recvAck: the watermark translated through the id table is the target's overall InclusiveLowWatermark", instrPos(c.Prog, call), "attr.SyncReplicationState.InclusiveLowWatermark of the received request",
		why+": a per-priority lane's watermark (or any other number) can lie above a task the target has not applied; every entry at or below it is acknowledged to its source shard and discarded, and after a break of the target stream the source resumes above the lost task")
}

// checkForwarderWaits (O6.17): a forwarder's workers wait only on things that end with their own stream. Every blocking
// channel operation in proxy/admin_stream_transfer.go (and in the module functions its workers call, one level) is
//   - a blocking select with an arm on the stream's latch (`shutdownChan.Channel()`), a context's Done() or a timer,
//   - a bare receive from such a channel, or
//   - a bare send on a channel made in the enclosing function with a constant capacity >= 1 (the one-shot signal idiom).
//
// A bare send or receive on anything else - a process-wide semaphore, say - parks the worker where neither the latch
// nor the initiator's hang-up can reach it: Run's wg.Wait() never returns, the handler never returns and the source
// stream is never cancelled; with a shared channel one stalled initiator does that to every other stream.
func checkForwarderWaits(c *Ctx, res *report.Result, rule string, minOps int) {
	isSignalChan := func(v ssa.Value) bool {
		v = flow.ResolveLoad(v)
		call, ok := v.(*ssa.Call)
		if !ok {
			if fld, isF := v.(*ssa.UnOp); isF {
				// timer.C
				if fa, isFA := fld.X.(*ssa.FieldAddr); isFA && flow.FieldName(fa.X.Type(), fa.Field) == "C" {
					return true
				}
			}
			return false
		}
		if call.Call.IsInvoke() {
			n := call.Call.Method.Name()
			return n == "Channel" || n == "Done"
		}
		if sc := flow.StaticCallee(&call.Call); sc != nil {
			if sc.Pkg != nil && sc.Pkg.Pkg.Path() == "time" && (sc.Name() == "After" || sc.Name() == "Tick") {
				return true
			}
			return sc.Name() == "Channel" || sc.Name() == "Done"
		}
		return false
	}
	var localBuffered func(v ssa.Value, d int) bool
	localBuffered = func(v ssa.Value, d int) bool {
		if d > 4 || v == nil {
			return false
		}
		switch x := v.(type) {
		case *ssa.MakeChan:
			n, ok := flow.ConstInt(x.Size)
			return ok && n >= 1
		case *ssa.FreeVar:
			return localBuffered(freeVarBinding(x), d+1)
		case *ssa.UnOp:
			if x.Op != token.MUL {
				return false
			}
			addr := x.X
			if fv, isF := addr.(*ssa.FreeVar); isF {
				addr = freeVarBinding(fv)
			}
			if al, isA := addr.(*ssa.Alloc); isA {
				st := cellStores(al)
				return len(st) == 1 && localBuffered(st[0].Val, d+1)
			}
		case *ssa.ChangeType:
			return localBuffered(x.X, d+1)
		}
		return false
	}
	seen := map[*ssa.Function]bool{}
	var fns []*ssa.Function
	add := func(f *ssa.Function) {
		if f == nil || seen[f] || len(f.Blocks) == 0 {
			return
		}
		seen[f] = true
		fns = append(fns, f)
		for _, a := range flow.AnonFuncsDeep(f) {
			if !seen[a] {
				seen[a] = true
				fns = append(fns, a)
			}
		}
	}
	for _, f := range c.Prog.RepoFuncs() {
		if isShippedFunc(f) && len(f.Blocks) > 0 && strings.HasPrefix(c.Prog.Pos(f.Pos()), "proxy/admin_stream_transfer.go") {
			add(f)
		}
	}
	for _, f := range append([]*ssa.Function(nil), fns...) {
		for _, call := range flow.Calls(f) {
			if sc := flow.StaticCallee(call.Common()); sc != nil && sc.Pkg != nil && sc.Pkg.Pkg.Path() == proxyPkg && sc.Signature.Recv() != nil && flow.NamedIs(sc.Signature.Recv().Type(), proxyPkg, "StreamForwarder") {
				add(sc)
			}
		}
	}
	sort.Slice(fns, func(i, j int) bool { return fns[i].String() < fns[j].String() })
	n := 0
	for _, f := range fns {
		k := 0
		for _, b := range f.Blocks {
			for _, ins := range b.Instrs {
				why, what := "", ""
				switch x := ins.(type) {
				case *ssa.Send:
					what = "send"
					if !localBuffered(x.Chan, 0) {
						why = "a bare send on a channel that is not a buffered channel made for this one signal in the enclosing function"
					}
				case *ssa.UnOp:
					if x.Op != token.ARROW {
						continue
					}
					what = "receive"
					if !isSignalChan(x.X) {
						why = "a bare receive from a channel that is neither the stream's latch, a context's Done() nor a timer"
					}
				case *ssa.Select:
					if !x.Blocking {
						continue
					}
					what = "select"
					okArm := false
					for _, st := range x.States {
						if st.Dir == types.RecvOnly && isSignalChan(st.Chan) {
							okArm = true
						}
					}
					if !okArm {
						why = "a blocking select without an arm on the stream's latch, a context's Done() or a timer"
					}
				default:
					continue
				}
				n++
				k++
				res.Check(why == "", rule, fmt.Sprintf("%s: blocking %s #%d ends with the stream", shortFn(f), what, k), instrPos(c.Prog, ins), "latch / Done / timer arm, or a one-shot buffered signal",
					why+": the worker is parked where neither the latch nor the initiator's hang-up reaches it, Run's wg.Wait() does not return, the handler does not return and the source stream is never cancelled - and if the channel is shared between streams, one stalled initiator does that to all the others")
			}
		}
	}
	if n < minOps {
		res.Undec(rule, "blocking channel operations of the forwarder", "", fmt.Sprintf("%d found, %d confirmed by hand", n, minOps))
	}
}

// checkCounterTableWriters (O20.13): the per-shard counter table only grows. The streamActive field is assigned by the
// constructor (a fresh slice) and by ReportStreamValue on the side of its growth test on which the index was found at
// or beyond the length, with a slice obtained from the old one by slices.Grow / append (which keep every old element).
// Any other assignment - a compaction, a reset - is a second writer of bookkeeping that every open stream relies on
// for its deferred -1: a slot that is cut off while its stream is open comes back as a fresh zero, the -1 leaves it
// negative, and that shard is reported wrongly for every later stream.
func checkCounterTableWriters(c *Ctx, res *report.Result, rule string) {
	n := 0
	perFn := map[*ssa.Function]int{}
	for _, f := range c.Prog.RepoFuncs() {
		if f.Pkg == nil || f.Pkg.Pkg.Path() != proxyPkg || !isShippedFunc(f) || len(f.Blocks) == 0 {
			continue
		}
		top := f
		for top.Parent() != nil {
			top = top.Parent()
		}
		for _, b := range f.Blocks {
			for _, ins := range b.Instrs {
				st, ok := ins.(*ssa.Store)
				if !ok {
					continue
				}
				fa, ok := st.Addr.(*ssa.FieldAddr)
				if !ok || flow.FieldName(fa.X.Type(), fa.Field) != "streamActive" || !isNamedPtr(fa.X.Type(), "ReplicationStreamObserver") {
					continue
				}
				n++
				perFn[top]++
				construct := fmt.Sprintf("%s: assignment #%d of streamActive keeps every counter", shortFn(top), perFn[top])
				_, isMake := st.Val.(*ssa.MakeSlice)
				if sl, isSl := st.Val.(*ssa.Slice); isSl {
					if al, isAl := sl.X.(*ssa.Alloc); isAl && al.Heap {
						isMake = true // make with a constant size: a fresh array, sliced
					}
				}
				if isMake && strings.HasPrefix(top.Name(), "New") {
					res.Hold(rule, construct, instrPos(c.Prog, ins), "the constructor's fresh table")
					continue
				}
				// grown from the old table
				grown := false
				v := st.Val
				for d := 0; d < 3 && v != nil; d++ {
					switch x := v.(type) {
					case *ssa.Slice:
						if x.Low != nil {
							v = nil
						} else {
							v = x.X
						}
					case *ssa.Call:
						name := ""
						if bi, isB := x.Call.Value.(*ssa.Builtin); isB {
							name = bi.Name()
						} else if sc := flow.StaticCallee(&x.Call); sc != nil {
							if o := sc.Origin(); o != nil {
								sc = o
							}
							if sc.Pkg != nil && sc.Pkg.Pkg.Path() == "slices" {
								name = sc.Name()
							}
						}
						if (name == "Grow" || name == "append") && len(x.Call.Args) > 0 {
							if _, fld, isF := flow.FieldLoadOf(x.Call.Args[0]); isF && fld == "streamActive" {
								grown = true
							}
						}
						v = nil
					default:
						v = nil
					}
				}
				why := ""
				switch {
				case top.Name() != "ReportStreamValue":
					why = "the table is replaced outside ReportStreamValue's growth"
				case !grown:
					why = "the new table is not slices.Grow / append of the old one"
				default:
					// on the side of `idx >= len(streamActive)` on which the index is out of range
					okSide := false
					for _, g := range flow.NormGuards(flow.Guards(b)) {
						bo, isB := g.Cond.(*ssa.BinOp)
						if !isB || len(top.Params) < 2 {
							continue
						}
						if below, _ := impliesIndexBelowLen(bo, !g.Side, top.Params[1]); below {
							okSide = true // the other side of this test implies idx < len: this side is the growth
						}
					}
					if !okSide {
						why = "the assignment is not on the growing side of the test of the index against the table's length"
					}
				}
				if why != "" && top.Name() != "ReportStreamValue" {
					// a writer this rule has no model of: whether it keeps every live slot is not decided here, and an
					// undecided obligation fails (section 6) - the counter table is bookkeeping shared by all streams
					res.Undec(rule, construct, instrPos(c.Prog, ins), why+" (a second writer of the table): whether it keeps the slot of every stream that is still open is not decided by this rule - a slot that is cut off or zeroed while its stream is open comes back as a fresh zero, the stream's deferred -1 leaves it negative, and the shard is reported active when closed and inactive when open from then on")
					continue
				}
				res.Check(why == "", rule, construct, instrPos(c.Prog, ins), "slices.Grow of the old table, on the side idx >= len", why+": a table that is shrunk, reset or rebuilt while streams are open loses their +1; the stream's deferred -1 then lands in a fresh slot and leaves it negative, and the shard is reported active when closed and inactive when open from then on")
			}
		}
	}
	if n < 2 {
		res.Undec(rule, "assignments of streamActive", "", fmt.Sprintf("%d found, 2 confirmed by hand (constructor, growth)", n))
	}
}
