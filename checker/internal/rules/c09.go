package rules

import (
	"fmt"
	"go/token"
	"go/types"
	"strings"

	"golang.org/x/tools/go/ssa"

	"s2scheck/internal/flow"
	"s2scheck/internal/report"
)

func init() { Registry["C09"] = c09 }

func c09(c *Ctx) (*report.Result, error) {
	res := newResult("C09")
	res.RuleDoc["O9.1"] = "the routing result is truthful: DeliverMessagesToShardOwner / DeliverAckToShardOwner return true only after a completed local hand-off (the send arm of the guarded select) or a nil error from the intra-proxy send; no path leads from a completed local hand-off to the remote forward; the local stream is tried before the owner lookup"
	res.RuleDoc["O9.2"] = "newer claim evicts older: on a register announcement the local registration is dropped only if it is older than the announcement, using the local entry's own timestamp as identity"
	res.RuleDoc["O9.3"] = "leavers own nothing: NotifyLeave deletes the leaver's state under the lock; owner lookup reads only that table and skips the local node"
	res.RuleDoc["O9.4"] = "intra-proxy senders report failure: sendReplicationMessages / sendAck return nil only after the peer stream's send returned nil"

	for _, spec := range []struct {
		name, getChan, fwd string
	}{
		{"DeliverMessagesToShardOwner", "GetRemoteSendChan", "sendReplicationMessages"},
		{"DeliverAckToShardOwner", "GetLocalAckChan", "sendAck"},
	} {
		f := resolve(c, res, "O9.1", anchor{"proxy", "*shardManagerImpl", spec.name})
		if f == nil {
			continue
		}
		checkDeliver(c, res, f, spec.name, spec.getChan, spec.fwd, "O9.1")
	}
	checkNotifyMsg(c, res)
	res.RuleDoc["O9.5"] = "a claim is stamped when it is made: every registration stores (and returns) that call's own time.Now() in localShards, so the stamp an incoming announcement is compared with is never older than the claim this instance last announced (a re-registration that keeps the old stamp lets a stale announcement evict the newest claim)"
	checkFreshTokens(c, res, "O9.5")
	checkLeave(c, res)
	res.RuleDoc["O9.8"] = "a node always advertises a state that replaces its previous one: NodeMeta (also the push/pull LocalState) returns an empty buffer only when there is no manager/memberlist configuration or marshalling failed - memberlist does not deliver an empty state to MergeRemoteState, so a node that stopped owning shards and advertised nothing would stay listed with its old shards in every peer's table for ever"
	checkNodeMetaNeverEmpty(c, res, "O9.8")
	res.RuleDoc["O9.9"] = "routing cannot wedge on the registries' locks: no critical section of package proxy re-acquires its own mutex and the mutexes nest in one order (same analysis as O8.6)"
	if spx, err := c.Prog.SSAPkg("proxy"); err == nil {
		checkReentrancy(c, res, "O9.9", []*ssa.Package{spx}, func(key string) bool {
			return !strings.HasPrefix(key, "ReplicationStreamObserver.") && !strings.HasPrefix(key, "StreamTracker.")
		})
	}
	res.RuleDoc["O9.7"] = "the local-claim table is keyed injectively by (cluster id, shard id) (same analysis as O8.9): an announcement for one shard can only evict the local claim of that very shard"
	checkShardKeyFunction(c, res, "O9.7")
	res.RuleDoc["O9.6"] = "intra-proxy streams are pruned only when nobody claims their shard pair any more: in ReconcilePeerStreams a registered receiver/sender entry is queued for closing only on the 'key absent from the desired map' outcome - the desired maps hold one (arbitrary) peer per key, so while two peers claim a shard a test on the peer's name would prune the newest owner's stream, which is never re-created from this side"
	checkReconcilePrune(c, res, "O9.6")
	checkIntraSenders(c, res, "O9.4")

	res.Explanation = "SSA of shardManagerImpl.DeliverMessagesToShardOwner / DeliverAckToShardOwner (what dominates each `return true`, reachability from the completed local hand-off to the remote forward, order of local attempt and owner lookup; the `delivered` flag is a closure-captured cell whose single store is located in the send arm of the select), of shardDelegate.NotifyMsg (control dependence of the local unregistration on Created.Before(msg.Timestamp)), of shardEventDelegate.NotifyLeave / getShardOwner / GetRemoteShardsForPeer, and of intraProxyManager.sendReplicationMessages / sendAck (nil only after a successful stream send). Decides the routing clause ('delivered, or reported undelivered; never both local and remote'); convergence of ownership under arbitrary orders, duplications and delays of gossip messages is a statement over histories and is not decided."
	res.Assumptions = []string{"memberlist delivers NotifyLeave for departed nodes", "a send arm that fired has handed the message to the channel"}
	res.RuleDoc["O9.11"] = "pushed state is remembered: MergeRemoteState stores every state it could decode under that state's own node name (only a decode error or a missing manager go around the store) - the table it fills is what owner lookup and the announcement target list read"
	checkMergeRecordsState(c, res, "O9.11")
	res.RuleDoc["O9.12"] = "claims and releases are announced: RegisterShard calls broadcastShardChange(\"register\") on every path; UnregisterShard deletes the claim and then calls broadcastShardChange(\"unregister\") on every path"
	checkShardChangeAnnounced(c, res, "O9.12")
	res.RuleDoc["O9.13"] = "the forward to the owning instance is attempted exactly when another instance owns the shard: in both Deliver*ToShardOwner functions the intra-proxy send is guarded by memberlistConfig != nil, a known owner, owner != this node and a known address, each on its positive side"
	checkRemoteForwardCondition(c, res, "O9.13")
	res.RuleDoc["O9.14"] = "the intra-proxy stream tables are maintained on every path: RegisterSender files the sender (and a peer state it creates) for every cross-cluster pair, UnregisterSender deletes that entry, ensureStream files the receiver it creates and starts it as a goroutine"
	checkIntraStreamTables(c, res, "O9.14")
	res.RuleDoc["O9.18"] = "giving up a claim is one atomic step: the comparison of the stored registration stamp with the caller's and the delete of the claim sit in one critical section of the shard table's mutex (the UnregisterShard obligations of O8.1, imported) - checked under the read lock and deleted under a later write lock, a re-registration that lands in between (the newest claim) is deleted and announced as given up, and after the peer yields to that newest claim nobody owns the shard"
	if r8, err := Registry["C08"](c); err == nil && r8 != nil {
		if n := importObligations(res, r8, "O9.18", func(o report.Obligation) bool {
			return o.Rule == "O8.1" && strings.Contains(o.Construct, "UnregisterShard")
		}); n < 1 {
			res.Undec("O9.18", "UnregisterShard obligations of O8.1", "", "none imported")
		}
	} else {
		res.Undec("O9.18", "UnregisterShard obligations of O8.1", "", "C08 rule set failed")
	}
	res.RuleDoc["O9.16"] = "a node's advertised shard table is never edited in place: no update, delete or clear on a map read from a NodeShardState.Shards field anywhere in package proxy - the table of remote states hands out struct copies that share the one map the membership code stored, so a 'filter on a copy' in a debug snapshot removes a peer's claim from the ownership view, outside its mutex; states are replaced as a whole and built from fresh maps"
	checkAdvertisedShardsImmutable(c, res, "O9.16")
	res.RuleDoc["O9.17"] = "the state a node advertises fits memberlist's limit (same analysis as O20.14): NodeMeta returns the marshalled state only where its own length was compared with the limit - an oversized meta panics in the UpdateNode goroutine and takes the instance, and every shard it owns, out of the cluster"
	checkNodeMetaFitsLimit(c, res, "O9.17")
	res.RuleDoc["O9.15"] = "a closed local channel is a failed local delivery, not a crash: every send on a registered delivery channel is covered by a recover() called directly by the deferred function (same analysis as O8.2) - delivery then falls back to the remote owner or reports failure; recover() one call deeper returns nil and the panic escapes the routing goroutine"
	if r8, err := Registry["C08"](c); err == nil && r8 != nil {
		if n := importObligations(res, r8, "O9.15", func(o report.Obligation) bool { return o.Rule == "O8.2" }); n < 2 {
			res.Undec("O9.15", "recover obligations of O8.2", "", fmt.Sprintf("%d imported, at least 2 expected", n))
		}
	}
	res.RuleDoc["O9.10"] = "no swallowed error in the files the mechanism lives in: no function returns a nil error on a path on which an error obtained from a call is known to be non-nil (io.EOF from a stream Recv, the normal end of a receive loop, is the one accepted idiom)"
	checkNoSwallowedErrors(c, res, "O9.10", []string{"proxy/intra_proxy_router.go", "proxy/shard_manager.go"})
	return res, nil
}

func checkDeliver(c *Ctx, res *report.Result, f *ssa.Function, name, getChan, fwd, rule string) {
	// the delivered flag: a bool cell of f captured by a closure that stores true into it
	var delivered *ssa.Alloc
	boundTo := func(fv *ssa.FreeVar) ssa.Value { return freeVarBinding(fv) }
	for _, a := range flow.AnonFuncsDeep(f) {
		for _, b := range a.Blocks {
			for _, ins := range b.Instrs {
				if st, ok := ins.(*ssa.Store); ok {
					if fv, ok := st.Addr.(*ssa.FreeVar); ok {
						if v, isC := flow.ConstBool(st.Val); isC && v {
							if al, ok := boundTo(fv).(*ssa.Alloc); ok && al.Parent() == f {
								delivered = al
							}
						}
					}
				}
			}
		}
	}
	// the hand-over is the function's own select: every select with a send arm sits in f or in a closure that f calls
	// and waits for - not in a goroutine (or deferred call) that is still running when the result has been reported
	nHand, async := 0, false
	for _, a := range append([]*ssa.Function{f}, flow.AnonFuncsDeep(f)...) {
		for _, sel := range selectsOf(a) {
			hasSend := false
			for _, state := range sel.States {
				if state.Dir == types.SendOnly {
					hasSend = true
				}
			}
			if !hasSend {
				continue
			}
			nHand++
			how := ""
			for fn := a; fn != f && fn != nil && how == ""; fn = fn.Parent() {
				how = "the closure holding the select is never called directly"
				for _, b := range fn.Parent().Blocks {
					for _, ins := range b.Instrs {
						ci, isC := ins.(ssa.CallInstruction)
						if !isC {
							continue
						}
						if cal, _ := closureFn(ci.Common().Value); cal != fn {
							continue
						}
						switch ins.(type) {
						case *ssa.Call:
							how = ""
						case *ssa.Go:
							how = "the select runs in a goroutine of its own: when the function gives up waiting and reports the message undelivered the goroutine is still trying, its send can complete later, and the caller's retry delivers the message a second time"
						case *ssa.Defer:
							how = "the select runs in a deferred call, after the result has been decided"
						}
					}
				}
			}
			res.Check(how == "", rule, fmt.Sprintf("%s: hand-over select #%d is completed or abandoned before the result is reported", name, nHand), instrPos(c.Prog, sel), "called synchronously", how)
			if how != "" {
				async = true
			}
		}
	}
	if nHand == 0 {
		res.Undec(rule, name+": hand-over select", fnPos(c.Prog, f), "no select with a send arm found")
	}
	// result form: `ok := func() bool { select { case ch <- m: return true ... } }()`
	var deliveredCall *ssa.Call
	if delivered == nil {
		for _, call := range flow.Calls(f) {
			cl, isCall := call.(*ssa.Call)
			cal, _ := closureFn(call.Common().Value)
			if !isCall || cal == nil || cal.Signature.Results().Len() != 1 || !types.Identical(cal.Signature.Results().At(0).Type(), types.Typ[types.Bool]) {
				continue
			}
			var arms []*ssa.BasicBlock
			for _, sel := range selectsOf(cal) {
				for i, state := range sel.States {
					if state.Dir == types.SendOnly {
						if arm := selectArmBlock(sel, i); arm != nil {
							arms = append(arms, arm)
						}
					}
				}
			}
			if len(arms) == 0 {
				continue
			}
			okRet, whyRet := true, ""
			inArm := func(b *ssa.BasicBlock) bool {
				for _, arm := range arms {
					if arm == b || arm.Dominates(b) {
						return true
					}
				}
				return false
			}
			cells := map[*ssa.Alloc]bool{}
			for _, b := range cal.Blocks {
				ret, isR := b.Instrs[len(b.Instrs)-1].(*ssa.Return)
				if !isR {
					continue
				}
				v, isC := flow.ConstBool(flow.Ret(ret)[0])
				if isC && !v {
					continue
				}
				if !isC {
					// a named or defer-spilled result: go/ssa stores the value into a cell, runs the defers and reloads it
					if ld, isL := ret.Results[0].(*ssa.UnOp); isL && ld.Op == token.MUL {
						if al, isA := ld.X.(*ssa.Alloc); isA && al.Parent() == cal {
							cells[al] = true
							continue
						}
					}
					okRet, whyRet = false, "the guarded-send closure returns a value that is not a constant"
				} else if !inArm(b) {
					okRet, whyRet = false, "the guarded-send closure returns true outside the arm in which the channel send completed"
				}
			}
			for al := range cells {
				for _, fn := range append([]*ssa.Function{cal}, flow.AnonFuncsDeep(cal)...) {
					for _, b := range fn.Blocks {
						for _, ins := range b.Instrs {
							st, isS := ins.(*ssa.Store)
							if !isS {
								continue
							}
							target := st.Addr
							if fv, isF := target.(*ssa.FreeVar); isF {
								target = freeVarBinding(fv)
							}
							if target != ssa.Value(al) {
								continue
							}
							if v, isC := flow.ConstBool(st.Val); isC && !v {
								continue
							}
							if fn != cal || !inArm(b) {
								okRet, whyRet = false, "the closure's result is set to something other than false outside the arm in which the channel send completed (a recovered panic, or the shutdown arm, then reports a delivery)"
							}
						}
					}
				}
			}
			deliveredCall = cl
			res.Check(okRet, rule, name+": delivered is set only when the local send completed", fnPos(c.Prog, f), "the closure returns true only from the send arm of the select", whyRet)
		}
	}
	isLocalFlag := func(v ssa.Value) bool {
		if deliveredCall != nil {
			return flow.ResolveLoad(v) == ssa.Value(deliveredCall) || v == ssa.Value(deliveredCall)
		}
		ld, isL := v.(*ssa.UnOp)
		return isL && delivered != nil && ld.X == ssa.Value(delivered)
	}
	if delivered == nil && deliveredCall == nil && async {
		return
	}
	if delivered == nil && deliveredCall == nil {
		// without a flag that only the send arm sets, the code after the guarded-send closure cannot tell a completed
		// hand-off from the closure's other outcomes (shutdown arm, recovered panic of a send on a closed channel)
		for _, call := range flow.Calls(f) {
			cal, _ := closureFn(call.Common().Value)
			if cal == nil {
				continue
			}
			hasSend := false
			for _, sel := range selectsOf(cal) {
				for _, state := range sel.States {
					if state.Dir == types.SendOnly {
						hasSend = true
					}
				}
			}
			if !hasSend {
				continue
			}
			isTrueReturn := func(x ssa.Instruction) bool {
				ret, ok := x.(*ssa.Return)
				if !ok || len(ret.Results) != 1 {
					return false
				}
				v, isC := flow.ConstBool(flow.Ret(ret)[0])
				return !isC || v
			}
			if r := flow.FindPath(flow.After(call), isTrueReturn, func(ssa.Instruction) bool { return false }, nil); r.Found {
				res.Viol(rule, name+": true only after a completed hand-off", instrPos(c.Prog, r.End), "after the guarded-send closure the function can report delivery without a flag that only the send arm sets: the closure also returns normally from its shutdown arm and after recovering the panic of a send on the closed channel of a dying stream - those outcomes are reported as delivered, the caller stops retrying and the task is dropped")
				return
			}
		}
		res.Undec(rule, name+": delivered flag", fnPos(c.Prog, f), "no captured bool flag set by the guarded-send closure found")
		return
	}
	if delivered != nil {
		// stores of true to the cell: only inside the closure, in the send arm
		okStore := false
		why := "the delivered flag is never set"
		for _, a := range flow.AnonFuncsDeep(f) {
			for _, b := range a.Blocks {
				for _, ins := range b.Instrs {
					st, ok := ins.(*ssa.Store)
					if !ok {
						continue
					}
					fv, ok := st.Addr.(*ssa.FreeVar)
					if !ok || freeVarBinding(fv) != ssa.Value(delivered) {
						continue
					}
					if v, isC := flow.ConstBool(st.Val); !isC || !v {
						continue
					}
					// block must be the arm of a send state
					sels := selectsOf(a)
					inSendArm := false
					for _, s := range sels {
						for i, state := range s.States {
							if state.Dir == types.SendOnly {
								arm := selectArmBlock(s, i)
								if arm != nil && (arm == b || arm.Dominates(b)) {
									inSendArm = true
									// the value sent is the routed message/ack parameter
								}
							}
						}
					}
					if inSendArm {
						okStore = true
					} else {
						okStore, why = false, "delivered is set outside the arm in which the channel send completed"
					}
				}
			}
		}
		for _, b := range f.Blocks {
			for _, ins := range b.Instrs {
				if st, ok := ins.(*ssa.Store); ok && st.Addr == ssa.Value(delivered) {
					if v, isC := flow.ConstBool(st.Val); isC && v {
						okStore, why = false, "delivered is set to true outside the guarded send"
					}
				}
			}
		}
		res.Check(okStore, rule, name+": delivered is set only when the local send completed", fnPos(c.Prog, f), "store in the send arm of the select", why)
	}

	// forward call
	fwdCalls := flow.FindCalls(f, func(cc *ssa.CallCommon) bool { return flow.IsCallTo(cc, proxyPkg, "intraProxyManager", fwd) })
	if len(fwdCalls) != 1 {
		res.Undec(rule, name+": intra-proxy forward call", fnPos(c.Prog, f), fmt.Sprintf("%d calls of %s", len(fwdCalls), fwd))
		return
	}
	fc := fwdCalls[0].(*ssa.Call)
	ferr := errResultOf(fc)
	// returns
	nTrue := 0
	for _, b := range f.Blocks {
		for _, ins := range b.Instrs {
			ret, ok := ins.(*ssa.Return)
			if !ok {
				continue
			}
			v, isC := flow.ConstBool(ret.Results[0])
			if !isC {
				res.Undec(rule, fmt.Sprintf("%s: return in block %d", name, b.Index), instrPos(c.Prog, ret), "non-constant result")
				continue
			}
			if !v {
				continue
			}
			nTrue++
			byLocal := false
			for _, g := range flow.NormGuards(flow.Guards(b)) {
				if g.Side && isLocalFlag(g.Cond) {
					byLocal = true
				}
			}
			byRemote := ferr != nil && guardedErrNil(b, ferr) && flow.InstrDominates(fc, ret)
			construct := fmt.Sprintf("%s: `return true` in block %d follows a completed hand-off", name, b.Index)
			res.Check(byLocal || byRemote, rule, construct, instrPos(c.Prog, ret), map[bool]string{true: "delivered == true", false: "intra-proxy send returned nil"}[byLocal], "true is returned although neither the local send completed nor the intra-proxy send succeeded: the caller marks the message as delivered and it is silently dropped")
		}
	}
	if nTrue < 2 {
		res.Undec(rule, name+": success returns", fnPos(c.Prog, f), fmt.Sprintf("%d `return true` found, 2 confirmed by hand", nTrue))
	}
	// no double delivery: from the delivered==true edge the forward is unreachable
	double := false
	for _, b := range f.Blocks {
		iff := lastIfOf(b)
		if iff == nil {
			continue
		}
		if isLocalFlag(iff.Cond) {
			if flow.ReachBlock(b.Succs[0], fc.Block(), nil) {
				double = true
			}
		}
	}
	res.Check(!double, rule, name+": no remote forward after a completed local hand-off", instrPos(c.Prog, fc), "the delivered branch returns", "after the message was handed to the local stream a path still reaches the intra-proxy forward: the message would be delivered twice")
	// local first: every path to the owner lookup passes the local channel lookup
	owner := flow.FindCalls(f, func(cc *ssa.CallCommon) bool { return flow.IsCallTo(cc, proxyPkg, "shardManagerImpl", "getShardOwner") })
	local := flow.FindCalls(f, func(cc *ssa.CallCommon) bool { return flow.IsCallTo(cc, proxyPkg, "shardManagerImpl", getChan) })
	okOrder := len(owner) == 1 && len(local) == 1
	if okOrder {
		r := flow.FindPath(flow.Point{Block: f.Blocks[0]}, func(x ssa.Instruction) bool { return x == ssa.Instruction(owner[0]) }, func(x ssa.Instruction) bool { return x == ssa.Instruction(local[0]) }, nil)
		okOrder = !r.Found
		// keyed by the same shard
		if !flow.SameValue(owner[0].Common().Args[1], local[0].Common().Args[1]) {
			okOrder = false
		}
	}
	res.Check(okOrder, rule, name+": the local stream is tried before the owner lookup, for the same shard", fnPos(c.Prog, f), getChan+"(shard) precedes getShardOwner(shard)", "the remote owner is consulted without first trying the local stream of that shard")
	// forward only to another node
	okOther := false
	for _, g := range flow.NormGuards(flow.Guards(fc.Block())) {
		if bo, isB := g.Cond.(*ssa.BinOp); isB && bo.Op == token.NEQ && g.Side {
			if call, isC := bo.Y.(*ssa.Call); isC && flow.IsCallTo(&call.Call, proxyPkg, "shardManagerImpl", "GetNodeName") {
				okOther = true
			}
		}
	}
	res.Check(okOther, rule, name+": forwards only to an owner other than this node", instrPos(c.Prog, fc), "owner != sm.GetNodeName()", "a shard believed to be owned by this very node is forwarded to itself")
	// the forward carries the caller's message and addresses the looked-up owner
	if ex, isEx := fc.Call.Args[2].(*ssa.Extract); !isEx || ex.Tuple != ssa.Value(owner[0].(*ssa.Call)) || ex.Index != 0 {
		res.Viol(rule, name+": forward is addressed to the looked-up owner", instrPos(c.Prog, fc), "the peer the message is forwarded to is not the result of getShardOwner")
	} else {
		res.Hold(rule, name+": forward is addressed to the looked-up owner", instrPos(c.Prog, fc), "ok")
	}
}

func checkNotifyMsg(c *Ctx, res *report.Result) {
	rule := "O9.2"
	f := resolve(c, res, rule, anchor{"proxy", "*shardDelegate", "NotifyMsg"})
	if f == nil {
		return
	}
	unreg := flow.FindCalls(f, func(cc *ssa.CallCommon) bool {
		return flow.IsCallTo(cc, proxyPkg, "shardManagerImpl", "UnregisterShard")
	})
	if len(unreg) != 1 {
		res.Undec(rule, "NotifyMsg: UnregisterShard call", fnPos(c.Prog, f), fmt.Sprintf("%d calls", len(unreg)))
		return
	}
	u := unreg[0]
	var before *ssa.Call
	regGuard := false
	for _, g := range flow.NormGuards(flow.Guards(u.Block())) {
		if call, ok := g.Cond.(*ssa.Call); ok && g.Side {
			if cal := flow.StaticCallee(&call.Call); cal != nil && cal.Name() == "Before" {
				before = call
			}
		}
		if bo, ok := g.Cond.(*ssa.BinOp); ok && bo.Op == token.EQL && g.Side {
			if s, isS := flow.ConstString(bo.Y); isS && s == "register" {
				regGuard = true
			}
		}
		if ld := flow.ResolveLoad(g.Cond); ld != g.Cond {
			if bo, ok := ld.(*ssa.BinOp); ok && bo.Op == token.EQL && g.Side {
				if s, isS := flow.ConstString(bo.Y); isS && s == "register" {
					regGuard = true
				}
			}
		}
	}
	// the eviction is reached for every decodable register announcement that names a locally held, older
	// shard: no other condition (e.g. the sender's presence in the asynchronously merged membership table)
	// may stand between the announcement and the eviction
	for _, g := range flow.NormGuards(flow.Guards(u.Block())) {
		cond := g.Cond
		if ld := flow.ResolveLoad(cond); ld != nil {
			cond = ld
		}
		k := classifyCond(cond, g.Side)
		allowed := false
		switch k.kind {
		case "nil", "nilval":
			allowed = !k.truth
		case "errnil":
			allowed = k.truth
		case "call":
			allowed = strings.HasSuffix(k.arg, "Before") && k.truth
		case "other":
			switch x := cond.(type) {
			case *ssa.BinOp:
				if sv, isS := flow.ConstString(x.Y); isS && sv == "register" {
					allowed = true
				}
			case *ssa.Extract:
				// the comma-ok of the localShards lookup
				if lk, isL := x.Tuple.(*ssa.Lookup); isL && x.Index == 1 && g.Side {
					if _, fld, okf := flow.FieldLoadOf(lk.X); okf && fld == "localShards" {
						allowed = true
					}
				}
			}
		}
		if !allowed {
			res.Viol(rule, "NotifyMsg: every register announcement for a locally held older shard reaches the eviction", instrPos(c.Prog, u), "the eviction is additionally conditional on "+flow.Describe(cond)+fmt.Sprintf(" = %v", g.Side)+": an announcement that fails this test is dropped for good (announcements are not repeated), so both instances keep the shard")
		}
	}
	res.Hold(rule, "NotifyMsg: eviction guard set", instrPos(c.Prog, u), "guards are only: decodable, manager/listener present, type == register, shard held locally, local claim older")
	// the same as a path rule (catches early returns that no single condition dominates): with the legitimate
	// exits pruned, no path from entry reaches a return without passing the eviction
	legit := func(a, b *ssa.BasicBlock) bool {
		if len(a.Instrs) == 0 {
			return false
		}
		br, isIf := a.Instrs[len(a.Instrs)-1].(*ssa.If)
		if !isIf || len(a.Succs) != 2 {
			return false
		}
		side := b == a.Succs[0]
		cond := br.Cond
		if ld := flow.ResolveLoad(cond); ld != nil {
			cond = ld
		}
		k := classifyCond(cond, side)
		switch k.kind {
		case "nil", "nilval":
			return k.truth
		case "errnil":
			return !k.truth
		case "call":
			return strings.HasSuffix(k.arg, "Before") && !k.truth
		case "other":
			c2 := k.val
			switch x := c2.(type) {
			case *ssa.BinOp:
				if sv, isS := flow.ConstString(x.Y); isS && sv == "register" {
					return (x.Op == token.EQL) != k.truth
				}
			case *ssa.Extract:
				if lk, isL := x.Tuple.(*ssa.Lookup); isL && x.Index == 1 {
					if _, fld, okf := flow.FieldLoadOf(lk.X); okf && fld == "localShards" {
						return !k.truth
					}
				}
			}
		}
		return false
	}
	pr := flow.FindPath(flow.Point{Block: f.Blocks[0]}, flow.IsReturn, func(x ssa.Instruction) bool { return x == ssa.Instruction(u) }, func(a, b *ssa.BasicBlock) bool { return !legit(a, b) })
	res.Check(!pr.Found, rule, "NotifyMsg: no exit skips the eviction of an older local claim", fnPos(c.Prog, f), "every return is behind: undecodable message, no manager/listener, type != register, shard not held locally, or local claim not older", "a register announcement for a locally held, older shard can be dropped without evicting the local claim (path "+flow.BlockPath(pr.Via)+" returns at "+instrPosOrEmpty(c, pr.End)+"): announcements are sent once, so both instances keep the shard")
	okBefore := false
	why := "the local unregistration is not conditional on localShard.Created.Before(msg.Timestamp)"
	if before != nil {
		recv, _ := flow.FieldPath(before.Call.Args[0])
		arg, _ := flow.FieldPath(before.Call.Args[1])
		if strings.HasSuffix(recv, "Created") && strings.HasSuffix(arg, "Timestamp") {
			okBefore = true
		} else {
			why = fmt.Sprintf("the comparison is %s.Before(%s): the newer claim must win, i.e. local.Created.Before(msg.Timestamp)", recv, arg)
		}
	}
	res.Check(okBefore, rule, "NotifyMsg: the local claim is dropped only if it is older than the announcement", instrPos(c.Prog, u), "localShard.Created.Before(msg.Timestamp)", why)
	res.Check(regGuard, rule, "NotifyMsg: only register announcements evict", instrPos(c.Prog, u), "msg.Type == \"register\"", "an unregister announcement can evict the local registration")
	// identity passed: the local entry's own Created, key = announced shard
	p1, _ := flow.FieldPath(u.Common().Args[1])
	p2, _ := flow.FieldPath(u.Common().Args[2])
	res.Check(strings.HasSuffix(p1, "ClientShard") && strings.HasSuffix(p2, "Created"), rule, "NotifyMsg: UnregisterShard(msg.ClientShard, localShard.Created)", instrPos(c.Prog, u), p1+", "+p2, "the eviction does not pass the local entry's own timestamp as identity ("+p1+", "+p2+"): the guarded removal would not match, or would match a newer entry")
	// the local entry is looked up under the lock by the announced shard
	okLook := false
	for _, b := range f.Blocks {
		for _, ins := range b.Instrs {
			if lk, ok := ins.(*ssa.Lookup); ok {
				if _, fld, okf := flow.FieldLoadOf(lk.X); okf && fld == "localShards" {
					okLook = true
				}
			}
		}
	}
	res.Check(okLook, rule, "NotifyMsg: local claim is read from localShards", fnPos(c.Prog, f), "ok", "the local claim is not taken from the local shard table")
}

func checkLeave(c *Ctx, res *report.Result) {
	rule := "O9.3"
	if f := resolve(c, res, rule, anchor{"proxy", "*shardEventDelegate", "NotifyLeave"}); f != nil {
		ok := false
		for _, call := range flow.Calls(f) {
			cc := call.Common()
			if bi, isB := cc.Value.(*ssa.Builtin); isB && bi.Name() == "delete" {
				if _, fld, okf := flow.FieldLoadOf(cc.Args[0]); okf && fld == "remoteNodeStates" {
					// the key is the Name of the node the callback was given (its first parameter after the receiver)
					if base, fld, okl := flow.FieldLoadOf(cc.Args[1]); okl && fld == "Name" && flow.HeldAt(f, call, "remoteNodeStatesMu", true) {
						if par, isPar := flow.Strip(flow.ResolveLoad(base)).(*ssa.Parameter); isPar && len(f.Params) > 1 && par == f.Params[1] {
							ok = true
						}
					}
				}
			}
		}
		res.Check(ok, rule, "NotifyLeave: the leaver's shard state is deleted under the lock", fnPos(c.Prog, f), "delete(remoteNodeStates, node.Name)", "a node that left keeps owning its shards in this instance's view: messages would be forwarded to a dead peer")
	}
	if f := resolve(c, res, rule, anchor{"proxy", "*shardManagerImpl", "GetRemoteShardsForPeer"}); f != nil {
		ranged := false
		skipSelf := false
		for _, b := range f.Blocks {
			for _, ins := range b.Instrs {
				if rg, ok := ins.(*ssa.Range); ok {
					if _, fld, okf := flow.FieldLoadOf(rg.X); okf && fld == "remoteNodeStates" {
						ranged = true
					}
				}
				if bo, ok := ins.(*ssa.BinOp); ok && bo.Op == token.EQL {
					if call, isC := bo.Y.(*ssa.Call); isC && flow.IsCallTo(&call.Call, proxyPkg, "shardManagerImpl", "GetNodeName") {
						skipSelf = true
					}
				}
			}
		}
		res.Check(ranged && skipSelf, rule, "GetRemoteShardsForPeer: reads remoteNodeStates and skips the local node", fnPos(c.Prog, f), "ok", "the owner view is not derived from the merged remote states minus this node")
	}
	if f := resolve(c, res, rule, anchor{"proxy", "*shardManagerImpl", "getShardOwner"}); f != nil {
		calls := flow.FindCalls(f, func(cc *ssa.CallCommon) bool {
			return flow.IsCallTo(cc, proxyPkg, "shardManagerImpl", "GetRemoteShardsForPeer")
		})
		ok := len(calls) == 1
		if ok {
			if s, isS := flow.ConstString(calls[0].Common().Args[1]); !isS || s != "" {
				ok = false
			}
		}
		// compares ids with ==
		cmp := false
		for _, b := range f.Blocks {
			for _, ins := range b.Instrs {
				if bo, isB := ins.(*ssa.BinOp); isB && bo.Op == token.EQL && flow.NamedIs(bo.X.Type(), srvPath+"/client/history", "ClusterShardID") {
					cmp = true
				}
			}
		}
		res.Check(ok && cmp, rule, "getShardOwner: owner = the peer whose state lists exactly this shard", fnPos(c.Prog, f), "ok", "the owner lookup does not search all peers' states for the exact shard id")
	}
}

// checkStreamSendFaithful: the stream-level senders of the intra-proxy path return nil only after the gRPC stream's
// Send returned nil; every other outcome of Send (io.EOF included: the peer has closed the stream, nothing was
// delivered) is returned as an error.
func checkStreamSendFaithful(c *Ctx, res *report.Result, rule string) {
	for _, a := range []anchor{{"proxy", "*intraProxyStreamReceiver", "sendAck"}, {"proxy", "*intraProxyStreamSender", "sendReplicationMessages"}} {
		f := resolve(c, res, rule, a)
		if f == nil {
			continue
		}
		var send *ssa.Call
		for _, call := range flow.Calls(f) {
			if cv, ok := call.(*ssa.Call); ok && cv.Call.IsInvoke() && cv.Call.Method.Name() == "Send" {
				send = cv
			}
		}
		if send == nil {
			res.Viol(rule, shortFn(f)+": stream Send", fnPos(c.Prog, f), "the function never sends on its stream")
			continue
		}
		bad := ""
		n := 0
		for _, b := range f.Blocks {
			if b == f.Recover || len(b.Instrs) == 0 {
				continue
			}
			ret, ok := b.Instrs[len(b.Instrs)-1].(*ssa.Return)
			if !ok || len(ret.Results) != 1 || !flow.IsNilConst(flow.Ret(ret)[0]) {
				continue
			}
			n++
			if !guardedErrNil(b, send) || !flow.InstrDominates(send, ret) {
				bad = instrPos(c.Prog, ret)
			}
		}
		res.Check(bad == "" && n > 0, rule, shortFn(f)+": nil only after the stream's Send returned nil", instrPos(c.Prog, send), "every nil return is on the err == nil side of Send", "nil is returned at "+bad+" although Send did not succeed (e.g. on io.EOF - the peer has already closed the stream): the shard manager reports the message or acknowledgement as delivered and nobody retries it")
	}
}

func checkIntraSenders(c *Ctx, res *report.Result, rule string) {
	checkStreamSendFaithful(c, res, rule)
	for _, spec := range []struct{ name, inner string }{{"sendReplicationMessages", "sendReplicationMessages"}, {"sendAck", "sendAck"}} {
		f := resolve(c, res, rule, anchor{"proxy", "*intraProxyManager", spec.name})
		if f == nil {
			continue
		}
		var inner []*ssa.Call
		for _, call := range flow.Calls(f) {
			cc := call.Common()
			if cal := flow.StaticCallee(cc); cal != nil && cal.Name() == spec.inner && cal != f {
				if cv, ok := call.(*ssa.Call); ok {
					inner = append(inner, cv)
				}
			}
		}
		if len(inner) == 0 {
			res.Viol(rule, "intraProxyManager."+spec.name+": stream send", fnPos(c.Prog, f), "the manager never calls the peer stream's send")
			continue
		}
		// the stream used is the one registered for exactly this (target shard, source shard) pair: the peer credits
		// what arrives on a stream to that stream's pair, so a message or ack sent over "any stream to the same peer"
		// is attributed to another target shard
		for _, ic := range inner {
			var origins []string
			seen := map[ssa.Value]bool{}
			var walk func(v ssa.Value, d int)
			walk = func(v ssa.Value, d int) {
				v = flow.Strip(flow.ResolveLoad(v))
				if v == nil || seen[v] || d > 8 {
					return
				}
				seen[v] = true
				switch x := v.(type) {
				case *ssa.Phi:
					for _, e := range x.Edges {
						walk(e, d+1)
					}
				case *ssa.Const:
					// nil
				case *ssa.Extract:
					if lk, isL := x.Tuple.(*ssa.Lookup); isL && x.Index == 0 {
						origins = append(origins, lookupDesc(f, lk))
					} else if _, isN := x.Tuple.(*ssa.Next); isN {
						origins = append(origins, "range over the table")
					} else {
						origins = append(origins, "?"+flow.Describe(x))
					}
				case *ssa.Lookup:
					origins = append(origins, lookupDesc(f, x))
				default:
					origins = append(origins, "?"+flow.Describe(v))
				}
			}
			if len(ic.Call.Args) > 0 {
				walk(ic.Call.Args[0], 0)
			}
			okPair := len(origins) > 0
			for _, o := range origins {
				if !strings.HasSuffix(o, "[own pair]") {
					okPair = false
				}
			}
			res.Check(okPair, rule, "intraProxyManager."+spec.name+": the stream used is the one registered for this (target, source) pair", instrPos(c.Prog, ic), strings.Join(origins, ", "), "the stream on which the "+spec.name+" is sent can come from "+strings.Join(origins, ", ")+": the peer attributes what it receives to the stream's own shard pair, so another target shard's acknowledgement level is overwritten (or another target receives the tasks)")
		}
		for _, b := range f.Blocks {
			if b == f.Recover {
				continue
			}
			for _, ins := range b.Instrs {
				ret, ok := ins.(*ssa.Return)
				if !ok {
					continue
				}
				rv := flow.Ret(ret)[0]
				mayBeNil := func(v ssa.Value, d int) bool { return errMayBeNil(v, b, d) }
				if !mayBeNil(rv, 0) {
					continue
				}
				good := false
				for _, ic := range inner {
					if e := errResultOf(ic); e != nil && guardedErrNil(b, e) && flow.InstrDominates(ic, ret) {
						good = true
					}
				}
				res.Check(good, rule, fmt.Sprintf("intraProxyManager.%s: nil only after the stream send succeeded (return in block %d)", spec.name, b.Index), instrPos(c.Prog, ret), "ok", "nil is (or can be: an error variable that is still nil when no send was attempted) returned although nothing was sent: the shard manager reports the message as delivered, the receiver stops retrying, and the target's next confirmation acknowledges the dropped tasks")
			}
		}
	}
}

func instrPosOrEmpty(c *Ctx, ins ssa.Instruction) string {
	if ins == nil {
		return ""
	}
	return instrPos(c.Prog, ins)
}

// checkReconcilePrune: see O9.6.
func checkReconcilePrune(c *Ctx, res *report.Result, rule string) {
	f := resolve(c, res, rule, anchor{"proxy", "*intraProxyManager", "ReconcilePeerStreams"})
	if f == nil {
		return
	}
	n := 0
	for _, g := range flow.AnonFuncsDeep(f) {
		if len(flow.FindCalls(g, func(cc *ssa.CallCommon) bool {
			return flow.IsCallTo(cc, proxyPkg, "intraProxyManager", "closePeerShardLocked")
		})) == 0 {
			continue
		}
		for _, call := range flow.Calls(g) {
			bi, isB := call.Common().Value.(*ssa.Builtin)
			if !isB || bi.Name() != "append" {
				continue
			}
			n++
			b := call.Block()
			bad := ""
			for _, pred := range b.Preds {
				absent := false
				for _, gd := range flow.NormGuards(flow.EdgeGuards(pred, b)) {
					ex, isEx := gd.Cond.(*ssa.Extract)
					if !isEx || ex.Index != 1 || gd.Side {
						continue
					}
					if lk, isL := ex.Tuple.(*ssa.Lookup); isL && lk.CommaOk {
						if _, isMap := lk.X.Type().Underlying().(*types.Map); isMap {
							absent = true
						}
					}
				}
				if !absent {
					bad = fmt.Sprintf("edge %d -> %d", pred.Index, b.Index)
				}
			}
			res.Check(bad == "", rule, fmt.Sprintf("ReconcilePeerStreams: prune decision #%d is 'key absent from the desired map'", n), instrPos(c.Prog, call), "every way into the close list passes `_, ok := desired[key]; !ok`", "an entry can be queued for closing although its key is still desired ("+bad+"): with two claimants of a shard the desired map names one of them arbitrarily, the other peer's live stream entry is dropped and - being created only by the peer's own connection - never comes back, so messages for the shard are reported undelivered for good")
		}
	}
	if n < 2 {
		res.Undec(rule, "ReconcilePeerStreams: prune decisions", fnPos(c.Prog, f), fmt.Sprintf("%d found, 2 confirmed by hand (receivers, senders)", n))
	}
}

// checkNodeMetaNeverEmpty: see O9.8.
func checkNodeMetaNeverEmpty(c *Ctx, res *report.Result, rule string) {
	f := resolve(c, res, rule, anchor{"proxy", "*shardDelegate", "NodeMeta"})
	if f == nil {
		return
	}
	n := 0
	for _, b := range f.Blocks {
		if b == f.Recover || len(b.Instrs) == 0 {
			continue
		}
		ret, ok := b.Instrs[len(b.Instrs)-1].(*ssa.Return)
		if !ok || len(ret.Results) != 1 {
			continue
		}
		v := flow.Ret(ret)[0]
		if !flow.IsNilConst(v) {
			continue
		}
		n++
		okGuard := false
		var gtxt []string
		for _, pred := range append([]*ssa.BasicBlock{}, b.Preds...) {
			_ = pred
		}
		// every way into the block must be one of the reviewed reasons
		allEdges := true
		for _, pred := range b.Preds {
			edgeOK := false
			for _, g := range flow.NormGuards(flow.EdgeGuards(pred, b)) {
				k := classifyCond(g.Cond, g.Side)
				gtxt = append(gtxt, k.String())
				if (k.kind == "nil" || k.kind == "nilval") && k.truth {
					edgeOK = true
				}
				if k.kind == "errnil" && !k.truth {
					edgeOK = true
				}
			}
			if !edgeOK {
				allEdges = false
			}
		}
		okGuard = allEdges && len(b.Preds) > 0
		res.Check(okGuard, rule, fmt.Sprintf("NodeMeta: empty state #%d only without a manager/configuration or after a marshal error", n), instrPos(c.Prog, ret), "guarded by a nil test or err != nil", "NodeMeta can return an empty state for another reason ("+strings.Join(gtxt, "; ")+"): memberlist never hands an empty state to MergeRemoteState, so the peers keep this node's previous shard list - a node that lost its shards to a newer claim stays their owner in every peer's view")
	}
	res.Analysed["nodemeta_nil_returns"] = n
}

// lookupDesc describes a lookup in a peer's stream table: "<table>[own pair]" when the key is the struct built from
// the enclosing function's own (target shard, source shard) parameters.
func lookupDesc(f *ssa.Function, lk *ssa.Lookup) string {
	_, fld, _ := flow.FieldLoadOf(lk.X)
	keyDesc := "?"
	kl := flow.ResolveLoad(lk.Index)
	var al *ssa.Alloc
	if ld, isLd := kl.(*ssa.UnOp); isLd {
		al, _ = ld.X.(*ssa.Alloc)
	}
	if al != nil {
		fs, _ := flow.FieldStores(al)
		t, okT := fs["targetShard"].(*ssa.Parameter)
		sv, okS := fs["sourceShard"].(*ssa.Parameter)
		if okT && okS && len(f.Params) >= 5 && t == f.Params[3] && sv == f.Params[4] {
			keyDesc = "own pair"
		} else {
			keyDesc = "another key"
		}
	}
	return fld + "[" + keyDesc + "]"
}
