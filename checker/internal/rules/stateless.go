package rules

import (
	"fmt"
	"go/token"
	"go/types"
	"sort"
	"strings"

	"golang.org/x/tools/go/ssa"

	"s2scheck/internal/flow"
	"s2scheck/internal/report"
)

// checkStateless: the translation / access-control / repair code keeps no memory between messages that can change
// what it does. In the given packages every piece of state that a shipped function (other than package
// initialisers and constructors of fresh values) writes - a package-level variable, a receiver field, a map or
// sync.Map rooted in one of those - is located, and every read of that state anywhere in the package is examined:
// the state is harmless only if nothing but logging / metrics depends on what was read (no return value and no
// other call is data- or control-dependent on it). A cache keyed by the message's type or content ("this type had
// no search attributes last time", "reuse the legacy message allocated last time", "this method was already
// refused once") makes the treatment of one message depend on earlier ones.
func checkStateless(c *Ctx, res *report.Result, rule string, rels []string, exempt map[string]string) {
	type stateKey struct{ root, kind string } // root: "global:<name>" or "field:<Type>.<field>"
	rootOf := func(f *ssa.Function, v ssa.Value) string {
		var recv ssa.Value
		if f.Signature.Recv() != nil && len(f.Params) > 0 {
			recv = f.Params[0]
		}
		field := ""
		for i := 0; i < 8 && v != nil; i++ {
			switch x := v.(type) {
			case *ssa.Global:
				return "global:" + x.Name()
			case *ssa.FieldAddr:
				field = flow.FieldName(x.X.Type(), x.Field)
				if nt := namedOf(x.X.Type()); nt != nil {
					base := flow.Strip(flow.ResolveLoad(x.X))
					if recv != nil && base == recv {
						return "field:" + nt.Obj().Name() + "." + field
					}
					if _, isAlloc := base.(*ssa.Alloc); isAlloc {
						return "" // a fresh value under construction
					}
					// a field of some other shared object of the package
					if nt.Obj().Pkg() != nil && f.Package() != nil && nt.Obj().Pkg() == f.Package().Pkg {
						return "field:" + nt.Obj().Name() + "." + field
					}
				}
				v = x.X
			case *ssa.UnOp:
				v = x.X
			case *ssa.IndexAddr:
				v = x.X
			case *ssa.Field:
				v = x.X
			case *ssa.Slice:
				v = x.X
			default:
				return ""
			}
		}
		return ""
	}
	var pkgs []*ssa.Package
	for _, rel := range rels {
		sp, err := c.Prog.SSAPkg(rel)
		if err != nil {
			res.Undec(rule, rel, "", err.Error())
			continue
		}
		pkgs = append(pkgs, sp)
	}
	inPkgs := func(f *ssa.Function) bool {
		for _, p := range pkgs {
			if f.Package() == p {
				return true
			}
		}
		return false
	}
	var funcs []*ssa.Function
	for _, f := range c.Prog.RepoFuncs() {
		if inPkgs(f) && isShippedFunc(f) && f.Name() != "init" && !strings.HasPrefix(f.Name(), "init#") && f.Synthetic == "" {
			funcs = append(funcs, f)
		}
	}
	// 1. writes
	writes := map[string][]string{} // root -> descriptions
	writePos := map[string]string{}
	for _, f := range funcs {
		for _, b := range f.Blocks {
			for _, ins := range b.Instrs {
				root, what := "", ""
				switch x := ins.(type) {
				case *ssa.Store:
					root, what = rootOf(f, x.Addr), "store"
				case *ssa.MapUpdate:
					root, what = rootOf(f, x.Map), "map write"
					if root == "" {
						root = rootOf(f, flow.ResolveLoad(x.Map))
					}
				case ssa.CallInstruction:
					cal := flow.StaticCallee(x.Common())
					if cal != nil && cal.Signature.Recv() != nil && flow.NamedIs(cal.Signature.Recv().Type(), "sync", "Map") {
						switch cal.Name() {
						case "Store", "LoadOrStore", "Swap", "CompareAndSwap", "Delete", "LoadAndDelete", "CompareAndDelete", "Clear":
							if len(x.Common().Args) > 0 {
								root, what = rootOf(f, x.Common().Args[0]), "sync.Map."+cal.Name()
							}
						}
					}
					// in-place writes into a shared slice's backing array: append onto a (re-sliced) view of the state
					// whose result is not the state's own new value, copy into it, and the in-place helpers of slices / sort
					if bi, isB := x.Common().Value.(*ssa.Builtin); isB && len(x.Common().Args) > 0 {
						switch bi.Name() {
						case "append":
							// the accumulator, through loop phis and earlier appends
							seen := map[ssa.Value]bool{}
							var bases func(v ssa.Value, d int) []*ssa.Slice
							bases = func(v ssa.Value, d int) []*ssa.Slice {
								if d > 6 || seen[v] {
									return nil
								}
								seen[v] = true
								switch y := v.(type) {
								case *ssa.Slice:
									return []*ssa.Slice{y}
								case *ssa.Phi:
									var out []*ssa.Slice
									for _, e := range y.Edges {
										out = append(out, bases(e, d+1)...)
									}
									return out
								case *ssa.Call:
									if b2, ok := y.Call.Value.(*ssa.Builtin); ok && b2.Name() == "append" {
										return bases(y.Call.Args[0], d+1)
									}
								}
								return nil
							}
							for _, sl := range bases(x.Common().Args[0], 0) {
								if sl.Max != nil {
									continue
								}
								if _, isArr := sl.X.Type().Underlying().(*types.Pointer); isArr {
									continue // slice of a local array (varargs)
								}
								if r := rootOf(f, sl.X); r != "" {
									root, what = r, "append onto a re-sliced view (overwrites the shared backing array)"
								} else if r := rootOf(f, flow.ResolveLoad(sl.X)); r != "" {
									root, what = r, "append onto a re-sliced view (overwrites the shared backing array)"
								}
							}
						case "copy":
							if r := rootOf(f, x.Common().Args[0]); r != "" {
								root, what = r, "copy into the shared slice"
							}
						}
					}
					if cal != nil && cal.Pkg != nil && len(x.Common().Args) > 0 {
						inPlace := false
						switch cal.Pkg.Pkg.Path() {
						case "slices":
							switch originName(cal) {
							case "Delete", "DeleteFunc", "Insert", "Compact", "CompactFunc", "Reverse", "Sort", "SortFunc", "SortStableFunc", "Replace":
								inPlace = true
							}
						case "sort":
							switch cal.Name() {
							case "Slice", "SliceStable", "Strings", "Ints", "Sort", "Stable":
								inPlace = true
							}
						}
						if inPlace {
							if r := rootOf(f, x.Common().Args[0]); r != "" {
								root, what = r, cal.Pkg.Pkg.Name()+"."+originName(cal)+" (in place)"
							}
						}
					}
					if bi, isB := x.Common().Value.(*ssa.Builtin); isB && bi.Name() == "delete" && len(x.Common().Args) > 0 {
						root, what = rootOf(f, x.Common().Args[0]), "map delete"
						if root == "" {
							root = rootOf(f, flow.ResolveLoad(x.Common().Args[0]))
						}
					}
				}
				if root == "" {
					continue
				}
				writes[root] = append(writes[root], shortFn(f)+": "+what)
				if writePos[root] == "" {
					writePos[root] = instrPos(c.Prog, ins)
				}
			}
		}
	}
	// 2. reads of written state, and what depends on them
	isLogCall := func(call ssa.CallInstruction) bool {
		cc := call.Common()
		if cc.IsInvoke() {
			switch cc.Method.Name() {
			case "Debug", "Info", "Warn", "Error", "DPanic", "Inc", "Add", "Observe", "Set", "With", "WithLabelValues":
				return true
			}
			return false
		}
		if cal := flow.StaticCallee(cc); cal != nil {
			n := cal.String()
			return strings.Contains(n, "/log") || strings.Contains(n, "tag.") || strings.Contains(n, "prometheus") || strings.Contains(n, "metrics.") || strings.HasPrefix(n, "fmt.")
		}
		return false
	}
	var roots []string
	for r := range writes {
		roots = append(roots, r)
	}
	sort.Strings(roots)
	viol := 0
	for _, root := range roots {
		key := root
		if why, ok := exempt[key]; ok {
			res.Hold(rule, "reviewed state: "+key, writePos[root], why)
			continue
		}
		influence := ""
		for _, f := range funcs {
			// values read from the state in f
			reads := map[ssa.Value]bool{}
			for _, b := range f.Blocks {
				for _, ins := range b.Instrs {
					switch x := ins.(type) {
					case *ssa.UnOp:
						if x.Op == token.MUL && rootOf(f, x.X) == root {
							if _, isFA := x.X.(*ssa.FieldAddr); isFA {
								reads[x] = true
							}
							if _, isG := x.X.(*ssa.Global); isG {
								reads[x] = true
							}
						}
					case *ssa.Lookup:
						if rootOf(f, x.X) == root || rootOf(f, flow.ResolveLoad(x.X)) == root {
							reads[x] = true
						}
					case *ssa.Call:
						cal := flow.StaticCallee(&x.Call)
						if cal != nil && cal.Signature.Recv() != nil && flow.NamedIs(cal.Signature.Recv().Type(), "sync", "Map") && len(x.Call.Args) > 0 && rootOf(f, x.Call.Args[0]) == root {
							switch cal.Name() {
							case "Load", "LoadOrStore", "LoadAndDelete", "Swap", "CompareAndSwap", "Range":
								reads[x] = true
							}
						}
					}
				}
			}
			if len(reads) == 0 {
				continue
			}
			// transitive data dependants within f
			dep := map[ssa.Value]bool{}
			var mark func(v ssa.Value)
			mark = func(v ssa.Value) {
				if dep[v] {
					return
				}
				dep[v] = true
				if refs := v.Referrers(); refs != nil {
					for _, r := range *refs {
						if rv, ok := r.(ssa.Value); ok {
							switch r.(type) {
							case *ssa.Extract, *ssa.UnOp, *ssa.BinOp, *ssa.Phi, *ssa.TypeAssert, *ssa.ChangeType, *ssa.ChangeInterface, *ssa.MakeInterface, *ssa.Convert, *ssa.Field, *ssa.FieldAddr, *ssa.Index, *ssa.IndexAddr, *ssa.Lookup, *ssa.Slice:
								mark(rv)
							}
						}
					}
				}
			}
			// the map/field value itself being re-stored is not an influence; start from the reads
			for v := range reads {
				// a load that only feeds a map write/lookup of the same state is bookkeeping; still mark: lookups are reads
				mark(v)
			}
			for _, b := range f.Blocks {
				controlled := false
				for _, g := range flow.NormGuards(flow.Guards(b)) {
					if dep[g.Cond] {
						controlled = true
					}
				}
				for _, ins := range b.Instrs {
					switch x := ins.(type) {
					case *ssa.Return:
						for _, rv := range flow.Ret(x) {
							if dep[rv] {
								influence = shortFn(f) + " returns a value read from it (" + instrPos(c.Prog, x) + ")"
							}
						}
						if controlled && b != f.Recover {
							// a return inside a branch that depends on the state: only harmful if some other path returns differently,
							// which we cannot rule out - except when the block is the function's single fall-through exit
							if len(f.Blocks) > 1 {
								influence = shortFn(f) + " returns under a condition read from it (" + instrPos(c.Prog, x) + ")"
							}
						}
					case ssa.CallInstruction:
						if _, isDefer := ins.(*ssa.Defer); isDefer {
							continue
						}
						argDep := false
						for _, a := range x.Common().Args {
							if dep[a] {
								argDep = true
							}
						}
						if (controlled || argDep) && !isLogCall(x) {
							// calls on the state itself (Store/Load/...) are bookkeeping
							cal := flow.StaticCallee(x.Common())
							if cal != nil && cal.Signature.Recv() != nil && flow.NamedIs(cal.Signature.Recv().Type(), "sync", "Map") {
								continue
							}
							if bi, isB := x.Common().Value.(*ssa.Builtin); isB && (bi.Name() == "len" || bi.Name() == "delete") {
								continue
							}
							influence = shortFn(f) + " calls " + flow.CalleeName(x.Common()) + " depending on it (" + instrPos(c.Prog, x) + ")"
						}
					case *ssa.Store, *ssa.MapUpdate, *ssa.Send:
						if controlled {
							// writes under a state-dependent condition other than to the state itself
							var addr ssa.Value
							switch y := ins.(type) {
							case *ssa.Store:
								addr = y.Addr
							case *ssa.MapUpdate:
								addr = y.Map
							}
							if addr != nil && (rootOf(f, addr) == root || rootOf(f, flow.ResolveLoad(addr)) == root) {
								continue
							}
							if st, isSt := ins.(*ssa.Store); isSt {
								// stores into locals (spills, variadic argument arrays, literals under construction)
								a := st.Addr
								local := false
								for i := 0; i < 6 && a != nil; i++ {
									switch y := a.(type) {
									case *ssa.Alloc:
										local = true
										a = nil
									case *ssa.IndexAddr:
										a = y.X
									case *ssa.FieldAddr:
										a = y.X
									default:
										a = nil
									}
								}
								if local {
									continue
								}
							}
							influence = shortFn(f) + " writes under a condition read from it (" + instrPos(c.Prog, ins) + ")"
						}
					}
				}
			}
		}
		w := writes[root]
		sort.Strings(w)
		construct := "no memory between messages: " + root
		if influence == "" {
			res.Hold(rule, construct, writePos[root], "written by "+strings.Join(uniq(w), "; ")+"; nothing but logging/metrics depends on what is read back")
			continue
		}
		viol++
		res.Viol(rule, construct, writePos[root], "state that outlives a message is written ("+strings.Join(uniq(w), "; ")+") and behaviour depends on it: "+influence+" - how a message is treated then depends on the messages seen before it")
	}
	res.Analysed["stateless_functions"] = len(funcs)
	if len(funcs) < 5 {
		res.Undec(rule, "functions scanned for retained state", "", fmt.Sprintf("%d", len(funcs)))
	}
	if viol == 0 {
		res.Hold(rule, "no function of "+strings.Join(rels, ", ")+" lets retained state decide what happens to a message", "", fmt.Sprintf("%d functions scanned, %d written state objects examined", len(funcs), len(roots)))
	}
}

func uniq(in []string) []string {
	var out []string
	seen := map[string]bool{}
	for _, s := range in {
		if !seen[s] {
			seen[s] = true
			out = append(out, s)
		}
	}
	return out
}

func originName(f *ssa.Function) string {
	if o := f.Origin(); o != nil {
		return o.Name()
	}
	return f.Name()
}
