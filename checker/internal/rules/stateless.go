package rules

import (
	"fmt"
	"go/types"
	"strings"

	"golang.org/x/tools/go/ssa"

	"s2scheck/internal/flow"
	"s2scheck/internal/report"
)

// checkStateless: the translation / repair code keeps no memory between messages. In the given packages no shipped
// function (other than package initialisers) stores into a package-level variable, into a map or sync.Map that
// is package-level or a field of its receiver, or into a field of its receiver at all. A cache keyed by the
// message's type or content makes the treatment of one message depend on earlier ones ("this type had no search
// attributes last time", "reuse the legacy message allocated last time").
func checkStateless(c *Ctx, res *report.Result, rule string, rels []string, exempt map[string]string) {
	n := 0
	viol := 0
	for _, rel := range rels {
		sp, err := c.Prog.SSAPkg(rel)
		if err != nil {
			res.Undec(rule, rel, "", err.Error())
			continue
		}
		for _, f := range c.Prog.RepoFuncs() {
			if f.Package() != sp || !isShippedFunc(f) || f.Name() == "init" || strings.HasPrefix(f.Name(), "init#") || f.Synthetic != "" {
				continue
			}
			n++
			var recv ssa.Value
			if f.Signature.Recv() != nil && len(f.Params) > 0 {
				recv = f.Params[0]
			}
			fromRecv := func(v ssa.Value) bool {
				for i := 0; i < 6 && v != nil; i++ {
					if recv != nil && flow.Strip(flow.ResolveLoad(v)) == recv {
						return true
					}
					switch x := v.(type) {
					case *ssa.FieldAddr:
						v = x.X
					case *ssa.UnOp:
						v = x.X
					case *ssa.Field:
						v = x.X
					default:
						return false
					}
				}
				return false
			}
			isGlobalBased := func(v ssa.Value) bool {
				for i := 0; i < 6 && v != nil; i++ {
					switch x := v.(type) {
					case *ssa.Global:
						return true
					case *ssa.FieldAddr:
						v = x.X
					case *ssa.UnOp:
						v = x.X
					case *ssa.IndexAddr:
						v = x.X
					default:
						return false
					}
				}
				return false
			}
			report1 := func(ins ssa.Instruction, what string) {
				key := shortFn(f) + ": " + what
				if why, ok := exempt[key]; ok {
					res.Hold(rule, "reviewed state: "+key, instrPos(c.Prog, ins), why)
					return
				}
				viol++
				res.Viol(rule, "no memory between messages: "+key, instrPos(c.Prog, ins), "the translation/repair code writes state that outlives the message ("+what+"): how a message is treated then depends on the messages seen before it")
			}
			for _, b := range f.Blocks {
				for _, ins := range b.Instrs {
					switch x := ins.(type) {
					case *ssa.Store:
						if isGlobalBased(x.Addr) {
							report1(ins, "store to a package-level variable")
						} else if fa, ok := x.Addr.(*ssa.FieldAddr); ok && fromRecv(fa.X) && f.Name() != "init" {
							// constructors build fresh values (Alloc), methods write their receiver
							report1(ins, "store to receiver field "+flow.FieldName(fa.X.Type(), fa.Field))
						}
					case *ssa.MapUpdate:
						if isGlobalBased(x.Map) || isGlobalBased(flow.ResolveLoad(x.Map)) {
							report1(ins, "write to a package-level map")
						} else if ld, ok := x.Map.(*ssa.UnOp); ok && fromRecv(ld.X) {
							report1(ins, "write to a map field of the receiver")
						}
					case ssa.CallInstruction:
						cal := flow.StaticCallee(x.Common())
						if cal == nil || cal.Signature.Recv() == nil || !flow.NamedIs(cal.Signature.Recv().Type(), "sync", "Map") {
							continue
						}
						switch cal.Name() {
						case "Store", "LoadOrStore", "Swap", "CompareAndSwap", "Delete", "LoadAndDelete", "CompareAndDelete", "Clear":
							where := "a local"
							if len(x.Common().Args) > 0 {
								if isGlobalBased(x.Common().Args[0]) {
									where = "a package-level"
								} else if fromRecv(x.Common().Args[0]) {
									where = "a receiver-field"
								}
							}
							report1(ins, fmt.Sprintf("%s on %s sync.Map", cal.Name(), where))
						}
					}
				}
			}
		}
	}
	if n < 5 {
		res.Undec(rule, "functions scanned for retained state", "", fmt.Sprintf("%d", n))
	}
	res.Analysed["stateless_functions"] = n
	if viol == 0 {
		res.Hold(rule, "no function of "+strings.Join(rels, ", ")+" retains state between messages", "", fmt.Sprintf("%d functions scanned: no store to package-level variables, receiver fields or sync.Maps outside constructors", n))
	}
	_ = types.Typ
}
