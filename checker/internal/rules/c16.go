package rules

import (
	"fmt"
	"go/token"
	"go/types"
	"strings"

	"golang.org/x/tools/go/ssa"

	"s2scheck/internal/flow"
	"s2scheck/internal/report"
	"s2scheck/internal/typegraph"
)

func init() {
	Registry["C16"] = c16
}

const (
	icPkg   = modPath + "/interceptor"
	authPkg = modPath + "/auth"
	grpcPkg = "google.golang.org/grpc"
)

func servicePrefixes(c *Ctx) (wf, admin string, err error) {
	wf, ok1 := depConst(c, "interceptor", srvPath+"/common/api", "WorkflowServicePrefix")
	admin, ok2 := depConst(c, "interceptor", srvPath+"/common/api", "AdminServicePrefix")
	if !ok1 || !ok2 {
		return "", "", fmt.Errorf("anchor: api.WorkflowServicePrefix / api.AdminServicePrefix not resolved")
	}
	return wf, admin, nil
}

func c16(c *Ctx) (*report.Result, error) {
	res, err := nsWalkRules(c, "C16")
	if err != nil {
		return res, err
	}
	wfP, adP, err := servicePrefixes(c)
	if err != nil {
		return res, err
	}
	res.RuleDoc["O16.2"] = "check-before-forward: in AccessControlInterceptor.Intercept every path to the handler passes isNamespaceAccessAllowed(req) with outcome allowed and no error, unless no namespace allow-list is configured or the method belongs to neither proxied service; a visitor error refuses"
	res.RuleDoc["O16.3"] = "the ACL interceptors are appended after the translation interceptors in both chains handed to grpc.ChainUnaryInterceptor / ChainStreamInterceptor (gRPC runs them in slice order), so the check sees translated names"
	res.RuleDoc["O16.4"] = "no function reachable from the ACL interceptors reads the translation-bypass header"
	res.RuleDoc["O16.5"] = "ListNamespaces returns only elements admitted by namespaceAccess.IsAllowed(name of that element) whenever an access control is configured, and buildProxyServer configures it from aclPolicy.AllowedNamespaces whenever a policy exists"
	res.RuleDoc["O16.6"] = "no streaming method has a request type with a namespace site (so StreamIntercept needs no namespace test)"

	icept := resolve(c, res, "O16.2", anchor{"interceptor", "*AccessControlInterceptor", "Intercept"})
	if icept != nil {
		h := handlerParam(icept, grpcPkg, "UnaryHandler")
		if h == nil {
			res.Undec("O16.2", "Intercept: handler parameter", fnPos(c.Prog, icept), "no grpc.UnaryHandler parameter")
		} else {
			checkGate(c, res, icept, h, gateSpec{
				rule: "O16.2", name: "isNamespaceAccessAllowed",
				isGate:    func(cc *ssa.CallCommon) bool { return flow.IsCallTo(cc, icPkg, "", "isNamespaceAccessAllowed") },
				resultIdx: 0, allowed: true, errIdx: 1,
				bypassOK: func(cs []condClass) bool {
					return hasClass(cs, "nil", "namespaceAccess", true) ||
						(hasClass(cs, "prefix", wfP, false) && hasClass(cs, "prefix", adP, false))
				},
				bypassDoc: "namespaceAccess == nil; FullMethod has neither service prefix",
			})
			// the gate examines the request with the configured allow-list
			for _, gc := range flow.FindCalls(icept, func(cc *ssa.CallCommon) bool { return flow.IsCallTo(cc, icPkg, "", "isNamespaceAccessAllowed") }) {
				args := gc.Common().Args
				okReq, okAcc := false, false
				if len(args) == 3 {
					if p, ok := flow.Strip(args[1]).(*ssa.Parameter); ok && p.Name() == icept.Params[2].Name() && p == icept.Params[2] {
						okReq = true
					}
					if _, f, ok := flow.FieldLoadOf(args[2]); ok && f == "namespaceAccess" {
						okAcc = true
					}
				}
				res.Check(okReq && okAcc, "O16.2", "Intercept: gate examines the request with namespaceAccess", instrPos(c.Prog, gc), "isNamespaceAccessAllowed(logger, req, i.namespaceAccess)", "the namespace test is not applied to the incoming request with the configured allow-list")
			}
			// the handler receives the same request
			for _, hc := range callsOfValue(icept, h) {
				args := hc.Common().Args
				res.Check(len(args) == 2 && flow.Strip(args[1]) == ssa.Value(icept.Params[2]), "O16.2", "Intercept: handler receives the checked request", instrPos(c.Prog, hc), "same value", "the handler is called with a value other than the request that was checked")
			}
		}
	}
	// isNamespaceAccessAllowed: returns !notAllowed; error -> false
	if f := resolve(c, res, "O16.2", anchor{"interceptor", "", "isNamespaceAccessAllowed"}); f != nil {
		checkIsNamespaceAccessAllowed(c, res, f)
	}
	if f := resolve(c, res, "O16.2", anchor{"interceptor", "", "createNamespaceAccessControl"}); f != nil {
		checkCreateNamespaceAccessControl(c, res, f)
	}

	checkInterceptorOrder(c, res, "O16.3")
	checkNoBypassHeader(c, res, "O16.4")
	checkListNamespaces(c, res, "O16.5")
	res.RuleDoc["O16.11"] = "what was checked is what is forwarded: a blob that the walk had to repair before it could look into it replaces the original in the request (the write-back obligations of O17.4, imported) - the repaired blob is a lossy re-encoding through the 1.22 schema, which drops fields it does not know (event links with their namespace); if the original is forwarded instead, a namespace the check never saw reaches the local cluster"
	if r17, err := Registry["C17"](c); err == nil && r17 != nil {
		if n := importObligations(res, r17, "O16.11", func(o report.Obligation) bool {
			return o.Rule == "O17.4" && strings.Contains(o.Construct, "replaces the original")
		}); n < 2 {
			res.Undec("O16.11", "write-back obligations of O17.4", "", fmt.Sprintf("%d imported, 2 expected", n))
		}
	} else {
		res.Undec("O16.11", "write-back obligations of O17.4", "", "C17 rule set failed")
	}
	res.RuleDoc["O16.10"] = "the namespace allow-list reaches the access check as it was configured (same analysis as O15.9): no append onto a truncated view of a list the function was handed in config, auth, interceptor or proxy"
	checkNoAppendOntoBorrowedPrefix(c, res, "O16.10", []string{"config", "auth", "interceptor", "proxy"}, 5)
	res.RuleDoc["O16.9"] = "the allow-list the access check matches against is the policy's: makeServerOptions hands NewAccessControlInterceptor aclPolicy.AllowedNamespaces itself, or the result of a helper that returns nothing but elements of it - a list extended with other names (translated aliases, defaults) admits requests for namespaces the policy does not list, e.g. a bypass-header request that names the alias (same analysis as O15.2)"
	if f := resolve(c, res, "O16.9", anchor{"proxy", "", "makeServerOptions"}); f != nil {
		checkACLBuiltFromPolicy(c, res, "O16.9", f)
	}

	// O16.6 streaming request roots have no namespace site
	m, err := loadAPIModel(c)
	if err != nil {
		return res, err
	}
	tabs, err := readInterceptorTables(c)
	if err != nil {
		return res, err
	}
	nStream := 0
	for _, r := range m.roots {
		if r.Role != "stream-request" {
			continue
		}
		nStream++
		f := walkNamespaceSites(m, types.NewPointer(r.Type), tabs.nsNames)
		n := len(f.allSites())
		for k := range f.blobSites {
			if dataBlobClass[k][0] != "opaque" {
				n++
			}
		}
		res.Check(n == 0, "O16.6", "stream request "+r.Name(), "", "no namespace site: the absence of a namespace test in StreamIntercept loses nothing", fmt.Sprintf("streaming request type carries %d namespace site(s) but StreamIntercept performs no namespace test", n))
	}
	if nStream == 0 {
		res.Undec("O16.6", "stream request roots", "", "no streaming method found in either service")
	}
	res.Explanation = "O16.1: " + res.Explanation + " O16.2-O16.6: SSA of interceptor.AccessControlInterceptor, proxy.makeServerOptions, proxy.buildProxyServer, workflowServiceProxyServer.ListNamespaces: edge-sensitive must-pass-through of the namespace test before the handler, order of the interceptor chains as built by append, reachability of the translation-bypass header from the ACL code, control dependence of every returned namespace on IsAllowed."
	_ = typegraph.Root
	res.RuleDoc["O16.6"] = "membership is exact: AccessControl.IsAllowed admits a name only if the list is empty or the name itself is an element of the list, and the list is stored under its own elements (same analysis as O15.6) - namespace names are case-sensitive, so a normalising comparison lets a request for another namespace through"
	checkIsAllowedExact(c, res, "O16.6")
	return res, nil
}

func checkIsNamespaceAccessAllowed(c *Ctx, res *report.Result, f *ssa.Function) {
	rule := "O16.2"
	// every return: (false, err) on the error side; otherwise (!notAllowed, nil) where notAllowed is visitNamespace's bool
	visits := flow.FindCalls(f, func(cc *ssa.CallCommon) bool { return flow.IsCallTo(cc, icPkg, "", "visitNamespace") })
	if len(visits) != 1 {
		res.Undec(rule, "isNamespaceAccessAllowed: one visitNamespace call", fnPos(c.Prog, f), fmt.Sprintf("%d calls", len(visits)))
		return
	}
	v := visits[0].(*ssa.Call)
	ok := true
	why := ""
	nret := 0
	for _, b := range f.Blocks {
		for _, ins := range b.Instrs {
			ret, isRet := ins.(*ssa.Return)
			if !isRet {
				continue
			}
			nret++
			gs := flow.NormGuards(flow.Guards(b))
			if errGuard(gs) {
				if cb, isC := flow.ConstBool(flow.Ret(ret)[0]); !isC || cb {
					ok, why = false, "on the visitor-error side the function does not return false"
				}
				continue
			}
			// success side: result is !Extract(v,0)
			r0 := flow.Ret(ret)[0]
			u, isU := r0.(*ssa.UnOp)
			if !isU || u.Op != token.NOT {
				ok, why = false, "the success result is not the negation of the visitor's 'found a disallowed name' flag"
				continue
			}
			ex, isEx := u.X.(*ssa.Extract)
			if !isEx || ex.Tuple != ssa.Value(v) || ex.Index != 0 {
				ok, why = false, "the success result does not derive from the visitNamespace verdict"
			}
		}
	}
	res.Check(ok && nret >= 2, rule, "isNamespaceAccessAllowed: verdict is the negated visitor flag; error refuses", fnPos(c.Prog, f), "returns (!notAllowed, nil) / (false, err)", why)
	// visitor is given the request and the access-control matcher
	args := v.Call.Args
	good := len(args) == 3
	if good {
		if p, isP := flow.Strip(args[1]).(*ssa.Parameter); !isP || p != f.Params[1] {
			good = false
		}
		if mc, isC := args[2].(*ssa.Call); !isC || !flow.IsCallTo(&mc.Call, icPkg, "", "createNamespaceAccessControl") {
			good = false
		}
	}
	res.Check(good, rule, "isNamespaceAccessAllowed: walks obj with the access matcher", instrPos(c.Prog, v), "visitNamespace(logger, obj, createNamespaceAccessControl(access))", "the visitor is not applied to the object with the access-control matcher")
}

func checkCreateNamespaceAccessControl(c *Ctx, res *report.Result, f *ssa.Function) {
	rule := "O16.2"
	// the closure returns (name, !access.IsAllowed(name)) when access != nil
	if len(f.AnonFuncs) != 1 {
		res.Undec(rule, "createNamespaceAccessControl: matcher closure", fnPos(c.Prog, f), "expected one closure")
		return
	}
	cl := f.AnonFuncs[0]
	calls := flow.FindCalls(cl, func(cc *ssa.CallCommon) bool { return flow.IsCallTo(cc, authPkg, "AccessControl", "IsAllowed") })
	ok := len(calls) == 1
	why := "the matcher does not consult AccessControl.IsAllowed exactly once"
	if ok {
		call := calls[0].(*ssa.Call)
		// argument is the closure's name parameter
		if len(call.Call.Args) < 2 || flow.Strip(call.Call.Args[1]) != ssa.Value(cl.Params[0]) {
			ok, why = false, "IsAllowed is not applied to the visited name"
		}
		// returned flag: negation of the call result (possibly via phi with false)
		neg := false
		for _, r := range *call.Referrers() {
			if u, isU := r.(*ssa.UnOp); isU && u.Op == token.NOT {
				neg = true
			}
		}
		if !neg {
			ok, why = false, "the 'disallowed' flag is not the negation of IsAllowed"
		}
	}
	res.Check(ok, rule, "createNamespaceAccessControl: flag = !IsAllowed(name)", fnPos(c.Prog, cl), "matcher reports a name as disallowed iff the allow-list rejects it", why)
}

// interceptorKind classifies an element of an interceptor chain.
func interceptorKind(v ssa.Value) string {
	recv, name, ok := flow.BoundMethod(v)
	if ok {
		if flow.NamedIs(recv.Type(), icPkg, "TranslationInterceptor") {
			return "translation." + name
		}
		if flow.NamedIs(recv.Type(), icPkg, "AccessControlInterceptor") {
			return "acl." + name
		}
		return "method." + name
	}
	if c, ok := flow.Strip(v).(*ssa.Call); ok {
		return "call." + flow.CalleeName(&c.Call)
	}
	return "other"
}

type chainInfo struct {
	call ssa.CallInstruction
	alts []flow.SeqAlt
}

func interceptorChains(f *ssa.Function) map[string]*chainInfo {
	out := map[string]*chainInfo{}
	for _, name := range []string{"ChainUnaryInterceptor", "ChainStreamInterceptor"} {
		calls := flow.FindCalls(f, func(cc *ssa.CallCommon) bool { return flow.IsCallTo(cc, grpcPkg, "", name) })
		if len(calls) == 1 && len(calls[0].Common().Args) == 1 {
			out[name] = &chainInfo{calls[0], flow.SliceSeqs(calls[0].Common().Args[0])}
		}
	}
	return out
}

func checkInterceptorOrder(c *Ctx, res *report.Result, rule string) {
	f := resolve(c, res, rule, anchor{"proxy", "", "makeServerOptions"})
	if f == nil {
		return
	}
	chains := interceptorChains(f)
	for _, name := range []string{"ChainUnaryInterceptor", "ChainStreamInterceptor"} {
		ci := chains[name]
		if ci == nil {
			res.Undec(rule, "makeServerOptions: "+name, fnPos(c.Prog, f), "expected exactly one call with one variadic slice argument")
			continue
		}
		bad := ""
		both := 0
		for _, a := range ci.alts {
			if a.Open {
				bad = "the interceptor slice has a part the checker cannot enumerate"
				break
			}
			ti, ai := -1, -1
			for i, e := range a.Elems {
				k := interceptorKind(e)
				if strings.HasPrefix(k, "translation.") {
					ti = i
				}
				if strings.HasPrefix(k, "acl.") && ai < 0 {
					ai = i
				}
			}
			if ti >= 0 && ai >= 0 {
				both++
				if ai < ti {
					bad = "the ACL interceptor precedes the translation interceptor: the namespace test would see untranslated (remote) names"
				}
			}
		}
		if bad == "" && both == 0 {
			bad = "no configuration yields both interceptors in the chain"
		}
		res.Check(bad == "", rule, "makeServerOptions: ACL after translation in "+name, instrPos(c.Prog, ci.call), fmt.Sprintf("%d chain variants enumerated; ACL always after translation", len(ci.alts)), bad)
	}
}

func checkNoBypassHeader(c *Ctx, res *report.Result, rule string) {
	var roots []*ssa.Function
	for _, a := range []anchor{{"interceptor", "*AccessControlInterceptor", "Intercept"}, {"interceptor", "*AccessControlInterceptor", "StreamIntercept"}} {
		if f := resolve(c, res, rule, a); f != nil {
			roots = append(roots, f)
		}
	}
	if len(roots) == 0 {
		return
	}
	reach := flow.Reachable(roots, nil)
	var hits []string
	n := 0
	hdr, okHdr := pkgConstString(c, "common", "RequestTranslationHeaderName")
	if !okHdr {
		res.Undec(rule, "common.RequestTranslationHeaderName", "", "constant not found")
		return
	}
	for f := range reach {
		if f.Blocks == nil {
			continue
		}
		n++
		for _, call := range flow.Calls(f) {
			cc := call.Common()
			if flow.IsCallTo(cc, modPath+"/common", "", "IsRequestTranslationDisabled") {
				hits = append(hits, shortFn(f)+" calls IsRequestTranslationDisabled at "+instrPos(c.Prog, call))
			}
			if flow.IsCallTo(cc, "google.golang.org/grpc/metadata", "", "ValueFromIncomingContext") || flow.IsCallTo(cc, "google.golang.org/grpc/metadata", "", "FromIncomingContext") {
				hits = append(hits, shortFn(f)+" reads incoming metadata at "+instrPos(c.Prog, call))
			}
		}
		// direct use of the header name constant
		for _, b := range f.Blocks {
			for _, ins := range b.Instrs {
				for _, op := range ins.Operands(nil) {
					if op != nil && *op != nil {
						if s, ok := flow.ConstString(*op); ok && s == hdr {
							hits = append(hits, shortFn(f)+" uses the bypass header name at "+instrPos(c.Prog, ins))
						}
					}
				}
			}
		}
	}
	res.Check(len(hits) == 0, rule, "ACL interceptors do not consult the translation-bypass header", "", fmt.Sprintf("%d functions reachable from the ACL interceptors inside the module examined", n), "the access check can be influenced by request metadata: "+strings.Join(hits, "; "))
}

func checkListNamespaces(c *Ctx, res *report.Result, rule string) {
	f := resolve(c, res, rule, anchor{"proxy", "*workflowServiceProxyServer", "ListNamespaces"})
	if f != nil {
		// every append that feeds the returned Namespaces slice is guarded by IsAllowed(...) == true
		apps := flow.FindCalls(f, func(cc *ssa.CallCommon) bool {
			b, ok := cc.Value.(*ssa.Builtin)
			return ok && b.Name() == "append"
		})
		stores := 0
		for _, b := range f.Blocks {
			for _, ins := range b.Instrs {
				st, ok := ins.(*ssa.Store)
				if !ok {
					continue
				}
				fa, ok := st.Addr.(*ssa.FieldAddr)
				if !ok || flow.FieldName(fa.X.Type(), fa.Field) != "Namespaces" {
					continue
				}
				stores++
				// guarded by namespaceAccess != nil
				cs := []condClass{}
				for _, g := range flow.NormGuards(flow.Guards(b)) {
					cs = append(cs, classifyCond(g.Cond, g.Side))
				}
				res.Check(hasClass(cs, "nil", "namespaceAccess", false), rule, "ListNamespaces: filtered list replaces Namespaces under namespaceAccess != nil", instrPos(c.Prog, st), "guarded", "the response's Namespaces is overwritten outside the namespaceAccess != nil branch")
			}
		}
		if stores == 0 {
			res.Viol(rule, "ListNamespaces: filtered list replaces Namespaces", fnPos(c.Prog, f), "response.Namespaces is never replaced by a filtered list")
		}
		nApp := 0
		for _, a := range apps {
			call := a.(*ssa.Call)
			if !strings.Contains(call.Type().String(), "DescribeNamespaceResponse") {
				continue
			}
			nApp++
			gs := flow.NormGuards(flow.Guards(call.Block()))
			ok := false
			for _, g := range gs {
				if gc, isC := g.Cond.(*ssa.Call); isC && g.Side && flow.IsCallTo(&gc.Call, authPkg, "AccessControl", "IsAllowed") {
					// the argument names the element being appended
					elem := appendedElem(call)
					if elem != nil && derivesFromElem(gc.Call.Args[len(gc.Call.Args)-1], elem) {
						ok = true
					}
				}
			}
			res.Check(ok, rule, "ListNamespaces: element kept only if IsAllowed(its name)", instrPos(c.Prog, call), "append is control-dependent on IsAllowed(ns.NamespaceInfo.Name) of the same element", "a namespace is added to the filtered list without being admitted by IsAllowed on its own name")
		}
		if nApp == 0 {
			// the other exact idiom: slices.DeleteFunc(list, func(ns) bool { return !IsAllowed(ns.NamespaceInfo.Name) })
			okDel := false
			for _, call := range flow.Calls(f) {
				cal := flow.StaticCallee(call.Common())
				if cal == nil || cal.Pkg == nil || cal.Pkg.Pkg.Path() != "slices" || !strings.HasPrefix(cal.Name(), "DeleteFunc") || len(call.Common().Args) != 2 {
					continue
				}
				pred, _ := closureFn(call.Common().Args[1])
				if pred == nil || len(pred.Params) != 1 {
					continue
				}
				good := true
				nRet := 0
				for _, b := range pred.Blocks {
					for _, ins := range b.Instrs {
						ret, isR := ins.(*ssa.Return)
						if !isR || len(ret.Results) != 1 {
							continue
						}
						nRet++
						v := flow.Ret(ret)[0]
						neg, isNot := v.(*ssa.UnOp)
						if !isNot || neg.Op != token.NOT {
							good = false
							continue
						}
						gc, isC := neg.X.(*ssa.Call)
						if !isC || !flow.IsCallTo(&gc.Call, authPkg, "AccessControl", "IsAllowed") || !derivesFromElem(gc.Call.Args[len(gc.Call.Args)-1], pred.Params[0]) {
							good = false
						}
					}
				}
				if good && nRet > 0 {
					okDel = true
				}
			}
			if okDel {
				res.Hold(rule, "ListNamespaces: element kept only if IsAllowed(its name)", fnPos(c.Prog, f), "slices.DeleteFunc with predicate !IsAllowed(element's name)")
			} else {
				res.Undec(rule, "ListNamespaces: element kept only if IsAllowed(its name)", fnPos(c.Prog, f), "neither a filtering append under IsAllowed(element's name) nor slices.DeleteFunc(list, !IsAllowed(element's name)) was found: the filter's shape is not one the rule can decide (an index loop that deletes in place must not skip the element that slides into the freed slot)")
			}
		}
		// the conditional: when namespaceAccess != nil and list present, returned response is the one modified
	}
	g := resolve(c, res, rule, anchor{"proxy", "", "buildProxyServer"})
	if g != nil {
		// NewWorkflowServiceProxyServer's access-control argument: phi(nil, NewAccesControl(aclPolicy.AllowedNamespaces)) with the non-nil edge under aclPolicy != nil
		calls := flow.FindCalls(g, func(cc *ssa.CallCommon) bool {
			return flow.IsCallTo(cc, modPath+"/proxy", "", "NewWorkflowServiceProxyServer")
		})
		if len(calls) != 1 {
			res.Undec(rule, "buildProxyServer: NewWorkflowServiceProxyServer call", fnPos(c.Prog, g), fmt.Sprintf("%d calls", len(calls)))
			return
		}
		ok := false
		why := "the access control handed to the workflow service is not built from aclPolicy.AllowedNamespaces on the aclPolicy != nil branch"
		for _, a := range calls[0].Common().Args {
			if !flow.NamedIs(a.Type(), authPkg, "AccessControl") {
				continue
			}
			phi, isPhi := a.(*ssa.Phi)
			if !isPhi {
				if mk, isC := a.(*ssa.Call); isC && flow.IsCallTo(&mk.Call, authPkg, "", "NewAccesControl") {
					ok = true
				}
				continue
			}
			for i, e := range phi.Edges {
				if flow.IsNilConst(e) {
					// the nil edge must come from the aclPolicy == nil side
					cs := edgeClasses(phi.Block().Preds[i], phi.Block())
					if !hasClass(cs, "nil", "aclPolicy", true) {
						why = "a nil access control reaches the workflow service on a path where aclPolicy may be set"
						ok = false
						break
					}
					continue
				}
				if mk, isC := e.(*ssa.Call); isC && flow.IsCallTo(&mk.Call, authPkg, "", "NewAccesControl") {
					if p, okp := flow.FieldPath(mk.Call.Args[0]); okp && strings.HasSuffix(p, "aclPolicy.AllowedNamespaces") {
						ok = true
					}
				}
			}
		}
		res.Check(ok, rule, "buildProxyServer: workflow service filters with aclPolicy.AllowedNamespaces", instrPos(c.Prog, calls[0]), "access control = NewAccesControl(c.aclPolicy.AllowedNamespaces) whenever aclPolicy != nil", why)
	}
}

// appendedElem returns the single element appended by append(prev, elem).
func appendedElem(call *ssa.Call) ssa.Value {
	if len(call.Call.Args) != 2 {
		return nil
	}
	alts := flow.SliceSeqs(call.Call.Args[1])
	if len(alts) == 1 && len(alts[0].Elems) == 1 && !alts[0].Open {
		return alts[0].Elems[0]
	}
	return nil
}

// derivesFromElem: v is a chain of field loads / getter calls starting at elem.
func derivesFromElem(v, elem ssa.Value) bool {
	for i := 0; i < 8; i++ {
		if v == elem {
			return true
		}
		switch x := v.(type) {
		case *ssa.UnOp:
			v = x.X
		case *ssa.FieldAddr:
			v = x.X
		case *ssa.Field:
			v = x.X
		case *ssa.Call:
			if len(x.Call.Args) >= 1 && !x.Call.IsInvoke() {
				v = x.Call.Args[0]
			} else {
				return false
			}
		default:
			return false
		}
	}
	return false
}
