package rules

import (
	"go/token"

	"golang.org/x/tools/go/ssa"

	"s2scheck/internal/flow"
	"s2scheck/internal/report"
)

// ringField: v is a load of the ring's field `name`.
func ringFieldLoad(v ssa.Value, name string) bool {
	_, f, ok := flow.FieldLoadOf(v)
	return ok && f == name
}

// checkRingGrowthGrows (O5.6): the slice ensureCapacity allocates is longer than the one it replaces: its length is
// 2*len(entries), or a positive constant only on the edge on which 2*len(entries) == 0. A growth step that does not
// grow leaves a full buffer full: the next Append stores over a live entry.
func checkRingGrowthGrows(c *Ctx, res *report.Result, rule string) {
	f := resolve(c, res, rule, anchor{"proxy", "*proxyIDRingBuffer", "ensureCapacity"})
	if f == nil {
		return
	}
	n := 0
	for _, b := range f.Blocks {
		for _, ins := range b.Instrs {
			mk, ok := ins.(*ssa.MakeSlice)
			if !ok {
				continue
			}
			n++
			isDouble := func(v ssa.Value) bool {
				bo, ok := v.(*ssa.BinOp)
				if !ok {
					return false
				}
				lenOf := func(x ssa.Value) bool {
					call, ok := x.(*ssa.Call)
					if !ok {
						return false
					}
					bi, ok := call.Call.Value.(*ssa.Builtin)
					return ok && bi.Name() == "len" && ringFieldLoad(call.Call.Args[0], "entries")
				}
				k := func(x ssa.Value) int64 { n, _ := flow.ConstInt(x); return n }
				switch bo.Op {
				case token.MUL:
					return (lenOf(bo.X) && k(bo.Y) >= 2) || (lenOf(bo.Y) && k(bo.X) >= 2)
				case token.SHL:
					return lenOf(bo.X) && k(bo.Y) >= 1
				case token.ADD:
					return (lenOf(bo.X) && (lenOf(bo.Y) || k(bo.Y) >= 1)) || (lenOf(bo.Y) && k(bo.X) >= 1)
				}
				return false
			}
			bad := ""
			switch x := mk.Len.(type) {
			case *ssa.Phi:
				for i, e := range x.Edges {
					if isDouble(e) {
						continue
					}
					if k, isK := flow.ConstInt(e); isK && k >= 1 {
						// only where the doubled length is zero
						okEdge := false
						pred := x.Block().Preds[i]
						for _, g := range append(flow.NormGuards(flow.Guards(pred)), flow.NormGuards(flow.EdgeGuards(pred, x.Block()))...) {
							if bo, isB := g.Cond.(*ssa.BinOp); isB && isDouble(bo.X) {
								if z, isZ := flow.ConstInt(bo.Y); isZ && z == 0 && ((bo.Op == token.EQL && g.Side) || (bo.Op == token.NEQ && !g.Side) || (bo.Op == token.LEQ && g.Side) || (bo.Op == token.GTR && !g.Side)) {
									okEdge = true
								}
							}
						}
						if !okEdge {
							bad = "the constant capacity " + flow.Describe(e) + " is chosen on an edge on which the doubled capacity is not known to be zero"
						}
						continue
					}
					bad = "new capacity " + flow.Describe(e) + " is neither a multiple of the old length nor the fallback constant"
				}
			default:
				if !isDouble(mk.Len) {
					bad = "new capacity " + flow.Describe(mk.Len) + " is not derived from len(entries)"
				}
			}
			res.Check(bad == "", rule, "ensureCapacity: the replacement slice is longer than the full one it replaces", instrPos(c.Prog, mk), "2*len(entries), or 1 when that is 0", bad+": a full buffer stays full after 'growing', and the next Append stores over a live entry (or the copy loop runs past the new slice)")
		}
	}
	if n == 0 {
		res.Undec(rule, "ensureCapacity: allocation of the new slice", fnPos(c.Prog, f), "no make([]...) found")
	}
}

// checkRingStartID (O5.7): startProxyID names the proxy id of the head entry. Append sets it to the appended id
// exactly when the buffer is empty and writes it nowhere else; AggregateUpTo translates `watermark - startProxyID`
// into a count of covered entries.
func checkRingStartID(c *Ctx, res *report.Result, rule string) {
	f := resolve(c, res, rule, anchor{"proxy", "*proxyIDRingBuffer", "Append"})
	if f == nil {
		return
	}
	var stores []*ssa.Store
	for _, b := range f.Blocks {
		for _, ins := range b.Instrs {
			if st, ok := ins.(*ssa.Store); ok {
				if fa, ok := st.Addr.(*ssa.FieldAddr); ok && flow.FieldName(fa.X.Type(), fa.Field) == "startProxyID" {
					stores = append(stores, st)
				}
			}
		}
	}
	emptySide := func(b *ssa.BasicBlock) (known bool, empty bool) {
		for _, g := range flow.NormGuards(flow.Guards(b)) {
			bo, ok := g.Cond.(*ssa.BinOp)
			if !ok || !ringFieldLoad(bo.X, "size") {
				continue
			}
			if z, isZ := flow.ConstInt(bo.Y); isZ && z == 0 {
				switch bo.Op {
				case token.EQL:
					return true, g.Side
				case token.NEQ, token.GTR:
					return true, !g.Side
				case token.LEQ:
					return true, g.Side
				}
			}
		}
		return false, false
	}
	okStore := len(stores) == 1
	why := ""
	if len(stores) == 0 {
		why = "Append never sets startProxyID: every translation after the first Discard-to-empty is off by the ids allocated meanwhile"
	} else if len(stores) > 1 {
		why = "startProxyID is written at more than one place in Append"
	} else {
		st := stores[0]
		known, empty := emptySide(st.Block())
		p, isParam := st.Val.(*ssa.Parameter)
		switch {
		case !known || !empty:
			okStore, why = false, "startProxyID is set on a path on which the buffer is not known to be empty: the head entry's id no longer matches its position"
		case !isParam || p != f.Params[1]:
			okStore, why = false, "startProxyID is not set to the appended proxy id"
		}
	}
	res.Check(okStore, rule, "Append: startProxyID = the appended id exactly when the buffer is empty", fnPos(c.Prog, f), "one store, under size == 0, of the proxyID parameter", why)
	// and the empty side always passes the store: from the `size == 0` edge to the element store
	if okStore {
		st := stores[0]
		for _, b := range f.Blocks {
			iff := lastIfOf(b)
			if iff == nil {
				continue
			}
			bo, ok := iff.Cond.(*ssa.BinOp)
			if !ok || !ringFieldLoad(bo.X, "size") {
				continue
			}
			if z, isZ := flow.ConstInt(bo.Y); !isZ || z != 0 || (bo.Op != token.EQL && bo.Op != token.NEQ) {
				continue
			}
			succ := b.Succs[0]
			if bo.Op == token.NEQ {
				succ = b.Succs[1]
			}
			r := flow.FindPath(flow.Point{Block: succ}, flow.IsReturn, func(x ssa.Instruction) bool { return x == ssa.Instruction(st) }, nil)
			res.Check(!r.Found, rule, "Append: an append into an empty buffer always records its id as the start id", instrPos(c.Prog, iff), "the empty side passes the store", "an append into an empty buffer can return without setting startProxyID (path "+flow.BlockPath(r.Via)+")")
		}
	}
}

// checkAggregateEarlyReturns (O5.8): AggregateUpTo returns "nothing covered" only when nothing is: the buffer is
// empty (size == 0), the watermark lies below the head entry's id (watermark < startProxyID), or the derived count
// is not positive. Any other comparator (size != 0, watermark <= startProxyID) withholds entries the target did
// confirm - the acknowledgement for them is never translated.
func checkAggregateEarlyReturns(c *Ctx, res *report.Result, rule string) {
	f := resolve(c, res, rule, anchor{"proxy", "*proxyIDRingBuffer", "AggregateUpTo"})
	if f == nil {
		return
	}
	n := 0
	for _, b := range f.Blocks {
		for _, ins := range b.Instrs {
			ret, ok := ins.(*ssa.Return)
			if !ok || len(ret.Results) != 2 {
				continue
			}
			if k, isK := flow.ConstInt(ret.Results[1]); !isK || k != 0 {
				continue
			}
			n++
			// every edge into the returning block must be one of the accepted tests, on its accepting side
			okG := len(b.Preds) > 0
			desc := ""
			side := true
			for _, pred := range b.Preds {
				gs := flow.NormGuards(flow.EdgeGuards(pred, b))
				if len(gs) == 0 {
					okG, desc = false, "an unconditional edge"
					continue
				}
				g := gs[len(gs)-1]
				okE := false
				d := flow.Describe(g.Cond)
				if bo, isB := g.Cond.(*ssa.BinOp); isB {
					z, isZ := flow.ConstInt(bo.Y)
					switch {
					case ringFieldLoad(bo.X, "size") && isZ && z == 0:
						okE = (bo.Op == token.EQL && g.Side) || (bo.Op == token.NEQ && !g.Side) || (bo.Op == token.LEQ && g.Side) || (bo.Op == token.GTR && !g.Side)
					case ringFieldLoad(bo.Y, "startProxyID"):
						if _, isP := bo.X.(*ssa.Parameter); isP {
							okE = (bo.Op == token.LSS && g.Side) || (bo.Op == token.GEQ && !g.Side)
						}
					case isZ && z == 0:
						if v, isBin := bo.X.(*ssa.BinOp); isBin && v.Op == token.ADD {
							okE = ((bo.Op == token.LEQ || bo.Op == token.LSS) && g.Side) || ((bo.Op == token.GTR || bo.Op == token.GEQ) && !g.Side)
						}
					}
				}
				if !okE {
					okG, desc, side = false, d, g.Side
				}
			}
			res.Check(okG, rule, "AggregateUpTo: an empty result is returned only when nothing is covered", instrPos(c.Prog, ret), "size == 0, watermark < startProxyID or count <= 0", "an empty aggregation is returned under `"+desc+"` (side "+map[bool]string{true: "true", false: "false"}[side]+"), which does not mean that no entry is covered: confirmed entries are withheld and their acknowledgement is never translated")
		}
	}
	if n == 0 {
		res.Undec(rule, "AggregateUpTo: empty returns", fnPos(c.Prog, f), "none found (3 confirmed by hand)")
	}
}
