package rules

import (
	"fmt"
	"go/constant"
	"go/token"
	"go/types"
	"strings"

	"golang.org/x/tools/go/ssa"

	"s2scheck/internal/flow"
	"s2scheck/internal/report"
)

// checkAckTableNeverShrinks (O4.19 / O1.18): during a receiver incarnation the per-target acknowledgement table only
// gains entries and levels. An entry is what keeps the tasks handed to that target - on its stream, or still waiting
// for the target to register - below the aggregated minimum; removing it (on re-registration of the target, say: "the
// old level says nothing about the new stream") lets another target's next ack, a keep-alive re-ack included,
// acknowledge those tasks. No delete / clear on ackByTarget anywhere; the field is assigned a fresh map in Run only.
func checkAckTableNeverShrinks(c *Ctx, res *report.Result, rule string) {
	isTable := func(v ssa.Value) bool {
		base, field, ok := flow.FieldLoadOf(flow.ResolveLoad(v))
		return ok && field == "ackByTarget" && isNamedPtr(base.Type(), "proxyStreamReceiver")
	}
	updates, bad := 0, 0
	for _, f := range c.Prog.RepoFuncs() {
		if f.Pkg == nil || f.Pkg.Pkg.Path() != proxyPkg || !isShippedFunc(f) || len(f.Blocks) == 0 {
			continue
		}
		top := f
		for top.Parent() != nil {
			top = top.Parent()
		}
		for _, b := range f.Blocks {
			for _, ins := range b.Instrs {
				switch x := ins.(type) {
				case *ssa.MapUpdate:
					if isTable(x.Map) {
						updates++
					}
				case *ssa.Call:
					if bi, ok := x.Call.Value.(*ssa.Builtin); ok && (bi.Name() == "delete" || bi.Name() == "clear") && len(x.Call.Args) > 0 && isTable(x.Call.Args[0]) {
						bad++
						res.Viol(rule, fmt.Sprintf("%s: no entry of ackByTarget is removed during an incarnation (#%d)", shortFn(top), bad), instrPos(c.Prog, ins), "an entry of the per-target acknowledgement table is removed: that entry is what holds the tasks handed to this target below the aggregated minimum; once it is gone, another target's next ack (a keep-alive re-ack is enough) acknowledges them to the source although no target stream has confirmed them")
					}
				case *ssa.Store:
					if fa, ok := x.Addr.(*ssa.FieldAddr); ok && flow.FieldName(fa.X.Type(), fa.Field) == "ackByTarget" && isNamedPtr(fa.X.Type(), "proxyStreamReceiver") {
						_, isMake := x.Val.(*ssa.MakeMap)
						if !(isMake && top.Name() == "Run") && !strings.HasPrefix(top.Name(), "new") {
							bad++
							res.Viol(rule, fmt.Sprintf("%s: ackByTarget is replaced only by Run's fresh map (#%d)", shortFn(top), bad), instrPos(c.Prog, ins), "the per-target acknowledgement table is replaced outside the start of an incarnation: every entry that was holding the minimum back is gone")
						}
					}
				}
			}
		}
	}
	if updates < 2 {
		res.Undec(rule, "updates of ackByTarget", "", fmt.Sprintf("%d found, at least 2 confirmed by hand (seeding, ack)", updates))
	} else if bad == 0 {
		res.Hold(rule, "ackByTarget only gains entries and levels during an incarnation", "", fmt.Sprintf("%d updates, no delete / clear, replaced by a fresh map in Run only", updates))
	}
}

// checkHandlerErrorReturned (O15.10): what the handler answers is what the caller gets. In the translation
// interceptor's Intercept / InterceptStream every returned error is, on every path, the error result of the handler
// call made on that path - not nil, not a variable that an inner `err :=` shadowed. The access-control interceptor sits
// further down the chain: a PermissionDenied it returns through the handler must reach the remote caller, otherwise a
// refused stream looks like a clean end of stream.
func checkHandlerErrorReturned(c *Ctx, res *report.Result, rule string) {
	n := 0
	for _, a := range []struct {
		an      anchor
		handler int
	}{{anchor{"interceptor", "*TranslationInterceptor", "InterceptStream"}, 4}, {anchor{"interceptor", "*TranslationInterceptor", "Intercept"}, 4}} {
		f := resolve(c, res, rule, a.an)
		if f == nil || len(f.Params) <= a.handler {
			continue
		}
		handler := ssa.Value(f.Params[a.handler])
		isHandlerErr := func(v ssa.Value) bool {
			v = flow.ResolveLoad(v)
			var call *ssa.Call
			switch x := v.(type) {
			case *ssa.Extract:
				call, _ = x.Tuple.(*ssa.Call)
			case *ssa.Call:
				call = x
			}
			return call != nil && !call.Call.IsInvoke() && flow.Strip(flow.ResolveLoad(call.Call.Value)) == handler
		}
		var okVal func(v ssa.Value, d int) bool
		okVal = func(v ssa.Value, d int) bool {
			if d > 4 {
				return false
			}
			if isHandlerErr(v) {
				return true
			}
			if phi, ok := flow.ResolveLoad(v).(*ssa.Phi); ok {
				for _, e := range phi.Edges {
					if !okVal(e, d+1) {
						return false
					}
				}
				return len(phi.Edges) > 0
			}
			return false
		}
		for _, b := range f.Blocks {
			ret, ok := b.Instrs[len(b.Instrs)-1].(*ssa.Return)
			if !ok || b == f.Recover {
				continue
			}
			rs := flow.Ret(ret)
			ev := rs[len(rs)-1]
			// returns before any handler call (e.g. a refused request) are not about the handler's answer
			reached := false
			for _, call := range flow.Calls(f) {
				if cv, isC := call.(*ssa.Call); isC && !cv.Call.IsInvoke() && flow.Strip(flow.ResolveLoad(cv.Call.Value)) == handler && (cv.Block() == b || flow.ReachBlock(cv.Block(), b, nil)) {
					reached = true
				}
			}
			if !reached {
				continue
			}
			n++
			good := okVal(ev, 0)
			if !good && flow.IsNilConst(flow.ResolveLoad(ev)) {
				// `if err := handler(..); err != nil { return err }; return nil`: nil on the side on which the
				// handler's error was found nil
				for _, call := range flow.Calls(f) {
					if cv, isC := call.(*ssa.Call); isC && !cv.Call.IsInvoke() && flow.Strip(flow.ResolveLoad(cv.Call.Value)) == handler {
						if he := errResultOf(cv); he != nil && guardedErrNil(b, he) {
							good = true
						} else if cv.Call.Signature().Results().Len() == 1 && guardedErrNil(b, cv) {
							good = true
						}
					}
				}
			}
			res.Check(good, rule, fmt.Sprintf("%s: the error returned in block %d is the handler's", shortFn(f), b.Index), instrPos(c.Prog, ret), "the error result of handler(..) on every path",
				"after the handler ran the interceptor returns "+flow.Describe(flow.ResolveLoad(ev))+", which is not (on every path) the handler's own error: the interceptors further down the chain - the access check among them - answer through the handler, so their PermissionDenied is swallowed and the remote caller sees a clean end of stream")
		}
	}
	if n < 2 {
		res.Undec(rule, "returns of the translation interceptor after its handler call", "", fmt.Sprintf("%d found, at least 2 confirmed by hand", n))
	}
}

// checkNoTLSClockOverride (O19.12): certificate validity is judged now. No store into the Time field of a tls.Config
// (and no composite literal that sets it) in shipped code: crypto/tls asks that hook for the current time when it
// checks NotBefore / NotAfter, so a "clock-drift leeway" there admits certificates that have expired (or, with the
// other sign, refuses fresh ones).
func checkNoTLSClockOverride(c *Ctx, res *report.Result, rule string) {
	n, stores := 0, 0
	for _, f := range c.Prog.RepoFuncs() {
		if !isShippedFunc(f) || len(f.Blocks) == 0 {
			continue
		}
		for _, b := range f.Blocks {
			for _, ins := range b.Instrs {
				st, ok := ins.(*ssa.Store)
				if !ok {
					continue
				}
				fa, ok := st.Addr.(*ssa.FieldAddr)
				if !ok {
					continue
				}
				t := fa.X.Type()
				if p, isP := t.Underlying().(*types.Pointer); isP {
					t = p.Elem()
				}
				nm, isN := t.(*types.Named)
				if !isN || nm.Obj().Pkg() == nil || nm.Obj().Pkg().Path() != "crypto/tls" || nm.Obj().Name() != "Config" {
					continue
				}
				stores++
				if flow.FieldName(fa.X.Type(), fa.Field) == "Time" {
					n++
					res.Viol(rule, fmt.Sprintf("%s: no tls.Config gets its own clock (#%d)", shortFn(f), n), instrPos(c.Prog, ins), "tls.Config.Time is set: crypto/tls judges NotBefore / NotAfter against what this hook returns, so a leeway subtracted from the clock admits peers whose certificate has expired")
				}
			}
		}
	}
	if stores < 4 {
		res.Undec(rule, "stores into tls.Config fields", "", fmt.Sprintf("%d found, at least 4 confirmed by hand: the rule no longer sees where the configs are built", stores))
	} else if n == 0 {
		res.Hold(rule, "no tls.Config gets its own clock", "", fmt.Sprintf("%d stores into tls.Config fields in shipped code, none into Time", stores))
	}
}

// checkSignedIndexLowerBound (O20.16): an index taken from stream-open metadata is tested against zero before it is
// used. In package proxy every index expression on a slice, array or string whose index is the int conversion of an
// int32 value that comes from a ShardID / ClusterID field or from an int32 parameter is dominated by a test that
// excludes negative values (`id < 0` taken away, `id >= 0` / `id >= 1` required). `int(id) < len(table)` alone is
// true for every negative id; the panic happens wherever the string or the slot is first needed - in routing mode on a
// worker goroutine that nothing recovers.
func checkSignedIndexLowerBound(c *Ctx, res *report.Result, rule string, minSites int) {
	fromMeta := func(v ssa.Value) ssa.Value {
		cv, ok := v.(*ssa.Convert)
		if !ok {
			return nil
		}
		bt, ok := cv.X.Type().Underlying().(*types.Basic)
		if !ok || bt.Kind() != types.Int32 {
			return nil
		}
		x := flow.ResolveLoad(cv.X)
		if _, isP := x.(*ssa.Parameter); isP {
			return x
		}
		if p, _ := flow.FieldPath(x); strings.HasSuffix(p, ".ShardID") || strings.HasSuffix(p, ".ClusterID") {
			return x
		}
		return nil
	}
	n := 0
	for _, f := range c.Prog.RepoFuncs() {
		if f.Pkg == nil || f.Pkg.Pkg.Path() != proxyPkg || !isShippedFunc(f) || len(f.Blocks) == 0 {
			continue
		}
		k := 0
		for _, b := range f.Blocks {
			for _, ins := range b.Instrs {
				var idx ssa.Value
				switch x := ins.(type) {
				case *ssa.IndexAddr:
					idx = x.Index
				case *ssa.Index:
					idx = x.Index
				case *ssa.Lookup:
					if _, isStr := x.X.Type().Underlying().(*types.Basic); isStr {
						idx = x.Index
					}
				}
				if idx == nil {
					continue
				}
				src := fromMeta(idx)
				if src == nil {
					// the observer indexes with the int32 itself
					if bt, ok := idx.Type().Underlying().(*types.Basic); ok && bt.Kind() == types.Int32 {
						if _, isP := flow.ResolveLoad(idx).(*ssa.Parameter); isP {
							src = flow.ResolveLoad(idx)
						}
					}
				}
				if src == nil {
					continue
				}
				n++
				k++
				lower := false
				for _, g := range flow.NormGuards(flow.Guards(b)) {
					bo, ok := g.Cond.(*ssa.BinOp)
					if !ok {
						continue
					}
					x := flow.ResolveLoad(bo.X)
					if cv, isC := x.(*ssa.Convert); isC {
						x = flow.ResolveLoad(cv.X)
					}
					if x != src && !flow.SameValue(x, src) {
						continue
					}
					kk, isK := flow.ConstInt(bo.Y)
					if !isK {
						continue
					}
					switch {
					case bo.Op == token.LSS && !g.Side && kk >= 0, bo.Op == token.LEQ && !g.Side && kk >= -1,
						bo.Op == token.GEQ && g.Side && kk >= 0, bo.Op == token.GTR && g.Side && kk >= -1:
						lower = true
					}
				}
				res.Check(lower, rule, fmt.Sprintf("%s: index #%d taken from a signed id is tested against zero first", shortFn(f), k), instrPos(c.Prog, ins), "id < 0 excluded on the way here",
					"a slice / array / string is indexed with the int conversion of a signed 32-bit id (a ShardID / ClusterID field or an int32 parameter) without a dominating test that excludes negative values: `int(id) < len(..)` holds for every negative id, and the index panics - for ids from stream-open metadata wherever the value is first needed, which in routing mode is a worker goroutine outside the handler's panic capture")
			}
		}
	}
	if n < minSites {
		res.Undec(rule, "index expressions on signed ids in package proxy", "", fmt.Sprintf("%d found, at least %d confirmed by hand", n, minSites))
	}
}

// checkIntraProxyMarkerExact (O12.15 / O13.16): a stream counts as intra-proxy only when it carries the very marker
// that WithIntraProxyHeaders writes. In common.IsIntraProxy every return that is not the constant false is guarded,
// on its true side, by an equality test of the header value with IntraProxyHeaderValue: the translation interceptor
// hands intra-proxy streams to their handler untranslated, so a looser test ("any non-empty value") lets a peer
// switch translation off for its replication stream with a header like `x-s2s-intra-proxy: 0`.
func checkIntraProxyMarkerExact(c *Ctx, res *report.Result, rule string) {
	f := resolve(c, res, rule, anchor{"common", "", "IsIntraProxy"})
	if f == nil {
		return
	}
	want, okW := "", false
	if pk, err := c.Prog.Pkg("common"); err == nil {
		if cst, ok := pk.Types.Scope().Lookup("IntraProxyHeaderValue").(*types.Const); ok && cst.Val().Kind() == constant.String {
			want, okW = constant.StringVal(cst.Val()), true
		}
	}
	if !okW {
		res.Undec(rule, "common.IntraProxyHeaderValue", "", "the marker constant was not found")
		return
	}
	n := 0
	for _, b := range f.Blocks {
		ret, ok := b.Instrs[len(b.Instrs)-1].(*ssa.Return)
		if !ok || len(ret.Results) != 1 {
			continue
		}
		rv := flow.Ret(ret)[0]
		if v, isC := flow.ConstBool(rv); isC && !v {
			continue
		}
		n++
		exact := false
		isEq := func(v ssa.Value, side bool) bool {
			bo, ok := v.(*ssa.BinOp)
			if !ok || !(bo.Op == token.EQL && side || bo.Op == token.NEQ && !side) {
				return false
			}
			sx, okx := flow.ConstString(bo.X)
			sy, oky := flow.ConstString(bo.Y)
			return okx && sx == want || oky && sy == want
		}
		for _, g := range flow.NormGuards(flow.Guards(b)) {
			if isEq(g.Cond, g.Side) {
				exact = true
			}
		}
		// `return len(vals) > 0 && vals[0] == "1"`: the returned value itself is the comparison (through the && phi)
		if phi, isP := rv.(*ssa.Phi); isP && !exact {
			for _, e := range phi.Edges {
				if isEq(e, true) {
					exact = true
				}
			}
		}
		if isEq(rv, true) {
			exact = true
		}
		res.Check(exact, rule, fmt.Sprintf("common.IsIntraProxy: the positive answer in block %d requires the header to equal the marker %q", b.Index, want), instrPos(c.Prog, ret), "vals[0] == IntraProxyHeaderValue",
			"IsIntraProxy can answer true without the header being exactly the marker that WithIntraProxyHeaders writes: the translation interceptor hands such a stream to its handler untranslated, so any peer can switch namespace (and search-attribute) translation off for its replication stream by sending the header with another value")
	}
	if n < 1 {
		res.Undec(rule, "common.IsIntraProxy: positive return", fnPos(c.Prog, f), "no return other than the constant false")
	}
}

// checkTrackerEntriesTested (O8.20): an entry of the stream tracker is used only after it was found. Successive
// incarnations of a stream share a tracker id and UnregisterStream is unconditional, so an update can find no entry
// while its stream is alive (the predecessor's deferred cleanup removed it). In stream_tracker.go every field access
// through a *StreamInfo that comes from a lookup in `streams` - directly or through a helper of the file that returns
// one - is dominated by the comma-ok flag of that lookup or by a test of that pointer against nil. The updates run on
// the senders' and receivers' worker goroutines, where a nil dereference ends the process.
func checkTrackerEntriesTested(c *Ctx, res *report.Result, rule string, minSites int) {
	var fns []*ssa.Function
	for _, f := range c.Prog.RepoFuncs() {
		if isShippedFunc(f) && len(f.Blocks) > 0 && strings.HasPrefix(c.Prog.Pos(f.Pos()), "proxy/stream_tracker.go") {
			fns = append(fns, f)
		}
	}
	isStreamsLookup := func(v ssa.Value) *ssa.Lookup {
		lk, ok := v.(*ssa.Lookup)
		if !ok {
			return nil
		}
		if _, fld, isF := flow.FieldLoadOf(lk.X); isF && fld == "streams" {
			return lk
		}
		return nil
	}
	// helpers of the file whose result is such an entry (possibly nil)
	returnsEntry := map[*ssa.Function]bool{}
	for _, f := range fns {
		if f.Signature.Results().Len() != 1 {
			continue
		}
		for _, b := range f.Blocks {
			if ret, ok := b.Instrs[len(b.Instrs)-1].(*ssa.Return); ok {
				v := flow.ResolveLoad(flow.Ret(ret)[0])
				if ex, isE := v.(*ssa.Extract); isE {
					v = ex.Tuple
				}
				if isStreamsLookup(v) != nil {
					returnsEntry[f] = true
				}
			}
		}
	}
	n := 0
	for _, f := range fns {
		k := 0
		for _, b := range f.Blocks {
			for _, ins := range b.Instrs {
				fa, ok := ins.(*ssa.FieldAddr)
				if !ok || !isNamedPtr(fa.X.Type(), "StreamInfo") {
					continue
				}
				p := flow.ResolveLoad(fa.X)
				var okFlag ssa.Value
				fromLookup := false
				switch x := p.(type) {
				case *ssa.Extract:
					if lk := isStreamsLookup(x.Tuple); lk != nil && x.Index == 0 {
						fromLookup = true
						for _, r := range *lk.Referrers() {
							if e2, isE := r.(*ssa.Extract); isE && e2.Index == 1 {
								okFlag = e2
							}
						}
					}
				case *ssa.Lookup:
					fromLookup = isStreamsLookup(x) != nil
				case *ssa.Call:
					if sc := flow.StaticCallee(&x.Call); sc != nil && returnsEntry[sc] {
						fromLookup = true
					}
				}
				if !fromLookup {
					continue
				}
				n++
				k++
				tested := false
				for _, g := range flow.NormGuards(flow.Guards(b)) {
					if okFlag != nil && g.Side && (g.Cond == okFlag || flow.ResolveLoad(g.Cond) == okFlag) {
						tested = true
					}
					if bo, isB := g.Cond.(*ssa.BinOp); isB && flow.IsNilConst(bo.Y) && (flow.ResolveLoad(bo.X) == p || bo.X == p) && (bo.Op == token.NEQ && g.Side || bo.Op == token.EQL && !g.Side) {
						tested = true
					}
				}
				res.Check(tested, rule, fmt.Sprintf("%s: tracker entry access #%d follows a test that the entry exists", shortFn(f), k), instrPos(c.Prog, fa), "exists / != nil on this path",
					"a field of a *StreamInfo taken from the tracker's table is accessed without a test that the lookup found an entry: successive incarnations of a stream share a tracker id and the predecessor's cleanup removes the entry unconditionally, so the update of a live stream can find nothing - a nil dereference on a worker goroutine, which ends the process")
			}
		}
	}
	if n < minSites {
		res.Undec(rule, "accesses of tracker entries in stream_tracker.go", "", fmt.Sprintf("%d found, at least %d confirmed by hand", n, minSites))
	}
}

// checkAggregateReturnsFreshMap (O5.12): every call of AggregateUpTo answers for itself. Each return hands back a map
// made in this very call (possibly empty): a map kept in the buffer and reused between calls is returned again by the
// early exits (nothing outstanding, watermark below the stored range) with the previous acknowledgement's levels in it,
// and those levels are acknowledged a second time as if the target had confirmed them now.
func checkAggregateReturnsFreshMap(c *Ctx, res *report.Result, rule string) {
	f := resolve(c, res, rule, anchor{"proxy", "*proxyIDRingBuffer", "AggregateUpTo"})
	if f == nil {
		return
	}
	n := 0
	for _, b := range f.Blocks {
		ret, ok := b.Instrs[len(b.Instrs)-1].(*ssa.Return)
		if !ok || len(ret.Results) < 1 {
			continue
		}
		n++
		v := flow.ResolveLoad(flow.Ret(ret)[0])
		mk, isMake := v.(*ssa.MakeMap)
		res.Check(isMake && mk.Parent() == f, rule, fmt.Sprintf("AggregateUpTo: the map returned in block %d was made in this call", b.Index), instrPos(c.Prog, ret), "make(map[..]..) of this call",
			"AggregateUpTo returns "+flow.Describe(v)+", not a map made in this call: a result kept between calls still holds the levels of the previous acknowledgement when this call returns early (empty ring, watermark below the stored range), and the sender forwards them again")
	}
	if n < 2 {
		res.Undec(rule, "AggregateUpTo: returns", fnPos(c.Prog, f), fmt.Sprintf("%d found, at least 2 confirmed by hand", n))
	}
}
