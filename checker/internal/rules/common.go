// Package rules holds the obligations of each property (one file per property or property group).
package rules

import (
	"fmt"
	"go/ast"
	"go/constant"
	"go/token"
	"go/types"
	"sort"
	"strings"

	"golang.org/x/tools/go/packages"
	"golang.org/x/tools/go/ssa"

	"s2scheck/internal/flow"
	"s2scheck/internal/load"
	"s2scheck/internal/report"
)

type Ctx struct {
	Prog    *load.Program
	Tier    string
	RepoDir string
	Overlay map[string][]byte
}

type RuleFn func(*Ctx) (*report.Result, error)

var Registry = map[string]RuleFn{}

// NeedsWhole lists properties whose thorough tier re-decides on the whole program.
var NeedsWhole = map[string]bool{}

const (
	modPath   = load.Module
	apiPath   = "go.temporal.io/api"
	srvPath   = "go.temporal.io/server"
	visitPath = "github.com/keilerkonzept/visit"
)

func newResult(id string) *report.Result {
	return &report.Result{Property: id, Level: "other", RuleDoc: map[string]string{}, Floors: map[string]int{}, Extra: map[string]any{}, Analysed: map[string]any{}}
}

// ---------------------------------------------------------------------------------------------
// P-TAB: tables read from the current source

type tableKey struct {
	Str   string         // string key (for map[string]...)
	Const *types.Const   // constant key (for enum-keyed maps)
	Val   constant.Value // value of the entry if constant (e.g. true/false)
	Pos   token.Pos
}

// pkgVarLiteral finds the composite literal initialising package-level variable `name`.
func pkgVarLiteral(pk *packages.Package, name string) (*ast.CompositeLit, error) {
	for _, f := range pk.Syntax {
		for _, d := range f.Decls {
			gd, ok := d.(*ast.GenDecl)
			if !ok || gd.Tok != token.VAR {
				continue
			}
			for _, sp := range gd.Specs {
				vs := sp.(*ast.ValueSpec)
				for i, n := range vs.Names {
					if n.Name != name || i >= len(vs.Values) {
						continue
					}
					cl, ok := vs.Values[i].(*ast.CompositeLit)
					if !ok {
						return nil, fmt.Errorf("anchor: %s.%s is not initialised by a composite literal", pk.Name, name)
					}
					return cl, nil
				}
			}
		}
	}
	return nil, fmt.Errorf("anchor: package variable %s.%s not found", pk.Name, name)
}

func mapLiteralKeys(pk *packages.Package, name string) ([]tableKey, error) {
	cl, err := pkgVarLiteral(pk, name)
	if err != nil {
		return nil, err
	}
	var out []tableKey
	for _, e := range cl.Elts {
		kv, ok := e.(*ast.KeyValueExpr)
		if !ok {
			return nil, fmt.Errorf("table %s: element is not key:value", name)
		}
		tk := tableKey{Pos: kv.Pos()}
		tv := pk.TypesInfo.Types[kv.Key]
		if tv.Value != nil && tv.Value.Kind() == constant.String {
			tk.Str = constant.StringVal(tv.Value)
		}
		switch k := kv.Key.(type) {
		case *ast.SelectorExpr:
			if c, ok := pk.TypesInfo.Uses[k.Sel].(*types.Const); ok {
				tk.Const = c
			}
		case *ast.Ident:
			if c, ok := pk.TypesInfo.Uses[k].(*types.Const); ok {
				tk.Const = c
			}
		}
		if tk.Str == "" && tk.Const == nil && tv.Value == nil {
			return nil, fmt.Errorf("table %s: key at %v is not a constant", name, pk.Fset.Position(kv.Pos()))
		}
		if vv := pk.TypesInfo.Types[kv.Value]; vv.Value != nil {
			tk.Val = vv.Value
		}
		out = append(out, tk)
	}
	return out, nil
}

// stringSetTable reads a map[string]bool literal; only keys whose value is the constant true count.
func stringSetTable(pk *packages.Package, name string) (map[string]bool, error) {
	keys, err := mapLiteralKeys(pk, name)
	if err != nil {
		return nil, err
	}
	out := map[string]bool{}
	for _, k := range keys {
		if k.Val != nil && k.Val.Kind() == constant.Bool && !constant.BoolVal(k.Val) {
			continue
		}
		out[k.Str] = true
	}
	return out, nil
}

// stringSliceVar reads a []string literal package variable.
func stringSliceVar(pk *packages.Package, name string) ([]string, error) {
	cl, err := pkgVarLiteral(pk, name)
	if err != nil {
		return nil, err
	}
	var out []string
	for _, e := range cl.Elts {
		tv := pk.TypesInfo.Types[e]
		if tv.Value == nil || tv.Value.Kind() != constant.String {
			return nil, fmt.Errorf("table %s: non-constant element", name)
		}
		out = append(out, constant.StringVal(tv.Value))
	}
	return out, nil
}

func sortedKeys[V any](m map[string]V) []string {
	var ks []string
	for k := range m {
		ks = append(ks, k)
	}
	sort.Strings(ks)
	return ks
}

// ---------------------------------------------------------------------------------------------
// small SSA helpers shared by rules

func fn(p *load.Program, rel, recv, name string) (*ssa.Function, error) {
	return p.Func(rel, recv, name)
}

// mustFuncs resolves a list of anchors; an unresolved anchor is reported as undecided.
type anchor struct{ rel, recv, name string }

func (a anchor) String() string {
	if a.recv == "" {
		return a.rel + "." + a.name
	}
	return a.rel + ".(" + a.recv + ")." + a.name
}

func resolve(c *Ctx, res *report.Result, rule string, a anchor) *ssa.Function {
	f, err := c.Prog.Func(a.rel, a.recv, a.name)
	if err != nil || f == nil || f.Blocks == nil {
		msg := "anchor does not resolve"
		if err != nil {
			msg = err.Error()
		}
		res.Undec(rule, a.String(), "", msg+" - a renamed or removed anchor fails the check rather than silently passing")
		return nil
	}
	return f
}

// closureOf returns the i-th anonymous function of f by structural role: the one satisfying pred.
func findAnon(f *ssa.Function, pred func(*ssa.Function) bool) *ssa.Function {
	for _, a := range flow.AnonFuncsDeep(f) {
		if pred(a) {
			return a
		}
	}
	return nil
}

func hasCallTo(f *ssa.Function, pkgPath, recv, name string) bool {
	return len(flow.FindCalls(f, func(c *ssa.CallCommon) bool { return flow.IsCallTo(c, pkgPath, recv, name) })) > 0
}

func instrPos(p *load.Program, ins ssa.Instruction) string {
	if ins == nil {
		return ""
	}
	pos := ins.Pos()
	if !pos.IsValid() {
		if v, ok := ins.(ssa.Value); ok {
			_ = v
		}
		// fall back to the nearest instruction with a position in the same block
		b := ins.Block()
		if b != nil {
			for _, x := range b.Instrs {
				if x.Pos().IsValid() {
					pos = x.Pos()
					break
				}
			}
		}
	}
	if !pos.IsValid() && ins.Parent() != nil {
		pos = ins.Parent().Pos()
	}
	return p.Pos(pos)
}

func fnPos(p *load.Program, f *ssa.Function) string {
	if f == nil {
		return ""
	}
	return p.Pos(f.Pos())
}

func shortFn(f *ssa.Function) string {
	s := flow.FuncName(f)
	s = strings.ReplaceAll(s, modPath+"/", "")
	return s
}

func relPath(path string) string { return strings.TrimPrefix(path, modPath+"/") }

// depConst reads a string constant of a dependency package as seen by a module package.
func depConst(c *Ctx, fromRel, pkgPath, name string) (string, bool) {
	pk, err := c.Prog.Pkg(fromRel)
	if err != nil {
		return "", false
	}
	for _, imp := range pk.Types.Imports() {
		if imp.Path() == pkgPath {
			if cst, ok := imp.Scope().Lookup(name).(*types.Const); ok && cst.Val().Kind() == constant.String {
				return constant.StringVal(cst.Val()), true
			}
		}
	}
	return "", false
}

// freeVarBinding returns the value a closure's free variable is bound to in the enclosing function.
func freeVarBinding(fv *ssa.FreeVar) ssa.Value {
	fn := fv.Parent()
	idx := -1
	for i, v := range fn.FreeVars {
		if v == fv {
			idx = i
		}
	}
	par := fn.Parent()
	if par == nil || idx < 0 {
		return nil
	}
	for _, b := range par.Blocks {
		for _, ins := range b.Instrs {
			if mc, ok := ins.(*ssa.MakeClosure); ok && mc.Fn == ssa.Value(fn) && idx < len(mc.Bindings) {
				b := mc.Bindings[idx]
				if inner, ok := b.(*ssa.FreeVar); ok {
					return freeVarBinding(inner)
				}
				return b
			}
		}
	}
	return nil
}

// importObligations files another property's obligations under `rule` of res (the other property is a
// necessary condition of this one: e.g. the proxy-id table of C05 for the acknowledgement properties).
func importObligations(res *report.Result, from *report.Result, rule string, only func(o report.Obligation) bool) int {
	n := 0
	for _, o := range from.Obligations {
		if only != nil && !only(o) {
			continue
		}
		o.Construct = "[" + o.Rule + "] " + o.Construct
		o.Rule = rule
		res.Obligations = append(res.Obligations, o)
		n++
	}
	return n
}

// resolveCell: v with captured-variable plumbing removed: a load of a variable cell that is stored exactly once (in
// its function or the closures capturing it) is the stored value; a free variable is its binding.
func resolveCell(v ssa.Value) ssa.Value {
	for d := 0; d < 6 && v != nil; d++ {
		switch x := v.(type) {
		case *ssa.FreeVar:
			v = freeVarBinding(x)
			continue
		case *ssa.UnOp:
			if x.Op != token.MUL {
				return v
			}
			addr := x.X
			if fv, ok := addr.(*ssa.FreeVar); ok {
				addr = freeVarBinding(fv)
			}
			if al, ok := addr.(*ssa.Alloc); ok {
				if st := cellStores(al); len(st) == 1 {
					v = st[0].Val
					continue
				}
			}
			return v
		}
		return v
	}
	return v
}

// deferRuns: the defer runs a call satisfying pred - the deferred call itself, or, when a function literal is deferred,
// a call that lies on every path through the literal (`defer func() { cancel() }()`). pred sees the call and a
// resolver that maps the literal's values (free variables, captured cells) to the enclosing function's values.
func deferRuns(d *ssa.Defer, pred func(cc *ssa.CallCommon, outer func(ssa.Value) ssa.Value) bool) bool {
	if pred(&d.Call, resolveCell) {
		return true
	}
	lit, _ := closureFn(d.Call.Value)
	if lit == nil || len(lit.Blocks) == 0 || lit.Parent() == nil {
		return false
	}
	for _, call := range flow.Calls(lit) {
		if _, isCall := call.(*ssa.Call); !isCall || !pred(call.Common(), resolveCell) {
			continue
		}
		hit := call
		if !flow.FindPath(flow.Point{Block: lit.Blocks[0]}, flow.IsReturn, func(x ssa.Instruction) bool { return x == ssa.Instruction(hit) }, nil).Found {
			return true
		}
	}
	return false
}
