package rules

import (
	"fmt"
	"go/token"
	"go/types"
	"strings"

	"golang.org/x/tools/go/ssa"

	"s2scheck/internal/flow"
	"s2scheck/internal/report"
)

func init() { Registry["C05"] = c05 }

// fieldLoad: v is `*(&recv.field)` with recv the function's receiver; returns the field name.
func recvFieldLoad(v ssa.Value, recv ssa.Value) (string, bool) {
	ld, ok := v.(*ssa.UnOp)
	if !ok || ld.Op != token.MUL {
		return "", false
	}
	fa, ok := ld.X.(*ssa.FieldAddr)
	if !ok {
		return "", false
	}
	if recv != nil && flow.ResolveLoad(fa.X) != recv && fa.X != recv {
		// through a loaded pointer field such as s.idRing: accept when the field chain is the same path
		return flow.FieldName(fa.X.Type(), fa.Field), true
	}
	return flow.FieldName(fa.X.Type(), fa.Field), true
}

// ringIndexOK: ia indexes b.entries with (b.head + k) % len(b.entries), len taken from the same field of
// the same base with nothing in between that can replace entries.
func ringIndexOK(ia *ssa.IndexAddr) (bool, string) {
	sl, ok := ia.X.(*ssa.UnOp)
	if !ok {
		return false, "indexed slice is not a direct load of the entries field"
	}
	sfa, ok := sl.X.(*ssa.FieldAddr)
	if !ok || flow.FieldName(sfa.X.Type(), sfa.Field) != "entries" {
		return false, "indexed slice is not the entries field"
	}
	rem, ok := ia.Index.(*ssa.BinOp)
	if !ok || rem.Op != token.REM {
		return false, "index is not of the form (head + k) % len(entries)"
	}
	ln, ok := rem.Y.(*ssa.Call)
	if !ok {
		return false, "modulus is not len(entries)"
	}
	if bi, ok := ln.Call.Value.(*ssa.Builtin); !ok || bi.Name() != "len" {
		return false, "modulus is not len(entries)"
	}
	ll, ok := ln.Call.Args[0].(*ssa.UnOp)
	if !ok {
		return false, "modulus is not len of the entries field"
	}
	lfa, ok := ll.X.(*ssa.FieldAddr)
	if !ok || flow.FieldName(lfa.X.Type(), lfa.Field) != "entries" || !flow.SameValue(lfa.X, sfa.X) {
		return false, "the length is taken from another slice than the one that is indexed"
	}
	isField := func(v ssa.Value, name string) bool {
		l, ok := v.(*ssa.UnOp)
		if !ok {
			return false
		}
		fa, ok := l.X.(*ssa.FieldAddr)
		return ok && flow.FieldName(fa.X.Type(), fa.Field) == name && flow.SameValue(fa.X, sfa.X)
	}
	isHead := func(v ssa.Value) bool { return isField(v, "head") }
	add, ok := rem.X.(*ssa.BinOp)
	if ok && add.Op == token.SUB {
		// the tail slot: (head + size - 1) % len, under a test that gives size >= 1 (Go's % keeps the sign, so the
		// index must not go below zero)
		inner, isAdd := add.X.(*ssa.BinOp)
		one, isOne := flow.ConstInt(add.Y)
		if isAdd && inner.Op == token.ADD && isOne && one == 1 && (isHead(inner.X) && isField(inner.Y, "size") || isHead(inner.Y) && isField(inner.X, "size")) {
			for _, g := range flow.NormGuards(flow.Guards(ia.Block())) {
				bo, isB := g.Cond.(*ssa.BinOp)
				if !isB || !isField(bo.X, "size") {
					continue
				}
				k, isK := flow.ConstInt(bo.Y)
				if !isK {
					continue
				}
				if g.Side && (bo.Op == token.GTR && k >= 0 || bo.Op == token.GEQ && k >= 1 || bo.Op == token.NEQ && k == 0) || !g.Side && (bo.Op == token.EQL && k == 0 || bo.Op == token.LEQ && k >= 0 || bo.Op == token.LSS && k >= 1) {
					add, ok = inner, true
				}
			}
			if add != inner {
				return false, "the tail index head + size - 1 is not guarded by a test that gives size >= 1: on an empty ring it is negative"
			}
		}
	}
	if !ok || add.Op != token.ADD {
		return false, "index base is not head + k"
	}
	if !isHead(add.X) && !isHead(add.Y) {
		return false, "index is not relative to head"
	}
	// nothing between the length read and the access may replace entries: same block, no call to a
	// method of the buffer and no store to the entries field in between
	if ll.Block() != ia.Block() {
		if !ll.Block().Dominates(ia.Block()) {
			return false, "length read does not dominate the access"
		}
	}
	between := false
	started := false
	for _, b := range []*ssa.BasicBlock{ll.Block(), ia.Block()} {
		for _, ins := range b.Instrs {
			if ins == ssa.Instruction(ll) {
				started = true
				continue
			}
			if ins == ssa.Instruction(ia) {
				started = false
				break
			}
			if !started {
				continue
			}
			switch x := ins.(type) {
			case *ssa.Store:
				if fa, ok := x.Addr.(*ssa.FieldAddr); ok && flow.FieldName(fa.X.Type(), fa.Field) == "entries" {
					between = true
				}
			case ssa.CallInstruction:
				if cal := flow.StaticCallee(x.Common()); cal != nil && cal.Signature.Recv() != nil && flow.NamedIs(cal.Signature.Recv().Type(), proxyPkg, "proxyIDRingBuffer") {
					between = true
				}
			}
		}
		if ll.Block() == ia.Block() {
			break
		}
	}
	if between {
		return false, "entries can be replaced (growth) between reading its length and indexing it"
	}
	return true, ""
}

func c05(c *Ctx) (*report.Result, error) {
	res := newResult("C05")
	res.RuleDoc["O5.1"] = "index discipline: every element access of proxyIDRingBuffer.entries uses (head + k) % len(entries) with the length read from the very slice that is indexed and nothing in between that can replace it"
	res.RuleDoc["O5.2"] = "growth preserves order: ensureCapacity copies entry (head+i)%len to position i of the new slice for every i < size, and every path that replaces entries resets head to 0; Append ensures capacity before every element store"
	res.RuleDoc["O5.5"] = "nothing is discarded that was not translated: the only callers of the ring's mutators are the reviewed ones (Append from sendReplicationMessages, Discard from recvAck) and recvAck discards exactly the count AggregateUpTo returned for that acknowledgement (same analysis as O1.3) - an entry appended between the aggregation and the discard must survive"
	checkRingCallers(c, res, "O5.5")
	if g := resolve(c, res, "O5.5", anchor{"proxy", "*proxyStreamSender", "recvAck"}); g != nil {
		tmp := newResult("C05")
		checkRecvAckDiscard(c, tmp, g)
		importObligations(res, tmp, "O5.5", func(o report.Obligation) bool {
			return strings.Contains(o.Construct, "Discard") || strings.Contains(o.Construct, "discarded")
		})
	}
	res.RuleDoc["O5.4"] = "translation is the largest covered original id: AggregateUpTo's per-shard value is a MAX reduction over the entries it covers and only hole entries are skipped (same analysis as O1.2) - original ids of one shard need not increase with the proxy id (a re-sent older task, a lower watermark-only entry)"
	if g := resolve(c, res, "O5.4", anchor{"proxy", "*proxyIDRingBuffer", "AggregateUpTo"}); g != nil {
		checkAggregateMax(c, res, g, "O5.4")
	}
	res.RuleDoc["O5.12"] = "an acknowledgement that covers nothing translates to nothing: every return of AggregateUpTo hands back a map made in that very call - a result map kept in the buffer between calls comes back from the early exits with the previous acknowledgement's levels still in it"
	checkAggregateReturnsFreshMap(c, res, "O5.12")
	res.RuleDoc["O5.11"] = "what AggregateUpTo computed is what is acknowledged: the per-source map it returns is only read by its caller (no update, delete or clear before the levels are forwarded) - a level raised to 'what was forwarded earlier' is the id of an entry that is no longer outstanding, and the discard count still belongs to the levels the table computed"
	checkTranslationNotEdited(c, res, "O5.11")
	res.RuleDoc["O5.10"] = "every mapping handed to Append becomes a live entry: no return of Append is reachable without the store of the caller's (sourceShard, sourceTask) into a ring slot followed by size++ - the sender allocates one proxy id per Append, so an Append that stores nothing leaves that id without an entry and shifts every later one"
	checkAppendAlwaysAppends(c, res, "O5.10")
	res.RuleDoc["O5.9"] = "what is recorded is what will be translated back: every Append made by sendReplicationMessages pairs the allocated proxy id with the routed message's own source shard and original id (same analysis as O2.2) - an entry filed under another shard acknowledges that shard at an id from a foreign id space and leaves the real one unacknowledged"
	if g := resolve(c, res, "O5.9", anchor{"proxy", "*proxyStreamSender", "sendReplicationMessages"}); g != nil {
		tmp := newResult("C05")
		checkAllocator(c, tmp, g)
		if n := importObligations(res, tmp, "O5.9", func(o report.Obligation) bool { return strings.Contains(o.Construct, "Append #") }); n < 2 {
			res.Undec("O5.9", "sendReplicationMessages: ring appends", fnPos(c.Prog, g), fmt.Sprintf("%d Append obligations imported, 2 expected", n))
		}
	}
	res.RuleDoc["O5.6"] = "growth grows: the slice ensureCapacity allocates has length 2*len(entries), or a positive constant only where that is 0"
	checkRingGrowthGrows(c, res, "O5.6")
	res.RuleDoc["O5.7"] = "startProxyID is the head entry's proxy id: Append sets it to the appended id exactly when the buffer is empty (one store, under size == 0, passed on every empty-side path) - Discard's advance is O5.3"
	checkRingStartID(c, res, "O5.7")
	res.RuleDoc["O5.8"] = "AggregateUpTo returns an empty aggregation only when the buffer is empty, the watermark lies below the head entry's id, or the derived count is not positive"
	checkAggregateEarlyReturns(c, res, "O5.8")
	res.RuleDoc["O5.3"] = "Discard advances head, size and startProxyID by one and the same clamped count; AggregateUpTo clamps its count to size and writes no field of the buffer"
	res.Floors["O5.1"] = 3

	sp, err := c.Prog.SSAPkg("proxy")
	if err != nil {
		return res, err
	}
	// ---- O5.1
	for _, f := range c.Prog.RepoFuncs() {
		if f.Package() != sp {
			continue
		}
		n := 0
		for _, b := range f.Blocks {
			for _, ins := range b.Instrs {
				ia, ok := ins.(*ssa.IndexAddr)
				if !ok {
					continue
				}
				ld, ok := ia.X.(*ssa.UnOp)
				if !ok {
					continue
				}
				fa, ok := ld.X.(*ssa.FieldAddr)
				if !ok || flow.FieldName(fa.X.Type(), fa.Field) != "entries" || !flow.NamedIs(fa.X.Type(), proxyPkg, "proxyIDRingBuffer") {
					continue
				}
				n++
				ok2, why := ringIndexOK(ia)
				res.Check(ok2, "O5.1", fmt.Sprintf("%s: entries access #%d", shortFn(f), n), instrPos(c.Prog, ia), "entries[(head+k) % len(entries)]", "ring element accessed with a wrong index: "+why)
			}
		}
	}

	// ---- O5.2 ensureCapacity
	if f := resolve(c, res, "O5.2", anchor{"proxy", "*proxyIDRingBuffer", "ensureCapacity"}); f != nil {
		var mk *ssa.MakeSlice
		var storeEntries, storeHead *ssa.Store
		for _, b := range f.Blocks {
			for _, ins := range b.Instrs {
				switch x := ins.(type) {
				case *ssa.MakeSlice:
					mk = x
				case *ssa.Store:
					if fa, ok := x.Addr.(*ssa.FieldAddr); ok {
						switch flow.FieldName(fa.X.Type(), fa.Field) {
						case "entries":
							storeEntries = x
						case "head":
							storeHead = x
						}
					}
				}
			}
		}
		if !res.Check(mk != nil && storeEntries != nil && storeEntries.Val == ssa.Value(mk), "O5.2", "ensureCapacity: entries replaced by the freshly made slice", fnPos(c.Prog, f), "b.entries = newEntries", "growth does not install the new slice") {
			goto appendCheck
		}
		{
			// copy loop
			okCopy := false
			why := "no copy of the old entries into the new slice"
			for _, b := range f.Blocks {
				for _, ins := range b.Instrs {
					st, ok := ins.(*ssa.Store)
					if !ok {
						continue
					}
					dst, ok := st.Addr.(*ssa.IndexAddr)
					if !ok || dst.X != ssa.Value(mk) {
						continue
					}
					src, ok := st.Val.(*ssa.UnOp)
					if !ok {
						why = "the copied value is not read from the old entries"
						continue
					}
					sia, ok := src.X.(*ssa.IndexAddr)
					if !ok {
						why = "the copied value is not an element of the old entries"
						continue
					}
					if good, w := ringIndexOK(sia); !good {
						why = "source index: " + w
						continue
					}
					// source index is (head + i), destination index is i: the same loop variable
					rem := sia.Index.(*ssa.BinOp)
					add := rem.X.(*ssa.BinOp)
					k := add.Y
					if _, isLd := add.X.(*ssa.UnOp); !isLd {
						k = add.X
					}
					if k != dst.Index {
						why = "position i of the new slice does not receive the i-th element counted from head"
						continue
					}
					// loop bound i < size
					bound := false
					for _, g := range flow.NormGuards(flow.Guards(b)) {
						if bo, ok := g.Cond.(*ssa.BinOp); ok && bo.Op == token.LSS && g.Side && bo.X == dst.Index {
							if fld, ok := recvFieldLoad(bo.Y, nil); ok && fld == "size" {
								bound = true
							}
						}
					}
					// starts at 0
					zero := false
					if phi, ok := dst.Index.(*ssa.Phi); ok {
						for _, e := range phi.Edges {
							if n, ok := flow.ConstInt(e); ok && n == 0 {
								zero = true
							}
						}
					}
					if !bound || !zero {
						why = "the copy does not run over i = 0 .. size-1"
						continue
					}
					okCopy = true
				}
			}
			if !okCopy {
				// the two-segment copy() idiom: [head:] to position 0, then [:head] to position len-head
				if good, w := twoSegmentCopy(f, mk); good {
					okCopy = true
				} else if w != "" {
					why = w
				}
			}
			res.Check(okCopy, "O5.2", "ensureCapacity: newEntries[i] = entries[(head+i) % len] for i < size", fnPos(c.Prog, f), "order-preserving copy starting at head", why+": entries would be lost or reordered by growth while the buffer is wrapped")
			// head reset on every path after replacing entries
			okHead := storeHead != nil
			if okHead {
				if n, isN := flow.ConstInt(storeHead.Val); !isN || n != 0 {
					okHead = false
				}
				r := flow.FindPath(flow.After(storeEntries), flow.IsReturn, func(x ssa.Instruction) bool { return x == ssa.Instruction(storeHead) }, nil)
				if r.Found {
					okHead = false
				}
				// also no path on which head is reset but entries not replaced... (harmless) skip
			}
			res.Check(okHead, "O5.2", "ensureCapacity: head = 0 whenever entries is replaced", instrPos(c.Prog, storeEntries), "b.head = 0 before returning", "after growth head still points into the old layout: every later access reads the wrong element")
			// new capacity is at least twice (or 1)
			okCap := false
			if phi, ok := mk.Len.(*ssa.Phi); ok {
				for _, e := range phi.Edges {
					if bo, ok := e.(*ssa.BinOp); ok && bo.Op == token.MUL {
						if n, ok := flow.ConstInt(bo.Y); ok && n >= 2 {
							okCap = true
						}
					}
				}
			}
			res.Check(okCap, "O5.2", "ensureCapacity: the new slice is larger than the old one", instrPos(c.Prog, mk), "len*2 (1 for an empty buffer)", "growth does not enlarge the buffer")
			// growth only when full
			okFull := false
			for _, g := range flow.NormGuards(flow.Guards(mk.Block())) {
				if bo, ok := g.Cond.(*ssa.BinOp); ok && bo.Op == token.LSS && !g.Side {
					if fld, ok := recvFieldLoad(bo.X, nil); ok && fld == "size" {
						okFull = true
					}
				}
			}
			res.Check(okFull, "O5.2", "ensureCapacity: grows exactly when size reached len(entries)", fnPos(c.Prog, f), "if size < len(entries) return", "the fullness test does not compare size with the capacity")
		}
	}
appendCheck:
	if f := resolve(c, res, "O5.2", anchor{"proxy", "*proxyIDRingBuffer", "Append"}); f != nil {
		isEnsure := func(x ssa.Instruction) bool {
			call, ok := x.(ssa.CallInstruction)
			return ok && flow.IsCallTo(call.Common(), proxyPkg, "proxyIDRingBuffer", "ensureCapacity")
		}
		isElemStore := func(x ssa.Instruction) bool {
			st, ok := x.(*ssa.Store)
			if !ok {
				return false
			}
			ia, ok := st.Addr.(*ssa.IndexAddr)
			if !ok {
				return false
			}
			ld, ok := ia.X.(*ssa.UnOp)
			if !ok {
				return false
			}
			fa, ok := ld.X.(*ssa.FieldAddr)
			return ok && flow.FieldName(fa.X.Type(), fa.Field) == "entries"
		}
		r1 := flow.FindPath(flow.Point{Block: f.Blocks[0]}, isElemStore, isEnsure, nil)
		bad := r1.Found
		n := 0
		for _, b := range f.Blocks {
			for _, ins := range b.Instrs {
				if isElemStore(ins) {
					n++
					r2 := flow.FindPath(flow.After(ins), isElemStore, isEnsure, nil)
					if r2.Found {
						bad = true
					}
				}
			}
		}
		res.Check(!bad && n >= 1, "O5.2", "Append: capacity ensured before every element store", fnPos(c.Prog, f), fmt.Sprintf("%d element stores, each preceded by ensureCapacity", n), "an element can be stored into a full buffer: it overwrites the oldest outstanding entry")
		// size++ after each store; startProxyID set when empty
		okSize := true
		for _, b := range f.Blocks {
			for _, ins := range b.Instrs {
				if !isElemStore(ins) {
					continue
				}
				// a store to size = size + 1 follows in the same block
				found := false
				after := false
				for _, x := range b.Instrs {
					if x == ins {
						after = true
						continue
					}
					if !after {
						continue
					}
					if st, ok := x.(*ssa.Store); ok {
						if fa, ok := st.Addr.(*ssa.FieldAddr); ok && flow.FieldName(fa.X.Type(), fa.Field) == "size" {
							if bo, ok := st.Val.(*ssa.BinOp); ok && bo.Op == token.ADD {
								if k, ok := flow.ConstInt(bo.Y); ok && k == 1 {
									found = true
								}
							}
						}
					}
				}
				if !found {
					okSize = false
				}
			}
		}
		res.Check(okSize, "O5.2", "Append: size grows by one per stored element", fnPos(c.Prog, f), "ok", "an element is stored without counting it")
		// and the converse: a slot becomes live (size++) only after it was written - also for the holes that
		// keep proxy ids contiguous: a reserved but unwritten slot still holds whatever a discarded entry left there
		isSizeInc := func(x ssa.Instruction) bool {
			st, ok := x.(*ssa.Store)
			if !ok {
				return false
			}
			fa, ok := st.Addr.(*ssa.FieldAddr)
			if !ok || flow.FieldName(fa.X.Type(), fa.Field) != "size" {
				return false
			}
			bo, ok := st.Val.(*ssa.BinOp)
			return ok && bo.Op == token.ADD
		}
		unwritten := ""
		nInc := 0
		if r := flow.FindPath(flow.Point{Block: f.Blocks[0]}, isSizeInc, isElemStore, nil); r.Found {
			unwritten = instrPos(c.Prog, r.End)
		}
		for _, b := range f.Blocks {
			for _, ins := range b.Instrs {
				if isSizeInc(ins) {
					nInc++
					if r := flow.FindPath(flow.After(ins), isSizeInc, isElemStore, nil); r.Found {
						unwritten = instrPos(c.Prog, r.End)
					}
				}
			}
		}
		res.Check(unwritten == "" && nInc >= 1, "O5.2", "Append: a slot is written before it becomes live", fnPos(c.Prog, f), fmt.Sprintf("%d size increments, each preceded by a store into the slot", nInc), "size is advanced at "+unwritten+" without a store into the new slot: the slot keeps the entry a previous Discard left there, and AggregateUpTo reports that stale (shard, task) again")
	}

	// ---- O5.3 Discard
	if f := resolve(c, res, "O5.3", anchor{"proxy", "*proxyIDRingBuffer", "Discard"}); f != nil {
		uses := map[string]ssa.Value{}
		for _, b := range f.Blocks {
			for _, ins := range b.Instrs {
				st, ok := ins.(*ssa.Store)
				if !ok {
					continue
				}
				fa, ok := st.Addr.(*ssa.FieldAddr)
				if !ok {
					continue
				}
				fld := flow.FieldName(fa.X.Type(), fa.Field)
				switch fld {
				case "head":
					// (head + count) % len
					ringForm := false
					if rem, ok := st.Val.(*ssa.BinOp); ok && rem.Op == token.REM {
						if add, ok := rem.X.(*ssa.BinOp); ok && add.Op == token.ADD {
							ringForm = true
							uses["head"] = add.Y
							if _, isLd := add.Y.(*ssa.UnOp); isLd {
								uses["head"] = add.X
							}
						}
					}
					if !ringForm {
						// the only other legitimate value is 0 for a buffer that this very call emptied: guarded by a test
						// of the size field (as stored) against 0
						emptied := false
						if k, isK := flow.ConstInt(st.Val); isK && k == 0 {
							for _, g := range flow.NormGuards(flow.Guards(b)) {
								if bo, isB := g.Cond.(*ssa.BinOp); isB && bo.Op == token.EQL && g.Side {
									if z, isZ := flow.ConstInt(bo.Y); isZ && z == 0 {
										if fld2, okf := recvFieldLoad(bo.X, nil); okf && fld2 == "size" {
											emptied = true
										}
									}
								}
							}
						}
						res.Check(emptied, "O5.3", "Discard: head is only advanced by the count (or rewound for an emptied buffer)", instrPos(c.Prog, st), "head = 0 under size == 0", "Discard stores a head that is not (head + count) % len(entries) while entries may remain: the surviving proxy ids then read other slots")
					}
				case "size":
					if sub, ok := st.Val.(*ssa.BinOp); ok && sub.Op == token.SUB {
						uses["size"] = sub.Y
					}
				case "startProxyID":
					if add, ok := st.Val.(*ssa.BinOp); ok && add.Op == token.ADD {
						v := add.Y
						if cv, ok := v.(*ssa.Convert); ok {
							v = cv.X
						}
						uses["startProxyID"] = v
					}
				default:
					res.Viol("O5.3", "Discard: store to "+fld, instrPos(c.Prog, st), "Discard writes a field other than head, size, startProxyID")
				}
			}
		}
		same := uses["head"] != nil && uses["head"] == uses["size"] && uses["size"] == uses["startProxyID"]
		res.Check(same, "O5.3", "Discard: head, size and startProxyID move by the same count", fnPos(c.Prog, f), "one clamped count", "head, size and startProxyID are not advanced by one and the same value: the proxy-id of the head element no longer matches its position")
		// clamped to size
		okClamp := false
		if phi, ok := uses["head"].(*ssa.Phi); ok {
			for i, e := range phi.Edges {
				if fld, ok := recvFieldLoad(e, nil); ok && fld == "size" {
					for _, g := range flow.EdgeGuards(phi.Block().Preds[i], phi.Block()) {
						if bo, ok := g.Cond.(*ssa.BinOp); ok && bo.Op == token.GTR && g.Side {
							okClamp = true
						}
					}
				}
			}
		}
		res.Check(okClamp, "O5.3", "Discard: count clamped to size", fnPos(c.Prog, f), "if count > size { count = size }", "more entries than are stored can be discarded: size becomes negative")
	}
	if f := resolve(c, res, "O5.3", anchor{"proxy", "*proxyIDRingBuffer", "AggregateUpTo"}); f != nil {
		writes := false
		for _, b := range f.Blocks {
			for _, ins := range b.Instrs {
				if st, ok := ins.(*ssa.Store); ok {
					if fa, ok := st.Addr.(*ssa.FieldAddr); ok && flow.NamedIs(fa.X.Type(), proxyPkg, "proxyIDRingBuffer") {
						writes = true
					}
					if ia, ok := st.Addr.(*ssa.IndexAddr); ok {
						if ld, ok := ia.X.(*ssa.UnOp); ok {
							if fa, ok := ld.X.(*ssa.FieldAddr); ok && flow.FieldName(fa.X.Type(), fa.Field) == "entries" {
								writes = true
							}
						}
					}
				}
			}
		}
		res.Check(!writes, "O5.3", "AggregateUpTo writes no field of the buffer", fnPos(c.Prog, f), "read-only", "AggregateUpTo modifies the buffer: entries would be consumed before their acks are forwarded")
		// the loop bound and the returned count are one value, clamped to size
		var bound ssa.Value
		for _, b := range f.Blocks {
			if iff := lastIfOf(b); iff != nil {
				if bo, ok := iff.Cond.(*ssa.BinOp); ok && bo.Op == token.LSS {
					if _, isPhi := bo.X.(*ssa.Phi); isPhi {
						bound = bo.Y
					}
				}
			}
		}
		okRet := bound != nil
		clamp := false
		if phi, ok := bound.(*ssa.Phi); ok {
			for i, e := range phi.Edges {
				if fld, ok := recvFieldLoad(e, nil); ok && fld == "size" {
					for _, g := range flow.EdgeGuards(phi.Block().Preds[i], phi.Block()) {
						if bo, ok := g.Cond.(*ssa.BinOp); ok && bo.Op == token.GTR && g.Side {
							clamp = true
						}
					}
				}
			}
		}
		for _, b := range f.Blocks {
			for _, ins := range b.Instrs {
				if ret, ok := ins.(*ssa.Return); ok {
					if n, isN := flow.ConstInt(ret.Results[1]); isN && n == 0 {
						continue
					}
					if ret.Results[1] != bound {
						okRet = false
					}
				}
			}
		}
		res.Check(okRet && clamp, "O5.3", "AggregateUpTo: the covered count is clamped to size and is the count returned", fnPos(c.Prog, f), "count = min(watermark-start+1, size)", "the count handed to Discard differs from the number of entries aggregated, or exceeds size")
		// count derives from watermark - startProxyID + 1
		okInc := false
		for _, b := range f.Blocks {
			for _, ins := range b.Instrs {
				if bo, ok := ins.(*ssa.BinOp); ok && bo.Op == token.ADD {
					if k, isK := flow.ConstInt(bo.Y); isK && k == 1 {
						if sub, ok := bo.X.(*ssa.BinOp); ok && sub.Op == token.SUB && sub.X == ssa.Value(f.Params[1]) {
							if fld, ok := recvFieldLoad(sub.Y, nil); ok && fld == "startProxyID" {
								okInc = true
							}
						}
					}
				}
			}
		}
		res.Check(okInc, "O5.3", "AggregateUpTo: watermark is inclusive (count = watermark - startProxyID + 1)", fnPos(c.Prog, f), "ok", "the number of covered entries is not watermark - startProxyID + 1: the entry at the watermark itself would be left out (or one too many taken)")
	}
	_ = types.Typ
	_ = strings.Join
	res.Explanation = "SSA of proxyIDRingBuffer's methods and of every function of package proxy that touches its entries: each element access is checked for the ring-index form with the length read from the very slice indexed (no growth in between); ensureCapacity's copy is checked to move the i-th element counted from head to position i for i < size and to reset head whenever entries is replaced; Append ensures capacity before each store; Discard advances its three cursors by one clamped value; AggregateUpTo is read-only, inclusive, and returns the clamped count it iterated over. These are the structural causes of 'lost, duplicated or reordered by growth, wrap-around or discarding'. Equivalence with the map model for all operation histories, and capacity arithmetic, are not decided."
	res.Assumptions = []string{"callers hold proxyStreamSender.mu around every buffer operation (checked for the allocator in C02)"}
	return res, nil
}

// twoSegmentCopy recognises
//
//	copy(newEntries, b.entries[b.head:])
//	copy(newEntries[len(b.entries)-b.head:], b.entries[:b.head])
//
// (the buffer is full when it grows, so these two segments are all entries in order).
func twoSegmentCopy(f *ssa.Function, mk *ssa.MakeSlice) (bool, string) {
	var copies []*ssa.Call
	for _, call := range flow.Calls(f) {
		if bi, ok := call.Common().Value.(*ssa.Builtin); ok && bi.Name() == "copy" {
			if cv, ok := call.(*ssa.Call); ok {
				copies = append(copies, cv)
			}
		}
	}
	if len(copies) == 0 {
		return false, ""
	}
	if len(copies) != 2 {
		return false, "growth copies with a number of copy() calls other than the two segments [head:] and [:head]"
	}
	isField := func(v ssa.Value, name string) bool {
		fld, ok := recvFieldLoad(v, nil)
		return ok && fld == name
	}
	type seg struct {
		dstLow, srcLow, srcHigh ssa.Value
		dstOK, srcOK            bool
	}
	parse := func(c *ssa.Call) seg {
		var s seg
		switch d := c.Call.Args[0].(type) {
		case *ssa.MakeSlice:
			s.dstOK = d == mk
		case *ssa.Slice:
			s.dstOK = d.X == ssa.Value(mk) && d.High == nil
			s.dstLow = d.Low
		}
		if sl, ok := c.Call.Args[1].(*ssa.Slice); ok && isField(sl.X, "entries") {
			s.srcOK = true
			s.srcLow, s.srcHigh = sl.Low, sl.High
		}
		return s
	}
	a, b := parse(copies[0]), parse(copies[1])
	if !a.dstOK || !a.srcOK || !b.dstOK || !b.srcOK {
		return false, "a copy() does not go from the old entries into the new slice"
	}
	// identify which is the [head:] segment
	first, second := a, b
	if !(first.srcLow != nil && isField(first.srcLow, "head") && first.srcHigh == nil) {
		first, second = b, a
	}
	if !(first.srcLow != nil && isField(first.srcLow, "head") && first.srcHigh == nil && first.dstLow == nil) {
		return false, "no copy of the segment entries[head:] to the start of the new slice"
	}
	if !(second.srcLow == nil && second.srcHigh != nil && isField(second.srcHigh, "head")) {
		return false, "no copy of the wrapped segment entries[:head]"
	}
	// destination offset of the wrapped segment: len(entries) - head
	sub, ok := second.dstLow.(*ssa.BinOp)
	if !ok || sub.Op != token.SUB || !isField(sub.Y, "head") {
		return false, "the wrapped segment entries[:head] is not placed at offset len(entries)-head of the new slice"
	}
	ln, ok := sub.X.(*ssa.Call)
	if !ok {
		return false, "the wrapped segment is not placed at offset len(entries)-head"
	}
	if bi, ok := ln.Call.Value.(*ssa.Builtin); !ok || bi.Name() != "len" || !isField(ln.Call.Args[0], "entries") {
		return false, "the wrapped segment is not placed at offset len(entries)-head"
	}
	return true, ""
}

// checkRingCallers: who-may-call inventory of the ring's mutating methods (and who-may-write of its cursors).
func checkRingCallers(c *Ctx, res *report.Result, rule string) {
	allowedCallers := map[string]map[string]bool{
		"Append":         {"sendReplicationMessages": true},
		"Discard":        {"recvAck": true},
		"ensureCapacity": {"Append": true},
	}
	sp, err := c.Prog.SSAPkg("proxy")
	if err != nil {
		res.Undec(rule, "proxy package", "", err.Error())
		return
	}
	n := 0
	for _, f := range c.Prog.RepoFuncs() {
		if f.Package() != sp || !isShippedFunc(f) {
			continue
		}
		for _, call := range flow.Calls(f) {
			cal := flow.StaticCallee(call.Common())
			if cal == nil || cal.Signature.Recv() == nil || !flow.NamedIs(cal.Signature.Recv().Type(), proxyPkg, "proxyIDRingBuffer") {
				continue
			}
			ok, tracked := allowedCallers[cal.Name()]
			if !tracked {
				continue
			}
			n++
			res.Check(ok[f.Name()], rule, fmt.Sprintf("%s is called only from its reviewed caller (site in %s)", cal.Name(), shortFn(f)), instrPos(c.Prog, call), "reviewed", "the ring's "+cal.Name()+" is called from "+shortFn(f)+", which is not the reviewed caller: entries can be added or removed outside the translate-then-discard protocol of recvAck")
		}
		// writes of the cursors outside the ring's own methods
		if f.Signature.Recv() == nil || !flow.NamedIs(f.Signature.Recv().Type(), proxyPkg, "proxyIDRingBuffer") {
			for _, b := range f.Blocks {
				for _, ins := range b.Instrs {
					st, isSt := ins.(*ssa.Store)
					if !isSt {
						continue
					}
					fa, isFA := st.Addr.(*ssa.FieldAddr)
					if !isFA || !flow.NamedIs(fa.X.Type(), proxyPkg, "proxyIDRingBuffer") {
						continue
					}
					if _, fresh := fa.X.(*ssa.Alloc); fresh {
						continue
					}
					res.Viol(rule, shortFn(f)+": writes proxyIDRingBuffer."+flow.FieldName(fa.X.Type(), fa.Field), instrPos(c.Prog, st), "the ring's cursor/storage is written outside the ring's own methods")
				}
			}
		}
	}
	if n < 4 {
		res.Undec(rule, "callers of the ring's mutators", "", fmt.Sprintf("%d call sites found, 5 confirmed by hand", n))
	}
}
