package rules

import (
	"fmt"
	"go/token"
	"go/types"
	"regexp"
	"sort"
	"strings"

	"golang.org/x/tools/go/ssa"

	"s2scheck/internal/flow"
	"s2scheck/internal/report"
)

func init() { Registry["C08"] = c08 }

// registryFields: per-shard routing registries whose entries belong to one stream incarnation.
var registryFields = map[string]bool{
	"localShards": true, "remoteSendChannels": true, "localAckChannels": true, "localReceiverCancelFuncs": true, "activeReceivers": true,
	"senders": true, "receivers": true, "recvShutdown": true,
}

// evictionClass: functions that remove another incarnation's entries on purpose (a successor evicting
// its predecessor, the manager closing a peer). They are not incarnation cleanups.
var evictionClass = map[string]string{
	"TerminatePreviousLocalReceiver": "a new receiver evicts its predecessor before registering",
	"forceRemoveLocalAckChan":        "helper of TerminatePreviousLocalReceiver",
	"closePeerLocked":                "the manager closes all streams of a peer",
	"closePeerShardLocked":           "the manager closes one stream pair of a peer",
	"ClosePeer":                      "manager operation",
	"ClosePeerShard":                 "manager operation",
	"ReconcilePeerStreams":           "manager prunes undesired streams",
}

type registryDelete struct {
	fn      *ssa.Function
	ins     ssa.Instruction
	field   string
	guarded bool
	why     string
}

func registryFieldOf(v ssa.Value) string {
	if _, fld, ok := flow.FieldLoadOf(flow.ResolveLoad(v)); ok && registryFields[fld] {
		return fld
	}
	return ""
}

func derivesFromLookup(v ssa.Value, depth int) *ssa.Lookup {
	if depth > 5 || v == nil {
		return nil
	}
	v = flow.ResolveLoad(v)
	switch x := v.(type) {
	case *ssa.Lookup:
		if registryFieldOf(x.X) != "" {
			return x
		}
	case *ssa.Extract:
		return derivesFromLookup(x.Tuple, depth+1)
	case *ssa.Field:
		return derivesFromLookup(x.X, depth+1)
	case *ssa.FieldAddr:
		return derivesFromLookup(x.X, depth+1)
	case *ssa.UnOp:
		return derivesFromLookup(x.X, depth+1)
	case *ssa.ChangeType:
		return derivesFromLookup(x.X, depth+1)
	case *ssa.MakeInterface:
		return derivesFromLookup(x.X, depth+1)
	case *ssa.Alloc:
		// a local struct copy of the looked-up entry
		for _, r := range *x.Referrers() {
			if st, ok := r.(*ssa.Store); ok && st.Addr == ssa.Value(x) {
				if l := derivesFromLookup(st.Val, depth+1); l != nil {
					return l
				}
			}
		}
	}
	return nil
}

// identityGuard: the guard compares an entry looked up in a registry with a token that does not come
// from the registry (parameter, captured variable, receiver field).
func identityGuard(g flow.Guard) *ssa.Lookup {
	if bo, ok := g.Cond.(*ssa.BinOp); ok {
		// `a == b` taken, or `a != b` not taken
		if !((bo.Op == token.EQL && g.Side) || (bo.Op == token.NEQ && !g.Side)) {
			return nil
		}
	} else if !g.Side {
		return nil
	}
	switch x := g.Cond.(type) {
	case *ssa.BinOp:
		lx, ly := derivesFromLookup(x.X, 0), derivesFromLookup(x.Y, 0)
		if lx != nil && ly == nil && !flow.IsNilConst(x.Y) {
			if _, isConst := x.Y.(*ssa.Const); !isConst {
				return lx
			}
		}
		if ly != nil && lx == nil && !flow.IsNilConst(x.X) {
			if _, isConst := x.X.(*ssa.Const); !isConst {
				return ly
			}
		}
	case *ssa.Call:
		// entry.Created.Equal(expected)
		if f := flow.StaticCallee(&x.Call); f != nil && f.Name() == "Equal" && len(x.Call.Args) == 2 {
			if l := derivesFromLookup(x.Call.Args[0], 0); l != nil && derivesFromLookup(x.Call.Args[1], 0) == nil {
				return l
			}
		}
	}
	return nil
}

func sameSection(f *ssa.Function, a, b ssa.Instruction) bool {
	for _, s := range flow.Sections(f) {
		ha, hb := false, false
		for _, ins := range s.Instrs {
			if ins == a {
				ha = true
			}
			if ins == b {
				hb = true
			}
		}
		if ha && hb {
			return true
		}
	}
	return false
}

func collectRegistryDeletes(c *Ctx) []registryDelete {
	var out []registryDelete
	sp, err := c.Prog.SSAPkg("proxy")
	if err != nil {
		return nil
	}
	for _, f := range c.Prog.RepoFuncs() {
		if f.Package() != sp {
			continue
		}
		for _, b := range f.Blocks {
			for _, ins := range b.Instrs {
				call, ok := ins.(*ssa.Call)
				if !ok {
					continue
				}
				bi, ok := call.Call.Value.(*ssa.Builtin)
				if !ok || bi.Name() != "delete" {
					continue
				}
				fld := registryFieldOf(call.Call.Args[0])
				if fld == "" {
					continue
				}
				d := registryDelete{fn: f, ins: call, field: fld, why: "no comparison of the stored entry with a caller-supplied identity guards the delete"}
				for _, g := range flow.NormGuards(flow.Guards(b)) {
					l := identityGuard(g)
					if l == nil {
						continue
					}
					if !flow.SameValue(l.Index, call.Call.Args[1]) {
						d.why = "the identity test looks at a different key than the one deleted"
						continue
					}
					if !sameSection(f, l, call) {
						d.why = "lookup/comparison and delete are not inside one critical section: a successor can register in between"
						continue
					}
					d.guarded = true
					d.why = "entry compared with the caller's own identity, in the same critical section as the delete"
				}
				out = append(out, d)
			}
		}
	}
	return out
}

// methodByName resolves an interface call on ShardManager / a call on intraProxyManager to the
// implementation in package proxy.
func proxyMethod(c *Ctx, recvType, name string) *ssa.Function {
	f, err := c.Prog.Func("proxy", "*"+recvType, name)
	if err != nil {
		return nil
	}
	return f
}

func calleeInProxy(c *Ctx, call ssa.CallInstruction) *ssa.Function {
	cc := call.Common()
	if cal := flow.StaticCallee(cc); cal != nil {
		return cal
	}
	if cc.IsInvoke() {
		if flow.NamedIs(cc.Value.Type(), proxyPkg, "ShardManager") {
			return proxyMethod(c, "shardManagerImpl", cc.Method.Name())
		}
	}
	return nil
}

func c08(c *Ctx) (*report.Result, error) {
	res := newResult("C08")
	res.RuleDoc["O8.1"] = "cleanup removes only its own entry: every call made by a stream incarnation's cleanup (deferred calls and post-run statements of the four Run functions and of ensureStream's goroutine) that reaches a delete on a per-shard registry reaches only deletes guarded by a comparison of the stored entry with the incarnation's own identity, inside the critical section of the lookup"
	res.RuleDoc["O8.6"] = "registration bookkeeping cannot wedge itself: inside a critical section of any mutex of the shard manager, the intra-proxy manager or the stream structs no call acquires the same (non-reentrant) mutex again, and these mutexes nest in one order"
	res.RuleDoc["O8.7"] = "no worker outlives its latch: every back-off loop (a cycle through time.Sleep) of package proxy re-checks a shutdown latch / context, or a deadline, on every way round - a retry loop that only looks at the latch in one branch keeps its goroutine alive for ever once the thing it waits for is gone"
	res.RuleDoc["O8.9"] = "registry keys are injective: ClusterShardIDtoShortString, the key of the local-shard table, renders both the cluster id and the shard id, separated by a non-digit - two different shards (1:12 / 11:2, or the same shard number of two clusters) never share an entry"
	res.RuleDoc["O8.10"] = "every registration triggers the watermark replay: RegisterShard calls onLocalShardChange(shard, true) on every path after addLocalShard (only a nil callback is skipped) - the callback is what replays the pending watermark to the newly registered incarnation, also when the predecessor's entry is still there"
	res.RuleDoc["O8.5"] = "identity tokens are fresh per registration: the time RegisterShard hands back is time.Now() of that very call and is what the stored entry carries, on every path (two incarnations can never share a token)"
	res.RuleDoc["O8.2"] = "sends on a closable channel are recover-guarded: every send on a chan RoutedMessage (the only registered channel type its owner closes) lies in a function with a deferred recover()"
	res.RuleDoc["O8.3"] = "successor evicts before it registers: the receiver terminates its predecessor before registering its own channel/cancel/receiver; the sender registers its delivery channel before announcing ownership"
	res.RuleDoc["O8.4"] = "every registration has a cleanup on all exits: each Set*/Register* call of a Run function is followed by a deferred removal before anything can return"

	dels := collectRegistryDeletes(c)
	unguardedIn := map[*ssa.Function][]registryDelete{}
	for _, d := range dels {
		if !d.guarded {
			unguardedIn[d.fn] = append(unguardedIn[d.fn], d)
		}
	}
	// transitive: which functions reach an unguarded registry delete through static calls in package proxy
	memo := map[*ssa.Function][]string{}
	var reachUnguarded func(f *ssa.Function, depth int) []string
	reachUnguarded = func(f *ssa.Function, depth int) []string {
		if f == nil || f.Blocks == nil || depth > 4 {
			return nil
		}
		if r, ok := memo[f]; ok {
			return r
		}
		memo[f] = nil
		var out []string
		for _, d := range unguardedIn[f] {
			out = append(out, fmt.Sprintf("%s deletes from %s at %s (%s)", shortFn(f), d.field, instrPos(c.Prog, d.ins), d.why))
		}
		for _, call := range flow.Calls(f) {
			if _, isGo := call.(*ssa.Go); isGo {
				continue
			}
			cal := calleeInProxy(c, call)
			if cal == nil || cal.Pkg != f.Pkg {
				continue
			}
			out = append(out, reachUnguarded(cal, depth+1)...)
		}
		for _, a := range f.AnonFuncs {
			// closures that are deferred or called inline
			out = append(out, reachUnguarded(a, depth+1)...)
		}
		memo[f] = out
		return out
	}

	// ---- O8.1 incarnation cleanups
	type runFn struct {
		a    anchor
		name string
	}
	runs := []runFn{
		{anchor{"proxy", "*proxyStreamSender", "Run"}, "(*proxyStreamSender).Run"},
		{anchor{"proxy", "*proxyStreamReceiver", "Run"}, "(*proxyStreamReceiver).Run"},
		{anchor{"proxy", "*intraProxyStreamSender", "Run"}, "(*intraProxyStreamSender).Run"},
		{anchor{"proxy", "*intraProxyStreamReceiver", "Run"}, "(*intraProxyStreamReceiver).Run"},
	}
	var cleanupFns []struct {
		f    *ssa.Function
		name string
	}
	for _, r := range runs {
		if f := resolve(c, res, "O8.1", r.a); f != nil {
			cleanupFns = append(cleanupFns, struct {
				f    *ssa.Function
				name string
			}{f, r.name})
		}
	}
	if es := resolve(c, res, "O8.1", anchor{"proxy", "*intraProxyManager", "ensureStream"}); es != nil {
		for _, a := range es.AnonFuncs {
			cleanupFns = append(cleanupFns, struct {
				f    *ssa.Function
				name string
			}{a, "ensureStream goroutine"})
		}
	}
	nSites := 0
	for _, cf := range cleanupFns {
		fns := append([]*ssa.Function{cf.f}, flow.AnonFuncsDeep(cf.f)...)
		if cf.name == "ensureStream goroutine" {
			fns = []*ssa.Function{cf.f}
		}
		seen := map[string]bool{}
		for _, f := range fns {
			// direct deletes
			for _, d := range dels {
				if d.fn != f {
					continue
				}
				nSites++
				construct := fmt.Sprintf("%s -> delete(%s)", cf.name, d.field)
				if seen[construct] {
					continue
				}
				seen[construct] = true
				res.Check(d.guarded, "O8.1", construct, instrPos(c.Prog, d.ins), d.why, "an old incarnation's cleanup deletes whatever is registered under its key - including its successor's entry: "+d.why)
			}
			for _, call := range flow.Calls(f) {
				if _, isGo := call.(*ssa.Go); isGo {
					continue
				}
				cal := calleeInProxy(c, call)
				if cal == nil || cal.Pkg != cf.f.Pkg || cal == cf.f {
					continue
				}
				if _, isEvict := evictionClass[cal.Name()]; isEvict {
					continue
				}
				if cal.Parent() != nil {
					continue // the function's own closures are walked as part of it
				}
				isRun := false
				for _, other := range cleanupFns {
					if other.f == cal {
						isRun = true
					}
				}
				if isRun {
					continue // analysed as an incarnation of its own
				}
				// only registry-related callees are obligations
				reaches := reachUnguarded(cal, 0)
				touches := len(reaches) > 0 || touchesRegistry(c, cal, dels, 0)
				if !touches {
					continue
				}
				nSites++
				construct := fmt.Sprintf("%s -> %s", cf.name, cal.Name())
				if seen[construct] {
					continue
				}
				seen[construct] = true
				if len(reaches) == 0 {
					res.Hold("O8.1", construct, instrPos(c.Prog, call), "every registry delete reached is identity-guarded inside one critical section")
				} else {
					sort.Strings(reaches)
					res.Viol("O8.1", construct, instrPos(c.Prog, call), "an old incarnation's cleanup can remove its successor's registration: the call reaches an unconditional (or not atomically guarded) delete on a per-shard registry", reaches...)
				}
			}
		}
	}
	if nSites < 6 {
		res.Undec("O8.1", "cleanup call sites", "", fmt.Sprintf("%d cleanup sites touching a registry found, at least 8 confirmed by hand", nSites))
	}
	// evictions are listed for the record
	var ev []string
	for _, d := range dels {
		if _, ok := evictionClass[d.fn.Name()]; ok {
			ev = append(ev, shortFn(d.fn)+": "+d.field)
		}
	}
	sort.Strings(ev)
	res.Analysed["eviction_class_deletes"] = ev
	res.Analysed["registry_deletes"] = len(dels)

	checkFreshTokens(c, res, "O8.5")
	checkClosableSends(c, res)
	checkRegistrationOrder(c, res)
	checkRegistrationCleanup(c, res)

	res.Explanation = "Who-may-delete analysis over every delete on the per-shard routing registries of package proxy (localShards, remoteSendChannels, localAckChannels, localReceiverCancelFuncs, activeReceivers, peerState.senders/receivers/recvShutdown): each delete is classified as identity-guarded (stored entry compared with a caller-supplied token, lookup + comparison + delete inside one critical section - P-CS + P-DOM) or unconditional; every call made by a stream incarnation's own cleanup must reach guarded deletes only (evictions by a successor or by the manager are an enumerated, separate class). Every send on the one registered channel type that its owner closes must be covered by a deferred recover. Registration order and registration/cleanup pairing are checked by dominance. Decides that no cleanup can remove a successor's entry and no send can crash the process; does not decide quiescent emptiness of the registries under all interleavings."
	res.Assumptions = []string{"a send on a closed channel panics (also inside select)", "channel, pointer and time.Time identity distinguish incarnations"}
	if sp, err := c.Prog.SSAPkg("proxy"); err == nil {
		n := checkReentrancy(c, res, "O8.6", []*ssa.Package{sp}, func(key string) bool {
			return !strings.HasPrefix(key, "ReplicationStreamObserver.") && !strings.HasPrefix(key, "StreamTracker.")
		})
		res.Analysed["reentrancy_sections"] = n
		if n < 20 {
			res.Undec("O8.6", "critical sections of package proxy", "", fmt.Sprintf("%d sections found", n))
		}
	}
	checkBackoffLoops(c, res, "O8.7")
	res.RuleDoc["O8.8"] = "no blocking operation under the registries' locks: inside the critical sections of package proxy's mutexes (shard manager, intra-proxy manager, streams) the only potentially blocking operations are the reviewed ones - memberlist API calls under mlMutex, whose purpose is to serialise them, and closing a peer connection that is being replaced; channel operations, stream I/O, sleeps, waits and calls through function values (callbacks) happen outside the locks"
	if spx, err := c.Prog.SSAPkg("proxy"); err == nil {
		checkNoBlockingUnderLock(c, res, "O8.8", []*ssa.Package{spx}, func(owner, field string) bool {
			return owner != "ReplicationStreamObserver" && owner != "StreamTracker"
		}, proxyLockAllowed)
	}
	checkShardKeyFunction(c, res, "O8.9")
	checkRegistrationNotifies(c, res, "O8.10")
	res.RuleDoc["O8.12"] = "lock discipline of the registries: every access of the shard manager's registry maps (localShards, activeReceivers, remoteSendChannels, localAckChannels, localReceiverCancelFuncs, remoteNodeStates) and of the intra-proxy manager's peer table - the load of the field and every lookup, update, delete, range step and len on the loaded map - is made while the paired mutex is held, writes under the write lock"
	checkGuardedFields(c, res, "O8.12", "proxy", 60)
	res.RuleDoc["O8.13"] = "locks of the registries are paired: in package proxy every Lock / RLock is released on every way out of the function (Unlock on the path or a deferred one) and every Unlock releases a lock the function took"
	checkLockPairing(c, res, "O8.13", []string{"proxy"}, 80)
	res.RuleDoc["O8.14"] = "the registry accessors do what the incarnations rely on: every Set / Register accessor of the shard manager stores its value parameter under its key parameter on every path, every Remove / Unregister contains the delete of its key parameter (when it may run is O8.1), and the four callback setters install the handler they are given"
	checkRegistryAccessors(c, res, "O8.14")
	res.RuleDoc["O8.15"] = "no handler is parked and none cleans up under running workers: for every local sync.WaitGroup of package proxy's stream files the Add count equals the number of goroutines started with it, each calls Done from an entry-block defer, none is called synchronously, and no return after the last `go` avoids Wait (proxyStreamSender.Run, which does not wait by design, is the reviewed exception) - otherwise the handler is parked for ever or cleans up under running workers"
	checkWaitGroups(c, res, "O8.15", []string{"proxy/proxy_streams.go", "proxy/admin_stream_transfer.go", "proxy/intra_proxy_router.go"}, 4)
	res.RuleDoc["O8.16"] = "a routed receiver leaves no stream behind: the context on which proxyStreamReceiver.Run opens its stream is cancelled by a defer registered before any return"
	for _, a := range []anchor{{"proxy", "*proxyStreamReceiver", "Run"}} {
		if g := resolve(c, res, "O8.16", a); g != nil {
			checkDeferredCancel(c, res, "O8.16", g)
		}
	}
	res.RuleDoc["O8.17"] = "each stream half registers under its own shard: the sender's delivery channel and ownership claim under its targetShardID, the receiver's ack channel, cancel function and active-receiver entry under its sourceShardID, the intra-proxy sender under (target, source) in that order - each site uses the named field of the function's own receiver"
	checkShardIDRoles(c, res, "O8.17", func(kind, callee string) bool {
		return kind == "call" && callee != "DeliverAckToShardOwner" && callee != "GetRemoteSendChan"
	})
	res.RuleDoc["O8.20"] = "a re-established stream survives its predecessor's cleanup in the tracker too: in stream_tracker.go every field access through a *StreamInfo taken from the `streams` table (directly or through a helper of the file) follows the lookup's comma-ok flag or a nil test of that pointer - incarnations share a tracker id and UnregisterStream is unconditional, so an update of the live incarnation can find no entry, and a nil dereference on a worker goroutine ends the process"
	checkTrackerEntriesTested(c, res, "O8.20", 5)
	res.RuleDoc["O8.19"] = "nothing is sent through a receiver whose stream is not open: intraProxyManager.sendAck reaches the looked-up receiver's sendAck only on the side of `r.streamClient != nil` (or that method tests the field itself) - a receiver is registered before its stream is open, and a Send on the nil interface panics in the sender's ack goroutine, which nothing recovers"
	checkStreamClientNilGuard(c, res, "O8.19")
	res.RuleDoc["O8.18"] = "nothing is sent to a dead incarnation: the channel operand of every send that can hold a result of GetRemoteSendChan / GetLocalAckChan is the result of the lookup made for this very hand-over (no loop-carried variable, no variable assigned more than once, no lookup hoisted out of the loop) - the registry entry is replaced when a newer incarnation registers while the older channel stays open and buffered until its owner has wound down"
	checkRegistryChanFresh(c, res, "O8.18", 4)
	res.RuleDoc["O8.11"] = "no swallowed error in the files the mechanism lives in: no function returns a nil error on a path on which an error obtained from a call is known to be non-nil (io.EOF from a stream Recv, the normal end of a receive loop, is the one accepted idiom)"
	checkNoSwallowedErrors(c, res, "O8.11", []string{"proxy/proxy_streams.go", "proxy/intra_proxy_router.go", "proxy/shard_manager.go"})
	return res, nil
}

func touchesRegistry(c *Ctx, f *ssa.Function, dels []registryDelete, depth int) bool {
	if f == nil || f.Blocks == nil || depth > 3 {
		return false
	}
	for _, d := range dels {
		if d.fn == f {
			return true
		}
	}
	for _, call := range flow.Calls(f) {
		if cal := calleeInProxy(c, call); cal != nil && cal.Pkg == f.Pkg && cal != f {
			if touchesRegistry(c, cal, dels, depth+1) {
				return true
			}
		}
	}
	return false
}

func hasDeferredRecover(f *ssa.Function, before ssa.Instruction) bool {
	for _, d := range flow.Defers(f) {
		if !flow.DeferCovers(d, before) {
			continue
		}
		fn := flow.StaticCallee(&d.Call)
		if fn == nil {
			continue
		}
		for _, call := range flow.Calls(fn) {
			if bi, ok := call.Common().Value.(*ssa.Builtin); ok && bi.Name() == "recover" {
				return true
			}
		}
	}
	return false
}

func checkClosableSends(c *Ctx, res *report.Result) {
	rule := "O8.2"
	sp, err := c.Prog.SSAPkg("proxy")
	if err != nil {
		res.Undec(rule, "proxy package", "", err.Error())
		return
	}
	// channel element types that are closed by someone and stored in a registry
	closable := map[string]bool{}
	for _, f := range c.Prog.RepoFuncs() {
		if f.Package() != sp {
			continue
		}
		for _, call := range flow.Calls(f) {
			if bi, ok := call.Common().Value.(*ssa.Builtin); ok && bi.Name() == "close" {
				if ch, ok := types.Unalias(call.Common().Args[0].Type()).Underlying().(*types.Chan); ok {
					if n, ok := types.Unalias(ch.Elem()).(*types.Named); ok && (n.Obj().Name() == "RoutedMessage" || n.Obj().Name() == "RoutedAck") {
						closable[n.Obj().Name()] = true
					}
				}
			}
		}
	}
	if !closable["RoutedMessage"] {
		res.Hold(rule, "no registered channel type is ever closed", "", "nothing to guard")
		return
	}
	isClosable := func(t types.Type) bool {
		ch, ok := types.Unalias(t).Underlying().(*types.Chan)
		if !ok {
			return false
		}
		n, ok := types.Unalias(ch.Elem()).(*types.Named)
		return ok && closable[n.Obj().Name()]
	}
	n := 0
	for _, f := range c.Prog.RepoFuncs() {
		if f.Package() != sp {
			continue
		}
		for _, b := range f.Blocks {
			for _, ins := range b.Instrs {
				var chv ssa.Value
				switch x := ins.(type) {
				case *ssa.Send:
					chv = x.Chan
				case *ssa.Select:
					for _, st := range x.States {
						if st.Dir == types.SendOnly && isClosable(st.Chan.Type()) {
							chv = st.Chan
						}
					}
				}
				if chv == nil || !isClosable(chv.Type()) {
					continue
				}
				// the owner's own send side (none today) would be a send on its own field after close; every
				// other send is on a channel obtained from the registry
				n++
				owner := f
				for owner.Parent() != nil && !hasDeferredRecover(owner, ins) {
					break
				}
				construct := shortFn(f) + ": send on " + types.TypeString(chv.Type(), func(p *types.Package) string { return p.Name() })
				res.Check(hasDeferredRecover(f, ins), rule, construct, instrPos(c.Prog, ins), "covered by a deferred recover()", "a send on a registered channel that its owner closes when the stream ends is not covered by recover(): if the owner has closed it (it stays registered until the owner's deferred removal runs) the send panics in a goroutine without recovery and the process crashes")
			}
		}
	}
	if n < 3 {
		res.Undec(rule, "sends on registered closable channels", "", fmt.Sprintf("%d send sites found, 5 confirmed by hand", n))
	}
}

func callIdx(f *ssa.Function, pred func(*ssa.CallCommon) bool) []ssa.CallInstruction {
	return flow.FindCalls(f, pred)
}

func invokeNamed(name string) func(*ssa.CallCommon) bool {
	return func(cc *ssa.CallCommon) bool {
		if cc.IsInvoke() {
			return cc.Method.Name() == name
		}
		f := flow.StaticCallee(cc)
		return f != nil && f.Name() == name && f.Signature.Recv() != nil
	}
}

func checkRegistrationOrder(c *Ctx, res *report.Result) {
	rule := "O8.3"
	if f := resolve(c, res, rule, anchor{"proxy", "*proxyStreamReceiver", "Run"}); f != nil {
		term := callIdx(f, invokeNamed("TerminatePreviousLocalReceiver"))
		if len(term) == 0 {
			res.Viol(rule, "(*proxyStreamReceiver).Run: predecessor terminated", fnPos(c.Prog, f), "a new receiver does not terminate the previous incarnation for its shard")
		} else {
			for _, reg := range []string{"SetLocalAckChan", "SetLocalReceiverCancelFunc", "RegisterActiveReceiver"} {
				for _, call := range callIdx(f, invokeNamed(reg)) {
					// every path to the registration passes the eviction (paths on which there is no
					// shard manager at all are irrelevant: nothing is registered there either)
					r := flow.FindPath(flow.Point{Block: f.Blocks[0]}, func(x ssa.Instruction) bool { return x == ssa.Instruction(call) },
						func(x ssa.Instruction) bool { return x == ssa.Instruction(term[0]) },
						func(a, b *ssa.BasicBlock) bool { return !hasClass(edgeClasses(a, b), "nil", "shardManager", true) })
					res.Check(!r.Found, rule, "(*proxyStreamReceiver).Run: TerminatePreviousLocalReceiver before "+reg, instrPos(c.Prog, call), "eviction dominates registration", "the new receiver registers before evicting its predecessor: the eviction would remove the new entry")
				}
			}
			// the eviction concerns this receiver's own source shard
			p, _ := flow.FieldPath(term[0].Common().Args[0])
			res.Check(strings.HasSuffix(p, ".sourceShardID"), rule, "(*proxyStreamReceiver).Run: eviction targets its own source shard", instrPos(c.Prog, term[0]), p, "the eviction is keyed by "+p)
		}
	}
	if f := resolve(c, res, rule, anchor{"proxy", "*proxyStreamSender", "Run"}); f != nil {
		set := callIdx(f, invokeNamed("SetRemoteSendChan"))
		reg := callIdx(f, invokeNamed("RegisterShard"))
		ok := len(set) == 1 && len(reg) == 1 && flow.InstrDominates(set[0], reg[0])
		res.Check(ok, rule, "(*proxyStreamSender).Run: SetRemoteSendChan before RegisterShard", fnPos(c.Prog, f), "the watermark replay triggered by registration finds the new channel", "ownership is announced before the delivery channel is registered: the replay to the late-registering target finds no (or the old) channel")
		if len(set) == 1 {
			// registers the channel it will later close and read from
			v := flow.ResolveLoad(set[0].Common().Args[1])
			_, fld, okf := flow.FieldLoadOf(v)
			mk := false
			if !okf {
				_, mk = v.(*ssa.MakeChan)
			}
			res.Check((okf && fld == "sendMsgChan") || mk, rule, "(*proxyStreamSender).Run: registers its own sendMsgChan", instrPos(c.Prog, set[0]), "ok", "the registered channel is not the sender's own")
		}
	}
}

func checkRegistrationCleanup(c *Ctx, res *report.Result) {
	rule := "O8.4"
	pairs := []struct {
		a        anchor
		reg, rem string
	}{
		{anchor{"proxy", "*proxyStreamSender", "Run"}, "SetRemoteSendChan", "RemoveRemoteSendChan"},
		{anchor{"proxy", "*proxyStreamSender", "Run"}, "RegisterShard", "UnregisterShard"},
		{anchor{"proxy", "*proxyStreamReceiver", "Run"}, "SetLocalAckChan", "RemoveLocalAckChan"},
		{anchor{"proxy", "*proxyStreamReceiver", "Run"}, "SetLocalReceiverCancelFunc", "RemoveLocalReceiverCancelFunc"},
		{anchor{"proxy", "*proxyStreamReceiver", "Run"}, "RegisterActiveReceiver", "UnregisterActiveReceiver"},
		{anchor{"proxy", "*intraProxyStreamSender", "Run"}, "RegisterSender", "UnregisterSender"},
		{anchor{"proxy", "*intraProxyStreamReceiver", "Run"}, "RegisterActiveReceiver", "UnregisterActiveReceiver"},
	}
	for _, p := range pairs {
		f, err := c.Prog.Func(p.a.rel, p.a.recv, p.a.name)
		if err != nil || f == nil {
			res.Undec(rule, p.a.String(), "", "anchor does not resolve")
			continue
		}
		regs := callIdx(f, invokeNamed(p.reg))
		if len(regs) == 0 {
			res.Undec(rule, fmt.Sprintf("%s: %s", shortFn(f), p.reg), fnPos(c.Prog, f), "registration call not found")
			continue
		}
		for _, rg := range regs {
			// a defer (direct or closure) that calls the removal
			var def *ssa.Defer
			for _, d := range flow.Defers(f) {
				if invokeNamed(p.rem)(&d.Call) {
					def = d
				}
				if fn := flow.StaticCallee(&d.Call); fn != nil && fn.Blocks != nil && len(flow.FindCalls(fn, invokeNamed(p.rem))) > 0 {
					def = d
				}
			}
			construct := fmt.Sprintf("%s: %s is undone by a deferred %s on all exits", shortFn(f), p.reg, p.rem)
			if def == nil {
				res.Viol(rule, construct, instrPos(c.Prog, rg), "no deferred "+p.rem+": the registration outlives the stream")
				continue
			}
			r := flow.FindPath(flow.After(rg), func(x ssa.Instruction) bool { return flow.IsReturn(x) || flow.IsPanic(x) }, func(x ssa.Instruction) bool { return x == ssa.Instruction(def) }, nil)
			res.Check(!r.Found, rule, construct, instrPos(c.Prog, rg), "the defer is registered before any exit", "an exit is reachable after the registration before the cleanup is deferred")
		}
	}
}

// checkFreshTokens: the registration time that UnregisterShard later compares is unique per call.
func checkFreshTokens(c *Ctx, res *report.Result, rule string) {
	f := resolve(c, res, rule, anchor{"proxy", "*shardManagerImpl", "addLocalShard"})
	if f == nil {
		return
	}
	var now *ssa.Call
	for _, call := range flow.Calls(f) {
		if flow.IsCallTo(call.Common(), "time", "", "Now") {
			now, _ = call.(*ssa.Call)
		}
	}
	if !res.Check(now != nil, rule, "addLocalShard: takes a fresh time stamp", fnPos(c.Prog, f), "time.Now()", "the registration is not stamped with the current time") {
		return
	}
	// every return hands back that stamp
	okRet := true
	for _, b := range f.Blocks {
		if b == f.Recover {
			continue
		}
		for _, ins := range b.Instrs {
			if ret, ok := ins.(*ssa.Return); ok {
				if flow.Ret(ret)[0] != ssa.Value(now) {
					okRet = false
				}
			}
		}
	}
	res.Check(okRet, rule, "addLocalShard: every return hands back this call's own time stamp", fnPos(c.Prog, f), "return now", "a registration can hand back a time stamp that is not its own (e.g. the existing entry's): the old and the new incarnation then share one identity and the old one's UnregisterShard removes the new registration")
	// the stored entry carries it, on every path
	var upd *ssa.MapUpdate
	for _, b := range f.Blocks {
		for _, ins := range b.Instrs {
			if mu, ok := ins.(*ssa.MapUpdate); ok {
				if _, fld, okf := flow.FieldLoadOf(mu.Map); okf && fld == "localShards" {
					upd = mu
				}
			}
		}
	}
	okStore := false
	if upd != nil {
		if v := flow.StructValueField(upd.Value, "Created", 0); v == ssa.Value(now) {
			okStore = true
		}
		r := flow.FindPath(flow.Point{Block: f.Blocks[0]}, flow.IsReturn, func(x ssa.Instruction) bool { return x == ssa.Instruction(upd) }, nil)
		if r.Found {
			okStore = false
		}
	}
	res.Check(okStore, rule, "addLocalShard: the stored entry carries that time stamp on every path", fnPos(c.Prog, f), "localShards[key] = ShardInfo{Created: now}", "the entry is not (always) re-stamped: UnregisterShard's timestamp guard cannot tell incarnations apart")
	// RegisterShard returns addLocalShard's result
	if g := resolve(c, res, rule, anchor{"proxy", "*shardManagerImpl", "RegisterShard"}); g != nil {
		ok := false
		for _, b := range g.Blocks {
			for _, ins := range b.Instrs {
				if ret, isR := ins.(*ssa.Return); isR {
					if call, isC := flow.Ret(ret)[0].(*ssa.Call); isC && flow.IsCallTo(&call.Call, proxyPkg, "shardManagerImpl", "addLocalShard") {
						ok = true
					}
				}
			}
		}
		res.Check(ok, rule, "RegisterShard returns the stamp of the entry it stored", fnPos(c.Prog, g), "ok", "the caller's token is not the stored entry's time stamp")
	}
}

// checkBackoffLoops: for each time.Sleep call that lies on a CFG cycle, every cyclic path from the sleep back to
// itself passes a latch / context / deadline test.
func checkBackoffLoops(c *Ctx, res *report.Result, rule string) {
	sp, err := c.Prog.SSAPkg("proxy")
	if err != nil {
		res.Undec(rule, "proxy package", "", err.Error())
		return
	}
	isCheck := func(x ssa.Instruction) bool {
		switch y := x.(type) {
		case *ssa.Select:
			for _, st := range y.States {
				if st.Dir == types.RecvOnly {
					return true
				}
			}
		case *ssa.UnOp:
			if y.Op == token.ARROW {
				return true // a blocking receive (timer, done channel)
			}
		case ssa.CallInstruction:
			cc := y.Common()
			if cc.IsInvoke() {
				switch cc.Method.Name() {
				case "IsShutdown", "Err", "Done":
					return true
				}
				return false
			}
			if cal := flow.StaticCallee(cc); cal != nil {
				switch cal.String() {
				case "(time.Time).After", "(time.Time).Before", "time.Until", "time.Since":
					return true
				}
				if cal.Name() == "IsShutdown" {
					return true
				}
			}
		}
		return false
	}
	n := 0
	for _, f := range c.Prog.RepoFuncs() {
		if f.Package() != sp || !isShippedFunc(f) {
			continue
		}
		for _, call := range flow.Calls(f) {
			if !flow.IsCallTo(call.Common(), "time", "", "Sleep") {
				continue
			}
			self := func(x ssa.Instruction) bool { return x == ssa.Instruction(call) }
			// on a cycle at all?
			if r0 := flow.FindPath(flow.After(call), self, func(ssa.Instruction) bool { return false }, nil); !r0.Found {
				continue
			}
			n++
			r := flow.FindPath(flow.After(call), self, isCheck, nil)
			res.Check(!r.Found, rule, shortFn(f)+": back-off loop re-checks its latch", instrPos(c.Prog, call), "every way round the loop passes a latch, context or deadline test", "the loop can go round (path "+flow.BlockPath(r.Via)+") without looking at any shutdown latch, context or deadline: once the awaited channel/owner is gone for good the goroutine sleeps and retries for ever, also after its stream has been shut down")
		}
	}
	if n < 4 {
		res.Undec(rule, "back-off loops of package proxy", "", fmt.Sprintf("%d found, 5 confirmed by hand", n))
	}
	res.Analysed["backoff_loops"] = n
}

// proxyLockAllowed: reviewed blocking operations under package proxy's locks.
var proxyLockAllowed = map[string]string{
	"(*proxy.intraProxyManager).ensurePeer [streamsMu]: call (*google.golang.org/grpc.ClientConn).Close":                          "the replaced peer connection is closed while the peer table is locked; ClientConn.Close does not wait for RPCs",
	"(*proxy.shardEventDelegate).NotifyLeave [mlMutex]: call (*github.com/hashicorp/memberlist.Memberlist).NumMembers":            "mlMutex exists to serialise memberlist API calls; NumMembers reads local state",
	"(*proxy.shardManagerImpl).RegisterShard$1 [mlMutex]: call (*github.com/hashicorp/memberlist.Memberlist).UpdateNode":          "mlMutex exists to serialise memberlist API calls; runs in its own goroutine",
	"(*proxy.shardManagerImpl).UnregisterShard$1 [mlMutex]: call (*github.com/hashicorp/memberlist.Memberlist).UpdateNode":        "mlMutex exists to serialise memberlist API calls; runs in its own goroutine",
	"(*proxy.shardManagerImpl).broadcastShardChange$1 [mlMutex]: call (*github.com/hashicorp/memberlist.Memberlist).Members":      "mlMutex exists to serialise memberlist API calls; runs in its own goroutine",
	"(*proxy.shardManagerImpl).broadcastShardChange$1 [mlMutex]: call (*github.com/hashicorp/memberlist.Memberlist).SendReliable": "mlMutex exists to serialise memberlist API calls; runs in its own goroutine",
	"(*proxy.shardManagerImpl).retryJoinCluster [mlMutex]: call (*github.com/hashicorp/memberlist.Memberlist).Join":               "mlMutex exists to serialise memberlist API calls",
	"(*proxy.shardManagerImpl).shutdownMemberlist [mlMutex]: call (*github.com/hashicorp/memberlist.Memberlist).Leave":            "mlMutex exists to serialise memberlist API calls (shutdown)",
	"(*proxy.shardManagerImpl).shutdownMemberlist [mlMutex]: call (*github.com/hashicorp/memberlist.Memberlist).Shutdown":         "mlMutex exists to serialise memberlist API calls (shutdown)",
}

// checkShardKeyFunction: see O8.9 (also filed under C09 as O9.7).
func checkShardKeyFunction(c *Ctx, res *report.Result, rule string) {
	f := resolve(c, res, rule, anchor{"proxy", "", "ClusterShardIDtoShortString"})
	if f == nil {
		return
	}
	ok := false
	why := "no fmt.Sprintf of both ids found"
	for _, call := range flow.Calls(f) {
		cc := call.Common()
		if !flow.IsCallTo(cc, "fmt", "", "Sprintf") || len(cc.Args) != 2 {
			continue
		}
		format, isS := flow.ConstString(cc.Args[0])
		if !isS {
			why = "non-constant format"
			continue
		}
		var fields []string
		for _, alt := range flow.SliceSeqs(cc.Args[1]) {
			fields = fields[:0]
			for _, e := range alt.Elems {
				p, _ := flow.FieldPath(flow.Strip(e))
				fields = append(fields, p)
			}
		}
		hasC, hasS := false, false
		for _, p := range fields {
			if strings.HasSuffix(p, ".ClusterID") {
				hasC = true
			}
			if strings.HasSuffix(p, ".ShardID") {
				hasS = true
			}
		}
		sepOK := regexp.MustCompile(`^%d[^%0-9]+%d$`).MatchString(format)
		switch {
		case !hasC || !hasS:
			why = fmt.Sprintf("the key is built from %v: it does not contain both the cluster id and the shard id", fields)
		case !sepOK:
			why = fmt.Sprintf("format %q does not separate the two ids by a non-digit: distinct shards can render to the same key", format)
		default:
			ok = true
		}
	}
	res.Check(ok, rule, "ClusterShardIDtoShortString renders cluster id and shard id unambiguously", fnPos(c.Prog, f), "%d<sep>%d of ClusterID, ShardID", why)
}

// checkRegistrationNotifies: see O8.10.
func checkRegistrationNotifies(c *Ctx, res *report.Result, rule string) {
	f := resolve(c, res, rule, anchor{"proxy", "*shardManagerImpl", "RegisterShard"})
	if f == nil {
		return
	}
	adds := flow.FindCalls(f, func(cc *ssa.CallCommon) bool { return flow.IsCallTo(cc, proxyPkg, "shardManagerImpl", "addLocalShard") })
	if len(adds) != 1 {
		res.Undec(rule, "RegisterShard: addLocalShard call", fnPos(c.Prog, f), fmt.Sprintf("%d calls", len(adds)))
		return
	}
	isNotify := func(x ssa.Instruction) bool {
		call, ok := x.(ssa.CallInstruction)
		if !ok {
			return false
		}
		cc := call.Common()
		if cc.IsInvoke() || flow.StaticCallee(cc) != nil {
			return false
		}
		_, fld, okf := flow.FieldLoadOf(flow.ResolveLoad(cc.Value))
		if !okf || fld != "onLocalShardChange" || len(cc.Args) != 2 {
			return false
		}
		v, isC := flow.ConstBool(cc.Args[1])
		return isC && v
	}
	nilCallback := func(a, b *ssa.BasicBlock) bool {
		for _, g := range flow.EdgeGuards(a, b) {
			if g.Cond == nil {
				continue
			}
			k := classifyCond(g.Cond, g.Side)
			if k.kind == "nil" && k.arg == "onLocalShardChange" && k.truth {
				return true
			}
		}
		return false
	}
	r := flow.FindPath(flow.After(adds[0]), flow.IsReturn, isNotify, func(a, b *ssa.BasicBlock) bool {
		iff := lastIfOf(a)
		if iff == nil {
			return true
		}
		return !nilCallback(a, b)
	})
	res.Check(!r.Found, rule, "RegisterShard: every registration notifies onLocalShardChange(shard, true)", instrPos(c.Prog, adds[0]), "no path from addLocalShard to a return skips the callback (except a nil callback)", "a registration can complete without notifying the listeners (path "+flow.BlockPath(r.Via)+"): the pending watermark is not replayed to the stream that has just registered - e.g. a reconnect while the predecessor's entry is still present - so an idle target never learns the source's progress")
}
