package rules

import (
	"encoding/json"
	"fmt"
	"os"
	"path/filepath"
	"regexp"
	"sort"
	"strings"
)

// Seeded changes written by independent sub-agents (see /verif/seeded/*/meta.json) are replayed by the
// thorough tier as additional variants: the patch is applied in memory to the current tree and the
// rule recorded in meta.json "detected_by" must report it. A patch that no longer applies is skipped.

type filePatch struct {
	file  string
	hunks []hunk
}

type hunk struct {
	oldStart int
	old, new []string
}

func parseUnifiedDiff(text string) []filePatch {
	var out []filePatch
	var cur *filePatch
	var h *hunk
	hdr := regexp.MustCompile(`^@@ -(\d+)(?:,\d+)? \+\d+(?:,\d+)? @@`)
	for _, line := range strings.Split(text, "\n") {
		switch {
		case strings.HasPrefix(line, "diff --git "):
			cur, h = nil, nil
		case strings.HasPrefix(line, "--- "):
			// wait for +++
		case strings.HasPrefix(line, "+++ "):
			name := strings.TrimPrefix(strings.TrimPrefix(line, "+++ "), "b/")
			out = append(out, filePatch{file: name})
			cur = &out[len(out)-1]
			h = nil
		case hdr.MatchString(line) && cur != nil:
			m := hdr.FindStringSubmatch(line)
			n := 0
			fmt.Sscanf(m[1], "%d", &n)
			cur.hunks = append(cur.hunks, hunk{oldStart: n})
			h = &cur.hunks[len(cur.hunks)-1]
		case h != nil && strings.HasPrefix(line, " "):
			h.old = append(h.old, line[1:])
			h.new = append(h.new, line[1:])
		case h != nil && strings.HasPrefix(line, "-"):
			h.old = append(h.old, line[1:])
		case h != nil && strings.HasPrefix(line, "+"):
			h.new = append(h.new, line[1:])
		case h != nil && line == "":
			// blank context line whose leading space was stripped, or end of file
			h.old = append(h.old, "")
			h.new = append(h.new, "")
		}
	}
	return out
}

func matchAt(lines, block []string, at int) bool {
	if at < 0 || at+len(block) > len(lines) {
		return false
	}
	for i, b := range block {
		if lines[at+i] != b {
			return false
		}
	}
	return true
}

// applyHunks applies the hunks to src; ok=false when a hunk's old block is not found exactly once
// (at the recorded position, or anywhere).
func applyHunks(src string, hs []hunk) (string, bool) {
	lines := strings.Split(src, "\n")
	shift := 0
	for _, h := range hs {
		old := h.old
		nw := h.new
		// trailing blank produced by the final newline of the diff text
		for len(old) > 0 && len(nw) > 0 && old[len(old)-1] == "" && nw[len(nw)-1] == "" && !matchAt(lines, old, h.oldStart-1+shift) {
			old, nw = old[:len(old)-1], nw[:len(nw)-1]
		}
		at := h.oldStart - 1 + shift
		if !matchAt(lines, old, at) {
			found := -1
			for i := 0; i+len(old) <= len(lines); i++ {
				if matchAt(lines, old, i) {
					if found >= 0 {
						return "", false
					}
					found = i
				}
			}
			if found < 0 {
				return "", false
			}
			at = found
		}
		res := append([]string{}, lines[:at]...)
		res = append(res, nw...)
		res = append(res, lines[at+len(old):]...)
		lines = res
		shift += len(nw) - len(old)
	}
	return strings.Join(lines, "\n"), true
}

var detRe = regexp.MustCompile(`(C\d\d)(?: quick)?: ?(O[0-9]+\.[0-9]+[a-z]?)`)

// SeededVariants reads /verif/seeded and returns, for prop, one patch variant per seeded change whose
// meta.json names a rule of prop in "detected_by".
func SeededVariants(verif, prop string) []Variant {
	dirs, _ := filepath.Glob(filepath.Join(verif, "seeded", "*", "meta.json"))
	sort.Strings(dirs)
	var out []Variant
	for _, mf := range dirs {
		b, err := os.ReadFile(mf)
		if err != nil {
			continue
		}
		var meta struct {
			DetectedBy string `json:"detected_by"`
		}
		if json.Unmarshal(b, &meta) != nil {
			continue
		}
		dir := filepath.Dir(mf)
		for _, m := range detRe.FindAllStringSubmatch(meta.DetectedBy, -1) {
			if m[1] != prop {
				continue
			}
			out = append(out, Variant{Name: "seeded change " + filepath.Base(dir), Property: prop, Expect: m[2], Patch: filepath.Join(dir, "patch.diff"), File: "seeded/" + filepath.Base(dir) + "/patch.diff"})
			break
		}
	}
	return out
}
