package rules

import (
	"fmt"
	"go/token"
	"go/types"
	"sort"
	"strings"

	"golang.org/x/tools/go/ssa"

	"s2scheck/internal/flow"
	"s2scheck/internal/report"
)

// O19.5 - which configured section feeds which role.
//
// GetServerTLSConfig / GetClientTLSConfig turn an encryption.TLSConfig (the user's settings) into a
// tls.Config. O19.1-O19.4 decide that the constructors are strict and that every TLS endpoint is built
// from the constructor of its role; this rule decides the remaining link: the *settings* handed to the
// server constructor are the ones the user wrote for that listener (ClusterDefinition.TcpServer or
// .MuxAddressInfo, or the zero value = TLS off), never the client section, and vice versa.
//
// The origin of the argument is traced backwards through loads, struct fields, parameters (all static
// call sites in shipped code), interface getters (all implementations in the module) and struct fields
// of non-config types (all stores to that field in the module). The trace ends at a field of
// config.ClusterDefinition (label = that field's name), at a zero value, or undecided.

const cfgPkg = modPath + "/config"

type cfgTracer struct {
	c     *Ctx
	seen  map[ssa.Value]bool
	out   map[string]bool
	steps int
}

func (t *cfgTracer) add(l string) { t.out[l] = true }

func derefNamed(tp types.Type) *types.Named {
	tp = types.Unalias(tp)
	if p, ok := tp.Underlying().(*types.Pointer); ok {
		tp = types.Unalias(p.Elem())
	}
	n, _ := tp.(*types.Named)
	return n
}

// fieldSel: v selects field `name` of a struct whose holder value is `base`.
func fieldSel(v ssa.Value) (base ssa.Value, holder *types.Named, name string, ok bool) {
	switch x := v.(type) {
	case *ssa.FieldAddr:
		return x.X, derefNamed(x.X.Type()), flow.FieldName(x.X.Type(), x.Field), true
	case *ssa.Field:
		return x.X, derefNamed(x.X.Type()), flow.FieldName(x.X.Type(), x.Field), true
	}
	return nil, nil, "", false
}

func (t *cfgTracer) trace(v ssa.Value) {
	t.steps++
	if v == nil || t.steps > 400 {
		t.add("?")
		return
	}
	if t.seen[v] {
		return
	}
	t.seen[v] = true
	switch x := v.(type) {
	case *ssa.UnOp:
		if x.Op == token.MUL {
			if r := flow.ResolveLoad(x); r != ssa.Value(x) {
				t.trace(r)
				return
			}
			t.trace(x.X)
			return
		}
	case *ssa.FieldAddr, *ssa.Field:
		base, holder, name, _ := fieldSel(v)
		if holder != nil && holder.Obj().Pkg() != nil && holder.Obj().Pkg().Path() == cfgPkg && holder.Obj().Name() == "ClusterDefinition" {
			t.add(name)
			return
		}
		if holder != nil && holder.Obj().Pkg() != nil && holder.Obj().Pkg().Path() == cfgPkg && holder.Obj().Name() == "TCPTLSInfo" {
			// the section is decided by where the TCPTLSInfo comes from
			t.trace(base)
			return
		}
		if holder != nil {
			// a field of a non-config struct: every store to it in the module
			n := 0
			for _, src := range t.repoFieldStores(holder, name) {
				n++
				t.trace(src)
			}
			if n == 0 {
				t.add("?unstored:" + holder.Obj().Name() + "." + name)
			}
			return
		}
	case *ssa.Alloc:
		// a cell: parameter spill, local variable or composite literal
		n := 0
		fields := 0
		for _, r := range *x.Referrers() {
			switch y := r.(type) {
			case *ssa.Store:
				if y.Addr == ssa.Value(x) {
					n++
					t.trace(y.Val)
				}
			case *ssa.FieldAddr:
				for _, rr := range *y.Referrers() {
					if st, ok := rr.(*ssa.Store); ok && st.Addr == ssa.Value(y) {
						fields++
					}
				}
			}
		}
		if n == 0 {
			if fields == 0 {
				t.add("zero")
			} else {
				t.add("literal")
			}
		}
		return
	case *ssa.Const:
		t.add("zero")
		return
	case *ssa.Parameter:
		f := x.Parent()
		idx := -1
		for i, p := range f.Params {
			if p == x {
				idx = i
			}
		}
		if f.Signature.Recv() != nil && idx == 0 {
			t.add("?receiver")
			return
		}
		n := 0
		for _, g := range t.c.Prog.RepoFuncs() {
			if !isShippedFunc(g) {
				continue
			}
			for _, call := range flow.Calls(g) {
				cc := call.Common()
				if flow.StaticCallee(cc) == f && idx < len(cc.Args) {
					n++
					t.trace(cc.Args[idx])
				}
			}
		}
		if n == 0 {
			t.add("?uncalled:" + f.Name() + "." + x.Name())
		}
		return
	case *ssa.FreeVar:
		if b := freeVarBinding(x); b != nil {
			t.trace(b)
			return
		}
	case *ssa.Phi:
		for _, e := range x.Edges {
			t.trace(e)
		}
		return
	case *ssa.Extract:
		t.trace(x.Tuple)
		return
	case *ssa.ChangeType:
		t.trace(x.X)
		return
	case *ssa.MakeInterface:
		t.trace(x.X)
		return
	case *ssa.Call:
		var callees []*ssa.Function
		if f := flow.StaticCallee(&x.Call); f != nil {
			callees = append(callees, f)
		} else if x.Call.IsInvoke() {
			callees = t.implementations(x.Call.Value.Type(), x.Call.Method)
		}
		if len(callees) == 0 {
			t.add("?call:" + flow.CalleeName(&x.Call))
			return
		}
		for _, f := range callees {
			if len(f.Blocks) == 0 {
				t.add("?extern:" + f.Name())
				continue
			}
			for _, b := range f.Blocks {
				if b == f.Recover {
					continue
				}
				if ret, ok := b.Instrs[len(b.Instrs)-1].(*ssa.Return); ok {
					rs := flow.Ret(ret)
					if len(rs) > 0 {
						t.trace(rs[0])
					}
				}
			}
		}
		return
	}
	t.add("?" + strings.TrimPrefix(strings.TrimPrefix(typeName(v), "*"), "ssa."))
}

func typeName(v ssa.Value) string {
	switch v.(type) {
	case *ssa.Global:
		return "global"
	case *ssa.MakeClosure:
		return "closure"
	case *ssa.Lookup:
		return "maplookup"
	case *ssa.IndexAddr, *ssa.Index:
		return "index"
	case *ssa.TypeAssert:
		return "typeassert"
	}
	return "value"
}

func (t *cfgTracer) repoFieldStores(holder *types.Named, field string) []ssa.Value {
	var out []ssa.Value
	for _, g := range t.c.Prog.RepoFuncs() {
		if !isShippedFunc(g) {
			continue
		}
		for _, b := range g.Blocks {
			for _, ins := range b.Instrs {
				st, ok := ins.(*ssa.Store)
				if !ok {
					continue
				}
				fa, ok := st.Addr.(*ssa.FieldAddr)
				if !ok {
					continue
				}
				if h := derefNamed(fa.X.Type()); h != nil && h.Obj() == holder.Obj() && flow.FieldName(fa.X.Type(), fa.Field) == field {
					out = append(out, st.Val)
				}
			}
		}
	}
	return out
}

// implementations: the module's concrete methods that can be the target of an interface call.
func (t *cfgTracer) implementations(recv types.Type, m *types.Func) []*ssa.Function {
	iface, _ := recv.Underlying().(*types.Interface)
	if iface == nil {
		return nil
	}
	var out []*ssa.Function
	for _, pk := range t.c.Prog.SSAPkgs {
		for _, mem := range pk.Members {
			tn, ok := mem.(*ssa.Type)
			if !ok {
				continue
			}
			for _, tp := range []types.Type{tn.Type(), types.NewPointer(tn.Type())} {
				if _, isI := tp.Underlying().(*types.Interface); isI || !types.Implements(tp, iface) {
					continue
				}
				sel := t.c.Prog.SSA.MethodSets.MethodSet(tp).Lookup(m.Pkg(), m.Name())
				if sel == nil {
					continue
				}
				if f := t.c.Prog.SSA.MethodValue(sel); f != nil && isShippedFunc(f) {
					out = append(out, f)
				}
				break
			}
		}
	}
	return out
}

func cfgSections(c *Ctx, v ssa.Value) []string {
	t := &cfgTracer{c: c, seen: map[ssa.Value]bool{}, out: map[string]bool{}}
	t.trace(v)
	var out []string
	for k := range t.out {
		out = append(out, k)
	}
	sort.Strings(out)
	return out
}

func checkTLSSettingsRole(c *Ctx, res *report.Result) {
	rule := "O19.5"
	allowed := map[string]map[string]bool{
		"GetServerTLSConfig": {"TcpServer": true, "MuxAddressInfo": true, "zero": true},
		"GetClientTLSConfig": {"TcpClient": true, "MuxAddressInfo": true, "zero": true},
	}
	n := 0
	for _, f := range c.Prog.RepoFuncs() {
		if !isShippedFunc(f) || f.Package() == nil || f.Package().Pkg.Path() == encPkg {
			continue
		}
		for _, call := range flow.Calls(f) {
			cc := call.Common()
			for ctor, ok := range allowed {
				if !flow.IsCallTo(cc, encPkg, "", ctor) || len(cc.Args) == 0 {
					continue
				}
				n++
				secs := cfgSections(c, cc.Args[0])
				construct := shortFn(f) + ": settings passed to " + ctor
				var bad, unk []string
				for _, s := range secs {
					switch {
					case strings.HasPrefix(s, "?") || s == "literal":
						unk = append(unk, s)
					case !ok[s]:
						bad = append(bad, s)
					}
				}
				switch {
				case len(bad) > 0:
					res.Viol(rule, construct, instrPos(c.Prog, call), "the "+strings.TrimSuffix(strings.TrimPrefix(ctor, "Get"), "TLSConfig")+"-role TLS endpoint is configured from ClusterDefinition."+strings.Join(bad, ",")+" (all origins: "+strings.Join(secs, ",")+"): the listener/dialer enforces another section's CA, certificate and skip-verification settings")
				case len(unk) > 0 || len(secs) == 0:
					res.Undec(rule, construct, instrPos(c.Prog, call), "origin of the TLS settings not resolved: "+strings.Join(secs, ","))
				default:
					res.Hold(rule, construct, instrPos(c.Prog, call), "from ClusterDefinition."+strings.Join(secs, ","))
				}
				// the IsEnabled() gate that decides whether TLS is used at all reads the same settings
				for _, g := range flow.NormGuards(flow.Guards(call.Block())) {
					k := classifyCond(g.Cond, g.Side)
					if k.kind != "call" || !strings.HasSuffix(k.arg, "TLSConfig).IsEnabled") {
						continue
					}
					gc, _ := flow.Strip(g.Cond).(*ssa.Call)
					if gc == nil || len(gc.Call.Args) == 0 {
						continue
					}
					gs := cfgSections(c, gc.Call.Args[0])
					res.Check(strings.Join(gs, ",") == strings.Join(secs, ","), rule, shortFn(f)+": IsEnabled() gate reads the settings passed to "+ctor, instrPos(c.Prog, gc), strings.Join(gs, ","), "TLS is switched on by ClusterDefinition."+strings.Join(gs, ",")+" but configured from "+strings.Join(secs, ","))
				}
			}
		}
	}
	if n < 5 {
		res.Undec(rule, "settings-to-constructor call sites", "", "fewer than the 5 sites confirmed by hand (makeServerOptions, buildTLSTCPClient, intra-proxy dial, mux receiver, mux establisher)")
	}
	res.Analysed["tls_settings_sites"] = n
}

// checkIsEnabledTruthTable (O19.6): TLSConfig.IsEnabled decides whether a listener/dialer uses TLS at all. It only
// compares string fields with "", so it is evaluated exhaustively over the emptiness of the fields it reads:
// a certificate + key pair, or a CA server name, must switch TLS on (a stricter predicate silently turns a
// configured endpoint into a plaintext one).
func checkIsEnabledTruthTable(c *Ctx, res *report.Result) {
	rule := "O19.6"
	f := resolve(c, res, rule, anchor{"encryption", "TLSConfig", "IsEnabled"})
	if f == nil {
		return
	}
	// fields compared with ""
	fieldOf := func(v ssa.Value) string {
		if _, fld, ok := flow.FieldLoadOf(flow.ResolveLoad(v)); ok {
			return fld
		}
		if _, fld, ok := flow.FieldLoadOf(v); ok {
			return fld
		}
		return ""
	}
	used := map[string]bool{}
	for _, b := range f.Blocks {
		for _, ins := range b.Instrs {
			if bo, ok := ins.(*ssa.BinOp); ok && (bo.Op == token.NEQ || bo.Op == token.EQL) {
				if s0, isS := flow.ConstString(bo.Y); isS && s0 == "" {
					if fld := fieldOf(bo.X); fld != "" {
						used[fld] = true
					}
				}
			}
		}
	}
	var names []string
	for k := range used {
		names = append(names, k)
	}
	sort.Strings(names)
	if len(names) == 0 || len(names) > 6 {
		res.Undec(rule, "TLSConfig.IsEnabled: fields tested for emptiness", fnPos(c.Prog, f), fmt.Sprintf("%d fields", len(names)))
		return
	}
	type env map[string]bool // field -> non-empty
	var eval func(v ssa.Value, e env, prev *ssa.BasicBlock, d int) (bool, bool)
	eval = func(v ssa.Value, e env, prev *ssa.BasicBlock, d int) (bool, bool) {
		if d > 20 {
			return false, false
		}
		if b, ok := flow.ConstBool(v); ok {
			return b, true
		}
		switch x := v.(type) {
		case *ssa.BinOp:
			if s0, isS := flow.ConstString(x.Y); isS && s0 == "" {
				if fld := fieldOf(x.X); fld != "" {
					if x.Op == token.NEQ {
						return e[fld], true
					}
					if x.Op == token.EQL {
						return !e[fld], true
					}
				}
			}
			a, oka := eval(x.X, e, prev, d+1)
			b, okb := eval(x.Y, e, prev, d+1)
			if oka && okb {
				switch x.Op {
				case token.AND, token.LAND:
					return a && b, true
				case token.OR, token.LOR:
					return a || b, true
				case token.EQL:
					return a == b, true
				case token.NEQ:
					return a != b, true
				}
			}
		case *ssa.UnOp:
			if x.Op == token.NOT {
				a, ok := eval(x.X, e, prev, d+1)
				return !a, ok
			}
		case *ssa.Phi:
			for i, p := range x.Block().Preds {
				if p == prev {
					return eval(x.Edges[i], e, prev, d+1)
				}
			}
		}
		return false, false
	}
	run := func(e env) (bool, bool) {
		b := f.Blocks[0]
		var prev *ssa.BasicBlock
		phiPrev := map[*ssa.BasicBlock]*ssa.BasicBlock{}
		for steps := 0; steps < 100; steps++ {
			phiPrev[b] = prev
			last := b.Instrs[len(b.Instrs)-1]
			switch t := last.(type) {
			case *ssa.Return:
				rs := flow.Ret(t)
				if len(rs) != 1 {
					return false, false
				}
				return eval(rs[0], e, prev, 0)
			case *ssa.If:
				cv, ok := eval(t.Cond, e, prev, 0)
				if !ok {
					return false, false
				}
				prev = b
				if cv {
					b = b.Succs[0]
				} else {
					b = b.Succs[1]
				}
			case *ssa.Jump:
				prev = b
				b = b.Succs[0]
			default:
				return false, false
			}
		}
		return false, false
	}
	bad := ""
	undecided := false
	for mask := 0; mask < 1<<len(names); mask++ {
		e := env{}
		for i, n := range names {
			e[n] = mask&(1<<i) != 0
		}
		got, ok := run(e)
		if !ok {
			undecided = true
			break
		}
		must := (e["CertificatePath"] && e["KeyPath"]) || e["CAServerName"]
		if must && !got {
			var set []string
			for _, n := range names {
				if e[n] {
					set = append(set, n)
				}
			}
			bad = "with " + strings.Join(set, ", ") + " set, IsEnabled() is false"
		}
	}
	if undecided {
		res.Undec(rule, "TLSConfig.IsEnabled: truth table over the emptiness of "+strings.Join(names, ", "), fnPos(c.Prog, f), "the predicate is not a boolean combination of emptiness tests")
		return
	}
	res.Check(bad == "", rule, "TLSConfig.IsEnabled: a certificate/key pair or a CA server name switches TLS on", fnPos(c.Prog, f), fmt.Sprintf("exhaustive over %d combinations of %s", 1<<len(names), strings.Join(names, ", ")), bad+": an endpoint configured for TLS is built as a plaintext endpoint (the providers and makeServerOptions consult IsEnabled before anything else)")
}
