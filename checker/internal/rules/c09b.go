package rules

import (
	"fmt"
	"go/token"
	"strings"

	"golang.org/x/tools/go/ssa"

	"s2scheck/internal/flow"
	"s2scheck/internal/report"
)

// checkMergeRecordsState (O9.11): MergeRemoteState stores every state it could decode under the sender's node
// name: no path from the successful Unmarshal to a return avoids `remoteNodeStates[state.NodeName] = state`
// (other than a missing manager). That table is what owner lookup, the broadcast target list and NotifyLeave read.
func checkMergeRecordsState(c *Ctx, res *report.Result, rule string) {
	f := resolve(c, res, rule, anchor{"proxy", "*shardDelegate", "MergeRemoteState"})
	if f == nil {
		return
	}
	var upd *ssa.MapUpdate
	for _, b := range f.Blocks {
		for _, ins := range b.Instrs {
			if mu, ok := ins.(*ssa.MapUpdate); ok {
				if p, okp := flow.FieldPath(mu.Map); okp && strings.HasSuffix(p, ".remoteNodeStates") {
					upd = mu
				}
			}
		}
	}
	construct := "MergeRemoteState: every decodable state is recorded under its node name"
	if upd == nil {
		res.Viol(rule, construct, fnPos(c.Prog, f), "no store into remoteNodeStates: nothing a peer pushes is ever remembered - owner lookup never finds a remote owner and announcements are sent to nobody")
		return
	}
	okKey := false
	if p, okp := flow.FieldPath(upd.Key); okp && strings.HasSuffix(p, ".NodeName") {
		okKey = true
	}
	res.Check(okKey, rule, "MergeRemoteState: the state is stored under the decoded state's own NodeName", instrPos(c.Prog, upd), "remoteNodeStates[state.NodeName] = state", "the merged state is filed under "+flow.Describe(upd.Key)+" instead of the sender's node name")
	unm := flow.FindCalls(f, func(cc *ssa.CallCommon) bool { return flow.IsCallTo(cc, "encoding/json", "", "Unmarshal") })
	if len(unm) != 1 {
		res.Undec(rule, construct, fnPos(c.Prog, f), fmt.Sprintf("%d json.Unmarshal calls", len(unm)))
		return
	}
	r := flow.FindPath(flow.After(unm[0]), flow.IsReturn, func(x ssa.Instruction) bool { return x == ssa.Instruction(upd) }, func(a, b *ssa.BasicBlock) bool {
		// pruned: the decode-error side and the manager == nil side
		for _, g := range flow.NormGuards(flow.EdgeGuards(a, b)) {
			bo, ok := g.Cond.(*ssa.BinOp)
			if !ok || (bo.Op != token.EQL && bo.Op != token.NEQ) || !flow.IsNilConst(bo.Y) {
				continue
			}
			nilSide := (bo.Op == token.EQL) == g.Side
			if bo.X == ssa.Value(unm[0].(*ssa.Call)) && !nilSide {
				return false // err != nil
			}
			if p, okp := flow.FieldPath(bo.X); okp && strings.HasSuffix(p, ".manager") && nilSide {
				return false
			}
		}
		return true
	})
	res.Check(!r.Found, rule, construct, instrPos(c.Prog, upd), "no way from a successful decode to a return avoids the store", "a decoded peer state can be dropped (path "+flow.BlockPath(r.Via)+"): the peer's shards stay unknown here, so messages for them are retried for ever instead of being forwarded")
}

// checkShardChangeAnnounced (O9.12): a change of the local claim table is told to the peers: RegisterShard calls
// broadcastShardChange("register", shard) on every path and UnregisterShard deletes the entry and calls
// broadcastShardChange("unregister", shard) on the side on which the registration matched.
func checkShardChangeAnnounced(c *Ctx, res *report.Result, rule string) {
	isBroadcast := func(kind string) func(ssa.Instruction) bool {
		return func(x ssa.Instruction) bool {
			call, ok := x.(ssa.CallInstruction)
			if !ok {
				return false
			}
			sc := flow.StaticCallee(call.Common())
			if sc == nil || sc.Name() != "broadcastShardChange" {
				return false
			}
			s, isS := flow.ConstString(call.Common().Args[1])
			return isS && s == kind
		}
	}
	if f := resolve(c, res, rule, anchor{"proxy", "*shardManagerImpl", "RegisterShard"}); f != nil {
		r := flow.FindPath(flow.Point{Block: f.Blocks[0]}, flow.IsReturn, isBroadcast("register"), nil)
		res.Check(!r.Found, rule, "RegisterShard announces the claim to the peers", fnPos(c.Prog, f), "broadcastShardChange(\"register\", shard) on every path", "a shard can be registered without the register announcement (path "+flow.BlockPath(r.Via)+"): an older owner on another instance is never told to yield, and two instances keep claiming the shard")
	}
	if f := resolve(c, res, rule, anchor{"proxy", "*shardManagerImpl", "UnregisterShard"}); f != nil {
		var del ssa.Instruction
		for _, call := range flow.Calls(f) {
			if bi, ok := call.Common().Value.(*ssa.Builtin); ok && bi.Name() == "delete" {
				if p, okp := flow.FieldPath(call.Common().Args[0]); okp && strings.HasSuffix(p, ".localShards") {
					del = call
				}
			}
		}
		if del == nil {
			res.Viol(rule, "UnregisterShard removes the claim", fnPos(c.Prog, f), "no delete from localShards: a shard whose stream ended (or that was yielded to a newer owner) stays claimed by this instance for ever")
		} else {
			// the matched side: the block of the delete; from there every return passes the announcement
			r := flow.FindPath(flow.After(del), flow.IsReturn, isBroadcast("unregister"), nil)
			res.Check(!r.Found, rule, "UnregisterShard announces the release to the peers", instrPos(c.Prog, del), "broadcastShardChange(\"unregister\", shard) after the delete on every path", "a claim can be dropped without the unregister announcement (path "+flow.BlockPath(r.Via)+")")
			// and the delete is reached whenever the registration matched: its block is entered on the true side of
			// `exists && Created.Equal(expected)` only - covered by O8.1; here: it exists on that side at all
			res.Hold(rule, "UnregisterShard removes the claim", instrPos(c.Prog, del), "delete(localShards, key) present")
		}
	}
}

// checkRemoteForwardCondition (O9.13): the intra-proxy forward in DeliverMessagesToShardOwner / DeliverAckToShardOwner
// is attempted exactly when a memberlist is configured, an owner is known, the owner is another node and its address
// is known: the guards of the forward call are those tests on their positive sides, no other.
func checkRemoteForwardCondition(c *Ctx, res *report.Result, rule string) {
	for _, spec := range []struct{ fn, callee string }{{"DeliverMessagesToShardOwner", "sendReplicationMessages"}, {"DeliverAckToShardOwner", "sendAck"}} {
		f := resolve(c, res, rule, anchor{"proxy", "*shardManagerImpl", spec.fn})
		if f == nil {
			continue
		}
		var fwd ssa.CallInstruction
		for _, call := range flow.Calls(f) {
			if sc := flow.StaticCallee(call.Common()); sc != nil && sc.Name() == spec.callee && strings.Contains(sc.String(), "intraProxyManager") {
				fwd = call
			}
		}
		construct := spec.fn + ": the forward to the owning instance is attempted exactly when another instance owns the shard"
		if fwd == nil {
			res.Viol(rule, construct, fnPos(c.Prog, f), "no intra-proxy forward call: messages for shards owned by another instance can never reach it")
			continue
		}
		need := map[string]bool{"memberlist configured": false, "owner known": false, "owner is another node": false, "owner address known": false}
		extra := ""
		for _, g := range flow.NormGuards(flow.Guards(fwd.Block())) {
			switch x := g.Cond.(type) {
			case *ssa.BinOp:
				p, _ := flow.FieldPath(x.X)
				switch {
				case strings.HasSuffix(p, ".memberlistConfig") && flow.IsNilConst(x.Y):
					if (x.Op == token.NEQ) == g.Side {
						need["memberlist configured"] = true
					} else {
						extra = "forward attempted when no memberlist is configured"
					}
				case x.Op == token.NEQ || x.Op == token.EQL:
					// owner != GetNodeName()
					isName := func(v ssa.Value) bool {
						call, ok := v.(*ssa.Call)
						if !ok {
							return false
						}
						sc := flow.StaticCallee(&call.Call)
						return sc != nil && sc.Name() == "GetNodeName"
					}
					if isName(x.X) || isName(x.Y) {
						if (x.Op == token.NEQ) == g.Side {
							need["owner is another node"] = true
						} else {
							extra = "forward attempted only when the owner is this very node"
						}
					} else if flow.IsNilConst(x.Y) && len(fwd.Common().Args) > 0 && x.X == fwd.Common().Args[0] {
						if (x.Op == token.NEQ) != g.Side {
							extra = "forward attempted on a nil intra-proxy manager"
						}
					}
				}
			case *ssa.Extract:
				if call, ok := x.Tuple.(*ssa.Call); ok && x.Index == 1 {
					sc := flow.StaticCallee(&call.Call)
					if sc != nil && sc.Name() == "getShardOwner" {
						if g.Side {
							need["owner known"] = true
						} else {
							extra = "forward attempted when no owner is known"
						}
					}
					if sc != nil && sc.Name() == "GetProxyAddress" {
						if g.Side {
							need["owner address known"] = true
						} else {
							extra = "forward attempted when the owner's address is unknown"
						}
					}
				}
			}
		}
		var missing []string
		for k, v := range need {
			if !v {
				missing = append(missing, k)
			}
		}
		bad := extra
		if len(missing) > 0 && bad == "" {
			bad = "the forward is not conditioned on: " + strings.Join(missing, ", ")
		}
		res.Check(bad == "", rule, construct, instrPos(c.Prog, fwd), "memberlistConfig != nil, owner known, owner != this node, address known", bad+": messages for a shard owned by another instance are not forwarded to it (or are 'forwarded' to oneself), and the caller retries for ever")
	}
}
