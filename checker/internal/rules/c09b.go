package rules

import (
	"fmt"
	"go/token"
	"go/types"
	"strings"

	"golang.org/x/tools/go/ssa"

	"s2scheck/internal/flow"
	"s2scheck/internal/report"
)

// checkMergeRecordsState (O9.11): MergeRemoteState stores every state it could decode under the sender's node
// name: no path from the successful Unmarshal to a return avoids `remoteNodeStates[state.NodeName] = state`
// (other than a missing manager). That table is what owner lookup, the broadcast target list and NotifyLeave read.
func checkMergeRecordsState(c *Ctx, res *report.Result, rule string) {
	f := resolve(c, res, rule, anchor{"proxy", "*shardDelegate", "MergeRemoteState"})
	if f == nil {
		return
	}
	var upd *ssa.MapUpdate
	for _, b := range f.Blocks {
		for _, ins := range b.Instrs {
			if mu, ok := ins.(*ssa.MapUpdate); ok {
				if p, okp := flow.FieldPath(mu.Map); okp && strings.HasSuffix(p, ".remoteNodeStates") {
					upd = mu
				}
			}
		}
	}
	construct := "MergeRemoteState: every decodable state is recorded under its node name"
	if upd == nil {
		res.Viol(rule, construct, fnPos(c.Prog, f), "no store into remoteNodeStates: nothing a peer pushes is ever remembered - owner lookup never finds a remote owner and announcements are sent to nobody")
		return
	}
	okKey := false
	if p, okp := flow.FieldPath(upd.Key); okp && strings.HasSuffix(p, ".NodeName") {
		okKey = true
	}
	res.Check(okKey, rule, "MergeRemoteState: the state is stored under the decoded state's own NodeName", instrPos(c.Prog, upd), "remoteNodeStates[state.NodeName] = state", "the merged state is filed under "+flow.Describe(upd.Key)+" instead of the sender's node name")
	unm := flow.FindCalls(f, func(cc *ssa.CallCommon) bool { return flow.IsCallTo(cc, "encoding/json", "", "Unmarshal") })
	if len(unm) != 1 {
		res.Undec(rule, construct, fnPos(c.Prog, f), fmt.Sprintf("%d json.Unmarshal calls", len(unm)))
		return
	}
	r := flow.FindPath(flow.After(unm[0]), flow.IsReturn, func(x ssa.Instruction) bool { return x == ssa.Instruction(upd) }, func(a, b *ssa.BasicBlock) bool {
		// pruned: the decode-error side and the manager == nil side
		for _, g := range flow.NormGuards(flow.EdgeGuards(a, b)) {
			bo, ok := g.Cond.(*ssa.BinOp)
			if !ok || (bo.Op != token.EQL && bo.Op != token.NEQ) || !flow.IsNilConst(bo.Y) {
				continue
			}
			nilSide := (bo.Op == token.EQL) == g.Side
			if bo.X == ssa.Value(unm[0].(*ssa.Call)) && !nilSide {
				return false // err != nil
			}
			if p, okp := flow.FieldPath(bo.X); okp && strings.HasSuffix(p, ".manager") && nilSide {
				return false
			}
		}
		return true
	})
	res.Check(!r.Found, rule, construct, instrPos(c.Prog, upd), "no way from a successful decode to a return avoids the store", "a decoded peer state can be dropped (path "+flow.BlockPath(r.Via)+"): the peer's shards stay unknown here, so messages for them are retried for ever instead of being forwarded")
}

// checkShardChangeAnnounced (O9.12): a change of the local claim table is told to the peers: RegisterShard calls
// broadcastShardChange("register", shard) on every path and UnregisterShard deletes the entry and calls
// broadcastShardChange("unregister", shard) on the side on which the registration matched.
func checkShardChangeAnnounced(c *Ctx, res *report.Result, rule string) {
	isBroadcast := func(kind string) func(ssa.Instruction) bool {
		return func(x ssa.Instruction) bool {
			call, ok := x.(ssa.CallInstruction)
			if !ok {
				return false
			}
			sc := flow.StaticCallee(call.Common())
			if sc == nil || sc.Name() != "broadcastShardChange" {
				return false
			}
			s, isS := flow.ConstString(call.Common().Args[1])
			return isS && s == kind
		}
	}
	if f := resolve(c, res, rule, anchor{"proxy", "*shardManagerImpl", "RegisterShard"}); f != nil {
		r := flow.FindPath(flow.Point{Block: f.Blocks[0]}, flow.IsReturn, isBroadcast("register"), nil)
		res.Check(!r.Found, rule, "RegisterShard announces the claim to the peers", fnPos(c.Prog, f), "broadcastShardChange(\"register\", shard) on every path", "a shard can be registered without the register announcement (path "+flow.BlockPath(r.Via)+"): an older owner on another instance is never told to yield, and two instances keep claiming the shard")
	}
	if f := resolve(c, res, rule, anchor{"proxy", "*shardManagerImpl", "UnregisterShard"}); f != nil {
		var del ssa.Instruction
		for _, call := range flow.Calls(f) {
			if bi, ok := call.Common().Value.(*ssa.Builtin); ok && bi.Name() == "delete" {
				if p, okp := flow.FieldPath(call.Common().Args[0]); okp && strings.HasSuffix(p, ".localShards") {
					del = call
				}
			}
		}
		if del == nil {
			res.Viol(rule, "UnregisterShard removes the claim", fnPos(c.Prog, f), "no delete from localShards: a shard whose stream ended (or that was yielded to a newer owner) stays claimed by this instance for ever")
		} else {
			// the matched side: the block of the delete; from there every return passes the announcement
			r := flow.FindPath(flow.After(del), flow.IsReturn, isBroadcast("unregister"), nil)
			res.Check(!r.Found, rule, "UnregisterShard announces the release to the peers", instrPos(c.Prog, del), "broadcastShardChange(\"unregister\", shard) after the delete on every path", "a claim can be dropped without the unregister announcement (path "+flow.BlockPath(r.Via)+")")
			// and the delete is reached whenever the registration matched: its block is entered on the true side of
			// `exists && Created.Equal(expected)` only - covered by O8.1; here: it exists on that side at all
			res.Hold(rule, "UnregisterShard removes the claim", instrPos(c.Prog, del), "delete(localShards, key) present")
		}
	}
}

// checkRemoteForwardCondition (O9.13): the intra-proxy forward in DeliverMessagesToShardOwner / DeliverAckToShardOwner
// is attempted exactly when a memberlist is configured, an owner is known, the owner is another node and its address
// is known: the guards of the forward call are those tests on their positive sides, no other.
func checkRemoteForwardCondition(c *Ctx, res *report.Result, rule string) {
	for _, spec := range []struct{ fn, callee string }{{"DeliverMessagesToShardOwner", "sendReplicationMessages"}, {"DeliverAckToShardOwner", "sendAck"}} {
		f := resolve(c, res, rule, anchor{"proxy", "*shardManagerImpl", spec.fn})
		if f == nil {
			continue
		}
		var fwd ssa.CallInstruction
		for _, call := range flow.Calls(f) {
			if sc := flow.StaticCallee(call.Common()); sc != nil && sc.Name() == spec.callee && strings.Contains(sc.String(), "intraProxyManager") {
				fwd = call
			}
		}
		construct := spec.fn + ": the forward to the owning instance is attempted exactly when another instance owns the shard"
		if fwd == nil {
			res.Viol(rule, construct, fnPos(c.Prog, f), "no intra-proxy forward call: messages for shards owned by another instance can never reach it")
			continue
		}
		need := map[string]bool{"memberlist configured": false, "owner known": false, "owner is another node": false, "owner address known": false}
		extra := ""
		for _, g := range flow.NormGuards(flow.Guards(fwd.Block())) {
			switch x := g.Cond.(type) {
			case *ssa.BinOp:
				p, _ := flow.FieldPath(x.X)
				switch {
				case strings.HasSuffix(p, ".memberlistConfig") && flow.IsNilConst(x.Y):
					if (x.Op == token.NEQ) == g.Side {
						need["memberlist configured"] = true
					} else {
						extra = "forward attempted when no memberlist is configured"
					}
				case x.Op == token.NEQ || x.Op == token.EQL:
					// owner != GetNodeName()
					isName := func(v ssa.Value) bool {
						call, ok := v.(*ssa.Call)
						if !ok {
							return false
						}
						sc := flow.StaticCallee(&call.Call)
						return sc != nil && sc.Name() == "GetNodeName"
					}
					if isName(x.X) || isName(x.Y) {
						if (x.Op == token.NEQ) == g.Side {
							need["owner is another node"] = true
						} else {
							extra = "forward attempted only when the owner is this very node"
						}
					} else if flow.IsNilConst(x.Y) && len(fwd.Common().Args) > 0 && x.X == fwd.Common().Args[0] {
						if (x.Op == token.NEQ) != g.Side {
							extra = "forward attempted on a nil intra-proxy manager"
						}
					}
				}
			case *ssa.Extract:
				if call, ok := x.Tuple.(*ssa.Call); ok && x.Index == 1 {
					sc := flow.StaticCallee(&call.Call)
					if sc != nil && sc.Name() == "getShardOwner" {
						if g.Side {
							need["owner known"] = true
						} else {
							extra = "forward attempted when no owner is known"
						}
					}
					if sc != nil && sc.Name() == "GetProxyAddress" {
						if g.Side {
							need["owner address known"] = true
						} else {
							extra = "forward attempted when the owner's address is unknown"
						}
					}
				}
			}
		}
		var missing []string
		for k, v := range need {
			if !v {
				missing = append(missing, k)
			}
		}
		bad := extra
		if len(missing) > 0 && bad == "" {
			bad = "the forward is not conditioned on: " + strings.Join(missing, ", ")
		}
		res.Check(bad == "", rule, construct, instrPos(c.Prog, fwd), "memberlistConfig != nil, owner known, owner != this node, address known", bad+": messages for a shard owned by another instance are not forwarded to it (or are 'forwarded' to oneself), and the caller retries for ever")
	}
}

// checkSendChanClosedOnExit (O8.12): proxyStreamSender.Run closes its delivery channel once its latch is tripped, on
// every way to its return. A deliverer blocked in `ch <- msg` on a full channel of a sender whose peer stopped
// reading is woken only by that close (the send panics, the recover guard of O8.2 turns it into "not delivered", and
// the caller retries on the successor's channel); without it the deliverer stays blocked until its own receiver
// is shut down, and everything queued behind that message with it.
func checkSendChanClosedOnExit(c *Ctx, res *report.Result, rule string) {
	f := resolve(c, res, rule, anchor{"proxy", "*proxyStreamSender", "Run"})
	if f == nil {
		return
	}
	var wait ssa.Instruction
	for _, b := range f.Blocks {
		for _, ins := range b.Instrs {
			if u, ok := ins.(*ssa.UnOp); ok && u.Op == token.ARROW {
				if call, isC := u.X.(*ssa.Call); isC && call.Call.IsInvoke() && call.Call.Method.Name() == "Channel" {
					wait = u
				}
			}
		}
	}
	isClose := func(x ssa.Instruction) bool {
		call, ok := x.(ssa.CallInstruction)
		if !ok {
			return false
		}
		bi, isB := call.Common().Value.(*ssa.Builtin)
		if !isB || bi.Name() != "close" {
			return false
		}
		p, okp := flow.FieldPath(call.Common().Args[0])
		return okp && strings.HasSuffix(p, ".sendMsgChan")
	}
	construct := "proxyStreamSender.Run closes sendMsgChan after its latch tripped"
	if wait == nil {
		res.Undec(rule, construct, fnPos(c.Prog, f), "no wait on the shutdown latch found")
		return
	}
	r := flow.FindPath(flow.After(wait), flow.IsReturn, isClose, nil)
	res.Check(!r.Found, rule, construct, instrPos(c.Prog, wait), "every way from the latch to the return passes close(s.sendMsgChan)", "Run can return without closing its delivery channel (path "+flow.BlockPath(r.Via)+"): a deliverer blocked on the full channel of this dead incarnation is never woken, and the batch it carries - and every batch behind it - waits until the source stream itself is torn down")
}

// checkReplayChain (O3.11): the watermark replay to a (re)registered target shard travels through a chain of calls,
// each of which is made on every path of its link (legitimate ways around: `added == false`, another cluster's
// receiver): SetupCallbacks installs the local- and remote-shard-change callbacks; each callback, when a shard was
// added, calls notifyReceiversOfNewShard; that calls NotifyNewTargetShard on every receiver of the same cluster;
// every implementation of NotifyNewTargetShard calls sendPendingWatermarkToShard. O8.10 is the first link
// (RegisterShard -> onLocalShardChange), O1.6 the content of what is replayed.
func checkReplayChain(c *Ctx, res *report.Result, rule string) {
	callsNamed := func(name string) func(ssa.Instruction) bool {
		return func(x ssa.Instruction) bool {
			call, ok := x.(ssa.CallInstruction)
			if !ok {
				return false
			}
			cc := call.Common()
			if cc.IsInvoke() {
				return cc.Method.Name() == name
			}
			sc := flow.StaticCallee(cc)
			return sc != nil && sc.Name() == name
		}
	}
	mustCall := func(f *ssa.Function, what, callee string, edgeOK func(a, b *ssa.BasicBlock) bool, why string) {
		r := flow.FindPath(flow.Point{Block: f.Blocks[0]}, flow.IsReturn, callsNamed(callee), edgeOK)
		res.Check(!r.Found, rule, what, fnPos(c.Prog, f), "every path calls "+callee, "a path avoids the call of "+callee+" ("+flow.BlockPath(r.Via)+"): "+why)
	}
	lost := "a target shard that (re)registers after the source went idle is never sent the source's last watermark, nothing else will be sent to it either, and the aggregated acknowledgement waits for that target for ever"
	if f := resolve(c, res, rule, anchor{"proxy", "*shardManagerImpl", "SetupCallbacks"}); f != nil {
		for _, setter := range []string{"setOnLocalShardChange", "setOnRemoteShardChange"} {
			mustCall(f, "SetupCallbacks installs the callback via "+setter, setter, nil, "the shard-change callback is never installed; "+lost)
			// the installed literal
			for _, call := range flow.Calls(f) {
				sc := flow.StaticCallee(call.Common())
				if sc == nil || sc.Name() != setter || len(call.Common().Args) < 2 {
					continue
				}
				mc, ok := call.Common().Args[1].(*ssa.MakeClosure)
				if !ok {
					res.Undec(rule, setter+": installed callback", instrPos(c.Prog, call), "not a function literal")
					continue
				}
				lit := mc.Fn.(*ssa.Function)
				var added *ssa.Parameter
				for _, p := range lit.Params {
					if p.Name() == "added" || p.Type().String() == "bool" {
						added = p
					}
				}
				mustCall(lit, "the callback installed by "+setter+" replays to a shard that was added", "notifyReceiversOfNewShard", func(a, b *ssa.BasicBlock) bool {
					for _, g := range flow.NormGuards(flow.EdgeGuards(a, b)) {
						if added != nil && g.Cond == ssa.Value(added) && !g.Side {
							return false
						}
					}
					return true
				}, lost)
			}
		}
	}
	if f := resolve(c, res, rule, anchor{"proxy", "*shardManagerImpl", "notifyReceiversOfNewShard"}); f != nil {
		// inside the loop over the receivers: every iteration notifies, other than for a receiver of another cluster
		var notify ssa.Instruction
		for _, call := range flow.Calls(f) {
			if call.Common().IsInvoke() && call.Common().Method.Name() == "NotifyNewTargetShard" {
				notify = call
			}
		}
		if notify == nil {
			res.Viol(rule, "notifyReceiversOfNewShard notifies the receivers", fnPos(c.Prog, f), "no NotifyNewTargetShard call: "+lost)
		} else {
			okG := true
			why := ""
			for _, g := range flow.NormGuards(flow.Guards(notify.Block())) {
				bo, isB := g.Cond.(*ssa.BinOp)
				if !isB {
					continue
				}
				if bo.Op == token.LSS {
					continue // range test
				}
				px, _ := flow.FieldPath(bo.X)
				py, _ := flow.FieldPath(bo.Y)
				if strings.HasSuffix(px, "ClusterID") && strings.HasSuffix(py, "ClusterID") && ((bo.Op == token.EQL && g.Side) || (bo.Op == token.NEQ && !g.Side)) {
					continue
				}
				okG, why = false, "notified only under "+flow.Describe(g.Cond)
			}
			res.Check(okG, rule, "notifyReceiversOfNewShard notifies every receiver that routes to the new shard's cluster", instrPos(c.Prog, notify), "only the cluster-id test guards the call", why+": "+lost)
		}
	}
	for _, recv := range []string{"*proxyStreamReceiver", "*intraProxyStreamReceiver"} {
		if f := resolve(c, res, rule, anchor{"proxy", recv, "NotifyNewTargetShard"}); f != nil {
			mustCall(f, "("+recv+").NotifyNewTargetShard replays the pending watermark", "sendPendingWatermarkToShard", nil, lost)
		}
	}
}

// checkIntraStreamTables (O9.14): the intra-proxy stream tables are maintained on every path: RegisterSender files
// the sender under (peer, stream key) - creating and filing the peer's state when there is none - for every
// cross-cluster pair; UnregisterSender removes exactly that entry when it is still its own; ensureStream files the
// new receiver and its shutdown handle before it starts it, and starts it as a goroutine. The senders found in
// these tables are the only way a message or an ack reaches another instance (O9.13 is the decision to look there).
func checkIntraStreamTables(c *Ctx, res *report.Result, rule string) {
	mapStore := func(fieldSuffix string) func(ssa.Instruction) bool {
		return func(x ssa.Instruction) bool {
			mu, ok := x.(*ssa.MapUpdate)
			if !ok {
				return false
			}
			if p, okp := flow.FieldPath(mu.Map); okp && strings.HasSuffix(p, fieldSuffix) {
				return true
			}
			_, fld, okf := flow.FieldLoadOf(mu.Map)
			return okf && "."+fld == fieldSuffix
		}
	}
	mapDelete := func(fieldSuffix string) func(ssa.Instruction) bool {
		return func(x ssa.Instruction) bool {
			call, ok := x.(ssa.CallInstruction)
			if !ok {
				return false
			}
			bi, isB := call.Common().Value.(*ssa.Builtin)
			if !isB || bi.Name() != "delete" {
				return false
			}
			if p, okp := flow.FieldPath(call.Common().Args[0]); okp && strings.HasSuffix(p, fieldSuffix) {
				return true
			}
			_, fld, okf := flow.FieldLoadOf(call.Common().Args[0])
			return okf && "."+fld == fieldSuffix
		}
	}
	sameClusterEdge := func(a, b *ssa.BasicBlock) bool {
		for _, g := range flow.NormGuards(flow.EdgeGuards(a, b)) {
			bo, ok := g.Cond.(*ssa.BinOp)
			if !ok {
				continue
			}
			px, _ := flow.FieldPath(bo.X)
			py, _ := flow.FieldPath(bo.Y)
			if strings.HasSuffix(px, "ClusterID") && strings.HasSuffix(py, "ClusterID") && ((bo.Op == token.EQL && g.Side) || (bo.Op == token.NEQ && !g.Side)) {
				return true
			}
		}
		return false
	}
	lost := "messages and acks for a shard owned by the peer find no stream to travel on and are retried for ever"
	if f := resolve(c, res, rule, anchor{"proxy", "*intraProxyManager", "RegisterSender"}); f != nil {
		r := flow.FindPath(flow.Point{Block: f.Blocks[0]}, flow.IsReturn, mapStore(".senders"), func(a, b *ssa.BasicBlock) bool { return !sameClusterEdge(a, b) })
		res.Check(!r.Found, rule, "RegisterSender files the sender under its stream key for every cross-cluster pair", fnPos(c.Prog, f), "every path but the same-cluster one passes senders[key] = sender", "a sender can be registered without being filed (path "+flow.BlockPath(r.Via)+"): "+lost)
		// the value filed is the sender parameter, under a key built from the two shard parameters
		for _, b := range f.Blocks {
			for _, ins := range b.Instrs {
				if mu, ok := ins.(*ssa.MapUpdate); ok && mapStore(".senders")(mu) {
					_, isParam := mu.Value.(*ssa.Parameter)
					res.Check(isParam, rule, "RegisterSender files the sender it was given", instrPos(c.Prog, mu), "senders[key] = sender (parameter)", "something other than the registering sender is filed")
				}
			}
		}
		// a peer state created here is filed: from the allocation of a peerState no return avoids peers[peer] = ps
		for _, b := range f.Blocks {
			for _, ins := range b.Instrs {
				if al, ok := ins.(*ssa.Alloc); ok && flow.NamedIs(al.Type(), proxyPkg, "peerState") {
					r2 := flow.FindPath(flow.After(al), flow.IsReturn, mapStore(".peers"), nil)
					res.Check(!r2.Found, rule, "RegisterSender files a peer state it creates", instrPos(c.Prog, al), "peers[peer] = ps follows the allocation on every path", "a freshly created peer state is never put into the peer table (path "+flow.BlockPath(r2.Via)+"): the sender is filed in an object nobody can find - "+lost)
				}
			}
		}
	}
	if f := resolve(c, res, rule, anchor{"proxy", "*intraProxyManager", "UnregisterSender"}); f != nil {
		n := 0
		for _, b := range f.Blocks {
			for _, ins := range b.Instrs {
				if mapDelete(".senders")(ins) {
					n++
				}
			}
		}
		res.Check(n == 1, rule, "UnregisterSender removes the sender's entry", fnPos(c.Prog, f), "one delete(ps.senders, key)", fmt.Sprintf("%d deletes from the sender table: an ended stream's sender stays filed and everything forwarded to the peer is written to a dead stream", n))
	}
	if f := resolve(c, res, rule, anchor{"proxy", "*intraProxyManager", "ensureStream"}); f != nil {
		var gos []*ssa.Go
		for _, b := range f.Blocks {
			for _, ins := range b.Instrs {
				if g, ok := ins.(*ssa.Go); ok {
					gos = append(gos, g)
				}
			}
		}
		// the receiver literal
		for _, b := range f.Blocks {
			for _, ins := range b.Instrs {
				al, ok := ins.(*ssa.Alloc)
				if !ok || !flow.NamedIs(al.Type(), proxyPkg, "intraProxyStreamReceiver") {
					continue
				}
				r := flow.FindPath(flow.After(al), flow.IsReturn, mapStore(".receivers"), func(a, b2 *ssa.BasicBlock) bool { return true })
				res.Check(!r.Found, rule, "ensureStream files the receiver it creates", instrPos(c.Prog, al), "receivers[key] = recv on every path to a return", "a receiver can be created without being filed (path "+flow.BlockPath(r.Via)+"): the next ack for that pair creates another stream, and the peer's streams are never closed when it leaves")
				started := false
				for _, g := range gos {
					if flow.InstrDominates(al, g) {
						started = true
					}
				}
				res.Check(started, rule, "ensureStream starts the receiver as a goroutine", instrPos(c.Prog, al), "go func() { recv.Run(...) }()", "the receiver is not started in a goroutine of its own: ensureStream (called under the caller's delivery path) would not return while the stream lives")
			}
		}
	}
}

// checkReplayNeverBlocksRegistration (O2.12): the watermark replay runs synchronously inside RegisterShard, which a
// sender calls after it registered its delivery channel but BEFORE it starts the goroutine that drains it. A replay
// to a target that has a local channel must therefore never wait for room in that channel: in both
// sendPendingWatermarkToShard implementations the blocking hand-over (DeliverMessagesToShardOwner) is reached only
// on the side on which GetRemoteSendChan(target) found no local channel, and every channel send the function itself
// makes sits in a select with a default arm. Otherwise, once more receivers hold a pending watermark than the
// channel has room for, RegisterShard never returns, the sender never starts, and the tasks read for that target are
// never sent.
func checkReplayNeverBlocksRegistration(c *Ctx, res *report.Result, rule string) {
	for _, recv := range []string{"*proxyStreamReceiver", "*intraProxyStreamReceiver"} {
		f := resolve(c, res, rule, anchor{"proxy", recv, "sendPendingWatermarkToShard"})
		if f == nil {
			continue
		}
		what := "(" + recv + ").sendPendingWatermarkToShard"
		// the local lookup
		var lookup *ssa.Call
		for _, call := range flow.Calls(f) {
			if call.Common().IsInvoke() && call.Common().Method.Name() == "GetRemoteSendChan" {
				lookup, _ = call.(*ssa.Call)
			}
		}
		nDeliver := 0
		for _, call := range flow.Calls(f) {
			if !call.Common().IsInvoke() || call.Common().Method.Name() != "DeliverMessagesToShardOwner" {
				continue
			}
			nDeliver++
			okG := false
			if lookup != nil {
				for _, g := range flow.NormGuards(flow.Guards(call.Block())) {
					if ex, isEx := g.Cond.(*ssa.Extract); isEx && ex.Tuple == ssa.Value(lookup) && ex.Index == 1 && !g.Side {
						okG = true
					}
				}
			}
			res.Check(okG, rule, what+": the blocking hand-over is used only when the target has no local channel", instrPos(c.Prog, call), "DeliverMessagesToShardOwner under GetRemoteSendChan(target) == not found", "the replay goes through the blocking DeliverMessagesToShardOwner also for a target with a local channel: it runs inside RegisterShard, before that target's sender starts draining the channel, so with more pending watermarks than the channel has room for the registration never returns and the sender never starts")
		}
		// the function's own sends (also inside the called literals) are non-blocking
		fns := append([]*ssa.Function{f}, flow.AnonFuncsDeep(f)...)
		nSend := 0
		for _, g := range fns {
			for _, b := range g.Blocks {
				for _, ins := range b.Instrs {
					switch x := ins.(type) {
					case *ssa.Send:
						nSend++
						res.Viol(rule, what+": local replay is a non-blocking send", instrPos(c.Prog, x), "a plain channel send: it waits for room in the channel of a sender that has not started yet")
					case *ssa.Select:
						hasSend := false
						for _, st := range x.States {
							if st.Dir == types.SendOnly {
								hasSend = true
							}
						}
						if hasSend {
							nSend++
							res.Check(!x.Blocking, rule, what+": local replay is a non-blocking send", instrPos(c.Prog, x), "select with a default arm", "the select that sends the pending watermark has no default arm: it waits for room in the channel of a sender that has not started yet")
						}
					}
				}
			}
		}
		if nSend == 0 && nDeliver == 0 {
			res.Undec(rule, what, fnPos(c.Prog, f), "neither a channel send nor a DeliverMessagesToShardOwner call found")
		}
	}
}

// checkRoutedAckTarget (O3.14 / O1.12): a confirmation is filed under the target it came from: every RoutedAck
// literal built by a sender's recvAck (both branches of proxyStreamSender.recvAck, intraProxyStreamSender.recvAck)
// carries TargetShard = that sender's own targetShardID. The source-side receiver keys its per-target map by that
// field: an ack filed under another shard either overwrites that target's (lower) level - the minimum rises above
// what it confirmed - or creates an entry nobody updates, which pins the minimum for ever.
func checkRoutedAckTarget(c *Ctx, res *report.Result, rule string) {
	n := 0
	for _, recv := range []string{"*proxyStreamSender", "*intraProxyStreamSender"} {
		f := resolve(c, res, rule, anchor{"proxy", recv, "recvAck"})
		if f == nil {
			continue
		}
		k := 0
		for _, b := range f.Blocks {
			for _, ins := range b.Instrs {
				al, ok := ins.(*ssa.Alloc)
				if !ok || !flow.NamedIs(al.Type(), proxyPkg, "RoutedAck") {
					continue
				}
				k++
				n++
				fs, _ := flow.FieldStores(al)
				v := fs["TargetShard"]
				if v == nil {
					v = flow.StructFieldOrigin(al, "TargetShard", 0)
				}
				p := ""
				if v != nil {
					p, _ = flow.FieldPath(v)
				}
				okT := strings.HasSuffix(p, ".targetShardID")
				if base, _, isLoad := flow.FieldLoadOf(v); okT && isLoad {
					okT = flow.Strip(flow.ResolveLoad(base)) == ssa.Value(f.Params[0])
				}
				res.Check(okT, rule, fmt.Sprintf("(%s).recvAck: forwarded ack #%d is filed under the sender's own target shard", recv, k), instrPos(c.Prog, al), "RoutedAck.TargetShard = receiver's targetShardID", "the forwarded ack carries TargetShard = "+p+" instead of the target shard of the stream it arrived on: the source-side receiver files it under the wrong target - another target's level is overwritten (the minimum rises above what that target confirmed), or a phantom entry is created that no real ack ever updates and the aggregated acknowledgement stalls below the final watermark")
			}
		}
	}
	if n < 3 {
		res.Undec(rule, "forwarded acks", "", fmt.Sprintf("%d RoutedAck literals found in the senders' recvAck, 3 confirmed by hand", n))
	}
}

// shardIDRoles: which of its two shard ids a stream half must use where (reviewed table; every site listed exists on
// the current tree). kind "call": argument #arg of every call of `callee` in the function; kind "lit": field `callee`
// of every composite literal of type RoutedMessage built in the function.
var shardIDRoles = []struct {
	recv, fn, kind, callee string
	arg                    int
	want                   string
}{
	{"*proxyStreamSender", "Run", "call", "SetRemoteSendChan", 0, "targetShardID"},
	{"*proxyStreamSender", "Run", "call", "RemoveRemoteSendChan", 0, "targetShardID"},
	{"*proxyStreamSender", "Run", "call", "RegisterShard", 0, "targetShardID"},
	{"*proxyStreamSender", "Run", "call", "UnregisterShard", 0, "targetShardID"},
	{"*proxyStreamReceiver", "Run", "call", "SetLocalAckChan", 0, "sourceShardID"},
	{"*proxyStreamReceiver", "Run", "call", "SetLocalReceiverCancelFunc", 0, "sourceShardID"},
	{"*proxyStreamReceiver", "Run", "call", "RegisterActiveReceiver", 0, "sourceShardID"},
	{"*proxyStreamReceiver", "Run", "call", "TerminatePreviousLocalReceiver", 0, "sourceShardID"},
	{"*proxyStreamReceiver", "recvReplicationMessages", "lit", "SourceShard", 0, "sourceShardID"},
	{"*proxyStreamReceiver", "sendPendingWatermarkToShard", "lit", "SourceShard", 0, "sourceShardID"},
	{"*intraProxyStreamSender", "Run", "call", "RegisterSender", 1, "targetShardID"},
	{"*intraProxyStreamSender", "Run", "call", "RegisterSender", 2, "sourceShardID"},
	{"*intraProxyStreamSender", "Run", "call", "UnregisterSender", 1, "targetShardID"},
	{"*intraProxyStreamSender", "Run", "call", "UnregisterSender", 2, "sourceShardID"},
	{"*intraProxyStreamSender", "Run", "call", "GetActiveReceiver", 0, "sourceShardID"},
	{"*intraProxyStreamSender", "recvAck", "call", "DeliverAckToShardOwner", 0, "sourceShardID"},
	{"*intraProxyStreamReceiver", "Run", "call", "RegisterActiveReceiver", 0, "sourceShardID"},
	{"*intraProxyStreamReceiver", "recvReplicationMessages", "lit", "SourceShard", 0, "sourceShardID"},
	{"*intraProxyStreamReceiver", "recvReplicationMessages", "call", "GetRemoteSendChan", 0, "targetShardID"},
	{"*intraProxyStreamReceiver", "sendPendingWatermarkToShard", "lit", "SourceShard", 0, "sourceShardID"},
}

// checkShardIDRoles: both halves of a stream carry two values of the same type - the shard they read from and the
// shard they write to - and use each in fixed places: registrations, the attribution of a routed message to its
// source, the key of an ack forwarded to its source. Each listed site must use the listed field of the function's
// own receiver (also inside its function literals and deferred calls). A swap compiles, and files a channel, a
// claim or a message under the other shard.
func checkShardIDRoles(c *Ctx, res *report.Result, rule string, only func(kind, callee string) bool) {
	for _, r := range shardIDRoles {
		if only != nil && !only(r.kind, r.callee) {
			continue
		}
		f := resolve(c, res, rule, anchor{"proxy", r.recv, r.fn})
		if f == nil {
			continue
		}
		fns := append([]*ssa.Function{f}, flow.AnonFuncsDeep(f)...)
		n := 0
		check := func(v ssa.Value, at ssa.Instruction, what string) {
			n++
			p, _ := flow.FieldPath(v)
			ok := strings.HasSuffix(p, "."+r.want)
			res.Check(ok, rule, fmt.Sprintf("(%s).%s: %s #%d uses the stream's %s", r.recv, r.fn, what, n, r.want), instrPos(c.Prog, at), p, "the site uses "+p+" where the stream's "+r.want+" belongs: a same-typed shard id of the other role - the registration, message or ack is filed under the wrong shard")
		}
		for _, g := range fns {
			for _, b := range g.Blocks {
				for _, ins := range b.Instrs {
					switch r.kind {
					case "call":
						call, ok := ins.(ssa.CallInstruction)
						if !ok {
							continue
						}
						cc := call.Common()
						name := ""
						args := cc.Args
						if cc.IsInvoke() {
							name = cc.Method.Name()
						} else if sc := flow.StaticCallee(cc); sc != nil {
							name = sc.Name()
							if sc.Signature.Recv() != nil && len(args) > 0 {
								args = args[1:]
							}
						}
						if name != r.callee || r.arg >= len(args) {
							continue
						}
						check(args[r.arg], ins, "argument "+fmt.Sprint(r.arg)+" of "+r.callee)
					case "lit":
						al, ok := ins.(*ssa.Alloc)
						if !ok || !flow.NamedIs(al.Type(), proxyPkg, "RoutedMessage") {
							continue
						}
						fs, _ := flow.FieldStores(al)
						v := fs[r.callee]
						if v == nil {
							v = flow.StructFieldOrigin(al, r.callee, 0)
						}
						if v == nil {
							continue
						}
						// a copy of another message's field (msg.SourceShard of a clone) is the same attribution
						if p, _ := flow.FieldPath(v); strings.HasSuffix(p, "."+r.callee) {
							continue
						}
						check(v, ins, "RoutedMessage."+r.callee)
					}
				}
			}
		}
		if n == 0 {
			res.Undec(rule, fmt.Sprintf("(%s).%s: %s", r.recv, r.fn, r.callee), fnPos(c.Prog, f), "no such site found (the table lists one)")
		}
	}
}
