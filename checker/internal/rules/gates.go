package rules

import (
	"fmt"
	"go/token"
	"go/types"
	"strings"

	"golang.org/x/tools/go/ssa"

	"s2scheck/internal/flow"
	"s2scheck/internal/report"
)

// condClass names an elementary branch condition of an interceptor in repository terms.
//
//	nil:<field>            receiver field compared with nil; side true means "field == nil"
//	prefix:<const>         strings.HasPrefix(info.FullMethod, <const>); side true = has the prefix
//	call:<callee>          boolean result of a call
//	other
type condClass struct {
	kind  string
	arg   string
	truth bool // the outcome on this edge, normalised (nil: is-nil; prefix: has-prefix; call: result)
	val   ssa.Value
}

func (c condClass) String() string {
	return fmt.Sprintf("%s:%s=%v", c.kind, c.arg, c.truth)
}

func classifyCond(cond ssa.Value, side bool) condClass {
	for {
		if u, ok := cond.(*ssa.UnOp); ok && u.Op == token.NOT {
			cond, side = u.X, !side
			continue
		}
		break
	}
	switch x := cond.(type) {
	case *ssa.BinOp:
		if x.Op == token.NEQ || x.Op == token.EQL {
			var other ssa.Value
			if flow.IsNilConst(x.Y) {
				other = x.X
			} else if flow.IsNilConst(x.X) {
				other = x.Y
			}
			if other != nil {
				isNil := side
				if x.Op == token.NEQ {
					isNil = !side
				}
				if call, ok := other.(*ssa.Call); ok && call.Call.IsInvoke() && call.Call.Method.Name() == "Err" {
					recv := "ctx"
					if _, f, ok := flow.FieldLoadOf(call.Call.Value); ok {
						recv = f
					}
					return condClass{"ctxdone", recv, !isNil, other}
				}
				if _, f, ok := flow.FieldLoadOf(flow.ResolveLoad(other)); ok {
					return condClass{"nil", f, isNil, other}
				}
				if types.Identical(other.Type(), types.Universe.Lookup("error").Type()) {
					return condClass{"errnil", "", isNil, other}
				}
				return condClass{"nilval", other.Name(), isNil, other}
			}
		}
	case *ssa.Call:
		if flow.IsCallTo(&x.Call, "strings", "", "HasPrefix") && len(x.Call.Args) == 2 {
			if s, ok := flow.ConstString(x.Call.Args[1]); ok {
				return condClass{"prefix", s, side, x}
			}
		}
		return condClass{"call", flow.CalleeName(&x.Call), side, x}
	case *ssa.Extract:
		if c, ok := x.Tuple.(*ssa.Call); ok {
			return condClass{"call", fmt.Sprintf("%s#%d", flow.CalleeName(&c.Call), x.Index), side, x}
		}
	}
	return condClass{"other", flow.Describe(cond), side, cond}
}

func edgeClasses(from, to *ssa.BasicBlock) []condClass {
	var out []condClass
	for _, g := range flow.EdgeGuards(from, to) {
		out = append(out, classifyCond(g.Cond, g.Side))
	}
	return out
}

// handlerCalls returns the calls whose callee value is the parameter of the given named type.
func handlerParam(f *ssa.Function, pkg, typeName string) *ssa.Parameter {
	for _, p := range f.Params {
		if flow.NamedIs(p.Type(), pkg, typeName) {
			return p
		}
	}
	return nil
}

func callsOfValue(f *ssa.Function, v ssa.Value) []ssa.CallInstruction {
	return flow.FindCalls(f, func(c *ssa.CallCommon) bool { return !c.IsInvoke() && c.Value == v })
}

// gateSpec describes a check-before-forward obligation inside an interceptor.
type gateSpec struct {
	rule      string
	name      string // human name of the gate
	isGate    func(*ssa.CallCommon) bool
	resultIdx int  // index of the boolean verdict in the gate's results (-1: single result)
	allowed   bool // value of the verdict that permits forwarding
	errIdx    int  // index of the error result (-1: none)
	// bypassOK: an edge on which skipping the gate is legitimate (e.g. policy not configured,
	// method of another service). Receives the classified conditions known on that edge.
	bypassOK  func(cs []condClass) bool
	bypassDoc string
}

// checkGate verifies: (1) no path from a refusing outcome of the gate reaches the handler; (2) every
// path from entry to the handler either passes the gate or crosses a legitimate bypass edge.
func checkGate(c *Ctx, res *report.Result, f *ssa.Function, handler ssa.Value, g gateSpec) {
	hcalls := callsOfValue(f, handler)
	fname := shortFn(f)
	if len(hcalls) == 0 {
		res.Undec(g.rule, fname+": handler call", fnPos(c.Prog, f), "no call of the handler parameter found")
		return
	}
	gates := flow.FindCalls(f, g.isGate)
	if len(gates) == 0 {
		// the test may have been factored into a helper of the module: summarise the helper and use it as the gate
		if hg, ok := helperGate(c, res, f, g); ok {
			checkGate(c, res, f, handler, hg)
			return
		}
		res.Viol(g.rule, fname+": "+g.name+" consulted", fnPos(c.Prog, f), "the interceptor never calls "+g.name+": nothing stands between the caller and the handler")
		return
	}
	for _, h := range hcalls {
		hb := h.Block()
		// (1) refusing outcomes
		for _, gc := range gates {
			gv, ok := gc.(*ssa.Call)
			if !ok {
				continue
			}
			var verdict, errv ssa.Value
			if g.resultIdx < 0 {
				verdict = gv
			}
			for _, r := range *gv.Referrers() {
				if ex, ok := r.(*ssa.Extract); ok {
					if ex.Index == g.resultIdx {
						verdict = ex
					}
					if ex.Index == g.errIdx {
						errv = ex
					}
				}
			}
			tested := false
			errTested := g.errIdx < 0
			for _, b := range f.Blocks {
				iff := lastIfOf(b)
				if iff == nil || len(b.Succs) != 2 {
					continue
				}
				cond, neg := iff.Cond, false
				for {
					if u, ok := cond.(*ssa.UnOp); ok && u.Op == token.NOT {
						cond, neg = u.X, !neg
						continue
					}
					break
				}
				var bad *ssa.BasicBlock
				what := ""
				if verdict != nil && flow.ResolveLoad(cond) == verdict {
					tested = true
					// successor taken when verdict != allowed
					refuseSide := !g.allowed // value of verdict that refuses
					if neg {
						refuseSide = !refuseSide
					}
					if refuseSide {
						bad = b.Succs[0]
					} else {
						bad = b.Succs[1]
					}
					what = "the refusing outcome of " + g.name
				} else if bo, ok := cond.(*ssa.BinOp); ok && errv != nil && (bo.Op == token.NEQ || bo.Op == token.EQL) &&
					((flow.ResolveLoad(bo.X) == errv && flow.IsNilConst(bo.Y)) || (flow.ResolveLoad(bo.Y) == errv && flow.IsNilConst(bo.X))) {
					errTested = true
					isErrSide := bo.Op == token.NEQ
					if neg {
						isErrSide = !isErrSide
					}
					if isErrSide {
						bad = b.Succs[0]
					} else {
						bad = b.Succs[1]
					}
					what = "the error outcome of " + g.name
				}
				if bad == nil {
					continue
				}
				// the bad edge is b->bad; if `bad` is shared with the good side (e.g. `||` chains) the
				// block must still not reach the handler
				reach := flow.ReachBlock(bad, hb, nil)
				if bad == hb {
					reach = true
				}
				construct := fmt.Sprintf("%s: %s cannot reach the handler", fname, what)
				if reach {
					res.Viol(g.rule, construct, instrPos(c.Prog, iff), "a path leads from "+what+" to the call of the handler: the request is forwarded although it was refused")
				} else {
					res.Hold(g.rule, construct, instrPos(c.Prog, iff), "refusing side returns without reaching the handler")
				}
			}
			if !tested {
				res.Viol(g.rule, fname+": verdict of "+g.name+" is branched on", instrPos(c.Prog, gc), "the result of "+g.name+" is never tested: the check has no effect")
			}
			if !errTested {
				res.Viol(g.rule, fname+": error of "+g.name+" is branched on", instrPos(c.Prog, gc), "the error result of "+g.name+" is never tested: a failing check lets the request through")
			}
		}
		// (2) paths that avoid the gate
		isGateIns := func(ins ssa.Instruction) bool {
			call, ok := ins.(ssa.CallInstruction)
			return ok && g.isGate(call.Common())
		}
		edgeOK := func(a, b *ssa.BasicBlock) bool {
			return !g.bypassOK(edgeClasses(a, b))
		}
		r := flow.FindPath(flow.Point{Block: f.Blocks[0]}, func(x ssa.Instruction) bool { return x == ssa.Instruction(h.(*ssa.Call)) }, isGateIns, edgeOK)
		construct := fmt.Sprintf("%s: handler only after %s", fname, g.name)
		if r.Found {
			res.Viol(g.rule, construct, instrPos(c.Prog, h), "the handler can be reached without "+g.name+" on a path that crosses none of the legitimate bypass edges ("+g.bypassDoc+")", "path: "+flow.BlockPath(r.Via))
		} else {
			res.Hold(g.rule, construct, instrPos(c.Prog, h), "every path to the handler passes "+g.name+" or a legitimate bypass edge ("+g.bypassDoc+")")
		}
	}
}

func hasClass(cs []condClass, kind, arg string, truth bool) bool {
	for _, c := range cs {
		if c.kind == kind && c.truth == truth && (arg == "*" || c.arg == arg || (kind == "prefix" && strings.Contains(c.arg, arg))) {
			return true
		}
	}
	return false
}

// helperGate: f does not call the gate itself but a module function H that does. H qualifies as the gate when
// (a) one of its boolean results is a constant X on every return reachable from a refusing outcome of the inner gate
// (X = "refuse"), and (b) no return of H can yield the permitting value !X without the inner gate having permitted,
// except across a legitimate bypass edge. Then the call of H, with verdict index and polarity, is the gate of f.
func helperGate(c *Ctx, res *report.Result, f *ssa.Function, g gateSpec) (gateSpec, bool) {
	for _, call := range flow.Calls(f) {
		H := flow.StaticCallee(call.Common())
		if H == nil || H == f || H.Package() == nil || !strings.HasPrefix(H.Package().Pkg.Path(), modPath) || len(H.Blocks) == 0 {
			continue
		}
		inner := flow.FindCalls(H, g.isGate)
		if len(inner) != 1 {
			continue
		}
		gv, ok := inner[0].(*ssa.Call)
		if !ok || g.resultIdx >= 0 {
			continue
		}
		hname := shortFn(H)
		results := H.Signature.Results()
		idx := -1
		for i := 0; i < results.Len(); i++ {
			if types.Identical(results.At(i).Type().Underlying(), types.Typ[types.Bool]) {
				idx = i
			}
		}
		if idx < 0 {
			continue
		}
		// refusing edge of the inner gate inside H
		var refuseSucc *ssa.BasicBlock
		for _, b := range H.Blocks {
			iff := lastIfOf(b)
			if iff == nil || len(b.Succs) != 2 {
				continue
			}
			cond, neg := iff.Cond, false
			for {
				if u, isU := cond.(*ssa.UnOp); isU && u.Op == token.NOT {
					cond, neg = u.X, !neg
					continue
				}
				break
			}
			if flow.ResolveLoad(cond) != ssa.Value(gv) {
				continue
			}
			refuseWhenTrue := !g.allowed
			if neg {
				refuseWhenTrue = !refuseWhenTrue
			}
			if refuseWhenTrue {
				refuseSucc = b.Succs[0]
			} else {
				refuseSucc = b.Succs[1]
			}
		}
		construct := fmt.Sprintf("%s: helper %s is a faithful wrapper of %s", shortFn(f), hname, g.name)
		if refuseSucc == nil {
			res.Viol(g.rule, construct, fnPos(c.Prog, H), "the helper calls "+g.name+" but never branches on its result")
			return gateSpec{}, false
		}
		// (a) every return reachable from the refusing edge yields one constant
		var refuseVal *bool
		okConst := true
		for _, b := range H.Blocks {
			if b != refuseSucc && !flow.ReachBlock(refuseSucc, b, nil) {
				continue
			}
			if len(b.Instrs) == 0 {
				continue
			}
			ret, isR := b.Instrs[len(b.Instrs)-1].(*ssa.Return)
			if !isR {
				continue
			}
			v, isC := flow.ConstBool(flow.Ret(ret)[idx])
			if !isC {
				okConst = false
				res.Viol(g.rule, construct, instrPos(c.Prog, ret), "on the refusing outcome of "+g.name+" the helper's verdict is not a constant ("+flow.Describe(flow.Ret(ret)[idx])+"): a refused call can come back as permitted")
				continue
			}
			if refuseVal == nil {
				refuseVal = &v
			} else if *refuseVal != v {
				okConst = false
				res.Viol(g.rule, construct, instrPos(c.Prog, ret), "the refusing outcome of "+g.name+" yields different verdicts on different paths")
			}
		}
		if !okConst || refuseVal == nil {
			return gateSpec{}, false
		}
		permit := !*refuseVal
		// (b) the permitting verdict only after the inner gate or across a bypass edge
		isInner := func(x ssa.Instruction) bool { return x == ssa.Instruction(gv) }
		isPermitReturn := func(x ssa.Instruction) bool {
			ret, isR := x.(*ssa.Return)
			if !isR {
				return false
			}
			v, isC := flow.ConstBool(flow.Ret(ret)[idx])
			return !isC || v == permit
		}
		edgeOK := func(a, b *ssa.BasicBlock) bool { return !g.bypassOK(edgeClasses(a, b)) }
		if r := flow.FindPath(flow.Point{Block: H.Blocks[0]}, isPermitReturn, isInner, edgeOK); r.Found {
			res.Viol(g.rule, construct, instrPos(c.Prog, r.End), "the helper can return the permitting verdict without having consulted "+g.name+" (path "+flow.BlockPath(r.Via)+")")
			return gateSpec{}, false
		}
		res.Hold(g.rule, construct, fnPos(c.Prog, H), fmt.Sprintf("result #%d is %v exactly on the refusing outcome; the permitting value needs the inner test or a bypass edge", idx, *refuseVal))
		// the key the inner gate is consulted with is the method name of f's own call
		keyOK := false
		for _, a := range gv.Call.Args {
			mn, isC := a.(*ssa.Call)
			if !isC || !flow.IsCallTo(&mn.Call, srvPath+"/common/api", "", "MethodName") {
				continue
			}
			for k, hp := range H.Params {
				if flow.Strip(flow.ResolveLoad(mn.Call.Args[0])) == ssa.Value(hp) && k < len(call.Common().Args) {
					if p, okp := flow.FieldPath(call.Common().Args[k]); okp && strings.HasSuffix(p, ".FullMethod") {
						keyOK = true
					}
				}
			}
		}
		res.Check(keyOK, g.rule, fmt.Sprintf("%s: %s is consulted (through %s) with api.MethodName(info.FullMethod)", shortFn(f), g.name, hname), instrPos(c.Prog, call), "ok", "the list is not consulted with the method name of the call being intercepted")
		ng := g
		ng.name = hname + " (wrapping " + g.name + ")"
		ng.isGate = func(cc *ssa.CallCommon) bool { return flow.StaticCallee(cc) == H }
		ng.allowed = permit
		ng.resultIdx = idx
		if results.Len() == 1 {
			ng.resultIdx = -1
		}
		// inside f the helper is called unconditionally or behind bypass edges that the helper re-tests itself
		ng.bypassOK = func(cs []condClass) bool { return g.bypassOK(cs) }
		return ng, true
	}
	return gateSpec{}, false
}
