package rules

import (
	"fmt"
	"go/token"
	"strings"

	"golang.org/x/tools/go/ssa"

	"s2scheck/internal/flow"
	"s2scheck/internal/report"
)

func init() { Registry["C11"] = c11 }

const grpcutilPkg = modPath + "/transport/grpcutil"

func c11(c *Ctx) (*report.Result, error) {
	res := newResult("C11")
	res.RuleDoc["O11.1"] = "every change of the session table is published under the lock: each insertion/deletion on multiMuxManager.muxes lies in a write-locked section of muxesLock and is followed by notifyChange() before the section ends; notifyChange hands the table to every listener"
	res.RuleDoc["O11.2"] = "the connection map is derived from exactly that table: OnConnectionListUpdate builds a fresh map with one entry per key of the argument whose value is that element's Open method, and never retains the argument map"
	res.RuleDoc["O11.3"] = "resolver and dialer look at the same map: connMap is written only in UpdateState under the write lock, in the same section as resolver.UpdateState(deriveStateFromConns()); one endpoint per key with the key as address; the dialer reads connMap[addr] under the read lock and fails when absent; NewMultiClientConn installs exactly this resolver and dialer"
	res.RuleDoc["O11.4"] = "wiring: NewGRPCMuxManager registers the OnConnectionListUpdate of the client connection that createServer passes as managedClient"

	sp, err := c.Prog.SSAPkg("transport/mux")
	if err != nil {
		return res, err
	}
	// ---- O11.1
	nMut := 0
	for _, f := range c.Prog.RepoFuncs() {
		if f.Package() != sp || !isShippedFunc(f) {
			continue
		}
		for _, b := range f.Blocks {
			for _, ins := range b.Instrs {
				var what string
				switch x := ins.(type) {
				case *ssa.MapUpdate:
					if _, fld, ok := flow.FieldLoadOf(x.Map); ok && fld == "muxes" {
						what = "insert"
					}
				case *ssa.Call:
					if bi, ok := x.Call.Value.(*ssa.Builtin); ok && bi.Name() == "delete" {
						if _, fld, ok := flow.FieldLoadOf(x.Call.Args[0]); ok && fld == "muxes" {
							what = "delete"
						}
					}
				case *ssa.Store:
					if fa, ok := x.Addr.(*ssa.FieldAddr); ok && flow.FieldName(fa.X.Type(), fa.Field) == "muxes" {
						if _, isAlloc := fa.X.(*ssa.Alloc); !isAlloc {
							what = "replace"
						}
					}
				}
				if what == "" {
					continue
				}
				nMut++
				construct := fmt.Sprintf("%s: %s on muxes", shortFn(f), what)
				pos := instrPos(c.Prog, ins)
				if !res.Check(flow.HeldAt(f, ins, "muxesLock", true), "O11.1", construct+" under the write lock", pos, "inside a Lock(muxesLock) section", "the session table is changed outside its write lock") {
					continue
				}
				isNotify := func(x ssa.Instruction) bool {
					call, ok := x.(ssa.CallInstruction)
					return ok && flow.IsCallTo(call.Common(), muxPkg, "multiMuxManager", "notifyChange")
				}
				isSectionEnd := func(x ssa.Instruction) bool {
					if flow.IsReturn(x) {
						return true
					}
					if call, ok := x.(ssa.CallInstruction); ok {
						if _, isDefer := x.(*ssa.Defer); isDefer {
							return false
						}
						cc := call.Common()
						if cal := flow.StaticCallee(cc); cal != nil && cal.Name() == "Unlock" && len(cc.Args) > 0 {
							if p, ok := flow.FieldPath(cc.Args[0]); ok && strings.HasSuffix(p, ".muxesLock") {
								return true
							}
						}
					}
					return false
				}
				r := flow.FindPath(flow.After(ins), isSectionEnd, isNotify, nil)
				res.Check(!r.Found, "O11.1", construct+" is followed by notifyChange() before the lock is released", pos, "published in the same critical section", "the critical section can end without notifyChange(): the client connection keeps dialling a session list that no longer matches the table")
			}
		}
	}
	if nMut < 2 {
		res.Undec("O11.1", "session table mutations", "", fmt.Sprintf("%d mutation sites found, 2 confirmed by hand", nMut))
	}
	if f := resolve(c, res, "O11.1", anchor{"transport/mux", "*multiMuxManager", "notifyChange"}); f != nil {
		ok := false
		for _, call := range flow.Calls(f) {
			cc := call.Common()
			if cc.IsInvoke() || flow.StaticCallee(cc) != nil || len(cc.Args) != 1 {
				continue
			}
			// callee is an element of connectionListeners, argument is m.muxes
			if _, fld, okf := flow.FieldLoadOf(cc.Args[0]); okf && fld == "muxes" {
				if ld, isLd := cc.Value.(*ssa.UnOp); isLd {
					if ia, isIA := ld.X.(*ssa.IndexAddr); isIA {
						if _, lf, okl := flow.FieldLoadOf(ia.X); okl && lf == "connectionListeners" {
							ok = true
						}
					}
				}
			}
		}
		res.Check(ok, "O11.1", "notifyChange calls every listener with the table", fnPos(c.Prog, f), "for each listener: fn(m.muxes)", "notifyChange does not hand the current table to the listeners")
	}

	// ---- O11.2
	if f := resolve(c, res, "O11.2", anchor{"transport/grpcutil", "*MultiClientConn", "OnConnectionListUpdate"}); f != nil {
		arg := ssa.Value(f.Params[1])
		var mk *ssa.MakeMap
		var upd []*ssa.MapUpdate
		var next *ssa.Next
		for _, b := range f.Blocks {
			for _, ins := range b.Instrs {
				switch x := ins.(type) {
				case *ssa.MakeMap:
					mk = x
				case *ssa.MapUpdate:
					upd = append(upd, x)
				case *ssa.Next:
					next = x
				}
			}
		}
		ok := mk != nil && next != nil && len(upd) == 1
		why := "expected one fresh map filled by one store per ranged entry"
		if ok {
			rg, _ := next.Iter.(*ssa.Range)
			if rg == nil || rg.X != arg {
				ok, why = false, "the loop does not range over the argument table"
			}
			u := upd[0]
			if u.Map != ssa.Value(mk) {
				ok, why = false, "the store does not go into the fresh map"
			}
			if ex, isEx := u.Key.(*ssa.Extract); !isEx || ex.Tuple != ssa.Value(next) || ex.Index != 1 {
				ok, why = false, "the entry's key is not the table's key"
			}
			recv, name, isBM := flow.BoundMethod(u.Value)
			if !isBM || name != "Open" {
				// interface method value: MakeClosure of an interface method wrapper
				if mc, isMC := flow.Strip(u.Value).(*ssa.MakeClosure); isMC {
					if fn, isFn := mc.Fn.(*ssa.Function); isFn && strings.HasPrefix(fn.Name(), "Open") && len(mc.Bindings) == 1 {
						recv, isBM = mc.Bindings[0], true
					}
				}
			}
			if !isBM {
				ok, why = false, "the entry's value is not the Open method of the ranged session"
			} else if ex, isEx := flow.Strip(recv).(*ssa.Extract); !isEx || ex.Tuple != ssa.Value(next) || ex.Index != 2 {
				ok, why = false, "the Open method is not taken from the entry's own session"
			}
		}
		res.Check(ok, "O11.2", "OnConnectionListUpdate: fresh map, one entry per table key, value = that session's Open", fnPos(c.Prog, f), "connMap[k] = v.Open for k, v := range muxes", why)
		if ok {
			// no registered session is filtered out: from the loop body no path returns to the loop head without
			// the store (a filter on a cached health snapshot, say, shrinks the endpoint set below the registered set,
			// and nothing republishes the table when the snapshot changes)
			head := next.Block()
			isUpd := func(ins ssa.Instruction) bool { _, isU := ins.(*ssa.MapUpdate); return isU }
			isHead := func(ins ssa.Instruction) bool { return ins == ssa.Instruction(next) }
			if len(head.Succs) == 2 {
				r := flow.FindPath(flow.Point{Block: head.Succs[0]}, isHead, isUpd, nil)
				res.Check(!r.Found, "O11.2", "OnConnectionListUpdate: every registered session becomes an endpoint", instrPos(c.Prog, next), "no path through the loop body skips the store", "a registered session can be left out of the endpoint set (path "+flow.BlockPath(r.Via)+"): the dialable set is then smaller than the registered set until some unrelated table change")
			}
		}
		// the argument map itself is never retained
		retained := ""
		for _, r := range *f.Params[1].Referrers() {
			switch x := r.(type) {
			case *ssa.Store:
				retained = "stored at " + instrPos(c.Prog, x)
			case ssa.CallInstruction:
				if bi, isB := x.Common().Value.(*ssa.Builtin); isB && (bi.Name() == "len") {
					continue
				}
				retained = "passed to " + flow.CalleeName(x.Common()) + " at " + instrPos(c.Prog, x)
			case *ssa.MakeInterface, *ssa.ChangeType:
				retained = "converted and possibly retained at " + instrPos(c.Prog, x.(ssa.Instruction))
			}
		}
		{
			isUpd := func(x ssa.Instruction) bool {
				call, ok := x.(ssa.CallInstruction)
				if !ok {
					return false
				}
				sc := flow.StaticCallee(call.Common())
				return sc != nil && sc.Name() == "UpdateState"
			}
			pr := flow.FindPath(flow.Point{Block: f.Blocks[0]}, flow.IsReturn, isUpd, nil)
			res.Check(!pr.Found, "O11.2", "OnConnectionListUpdate: every table change is published", fnPos(c.Prog, f), "every path calls UpdateState (also for the empty table)", "a change of the session table can go unpublished (path "+flow.BlockPath(pr.Via)+"): when the last session is removed the connection map keeps it, and RPCs are dialled over a dead session")
		}
		res.Check(retained == "", "O11.2", "OnConnectionListUpdate: the manager's live table is not retained", fnPos(c.Prog, f), "only ranged over and measured", "the manager's own map is "+retained+": the dialer would observe unpublished states of the table")
		// what is handed to UpdateState is the fresh map (or nil for the empty table)
		for _, call := range flow.FindCalls(f, func(cc *ssa.CallCommon) bool { return flow.IsCallTo(cc, grpcutilPkg, "MultiClientConn", "UpdateState") }) {
			a := call.Common().Args[1]
			good := a == ssa.Value(mk) || flow.IsNilConst(a)
			if flow.IsNilConst(a) {
				// only for the empty table
				emptyGuard := false
				for _, g := range flow.NormGuards(flow.Guards(call.Block())) {
					if bo, isB := g.Cond.(*ssa.BinOp); isB && bo.Op == token.EQL && g.Side {
						if n, isN := flow.ConstInt(bo.Y); isN && n == 0 {
							emptyGuard = true
						}
					}
				}
				good = emptyGuard
			}
			res.Check(good, "O11.2", fmt.Sprintf("OnConnectionListUpdate: UpdateState receives the derived map (call in block %d)", call.Block().Index), instrPos(c.Prog, call), "ok", "UpdateState is given something other than the map derived from the table")
		}
	}

	// ---- O11.3
	gp, err := c.Prog.SSAPkg("transport/grpcutil")
	if err != nil {
		return res, err
	}
	nStores := 0
	for _, f := range c.Prog.RepoFuncs() {
		if f.Package() != gp {
			continue
		}
		for _, b := range f.Blocks {
			for _, ins := range b.Instrs {
				st, ok := ins.(*ssa.Store)
				if !ok {
					continue
				}
				fa, ok := st.Addr.(*ssa.FieldAddr)
				if !ok || flow.FieldName(fa.X.Type(), fa.Field) != "connMap" {
					continue
				}
				nStores++
				construct := shortFn(f) + ": write of connMap"
				isUpd := f.Name() == "UpdateState"
				res.Check(isUpd && flow.HeldAt(f, st, "connMapLock", true), "O11.3", construct+" only in UpdateState under the write lock", instrPos(c.Prog, st), "ok", "connMap is written outside UpdateState's write-locked section")
				if isUpd {
					// resolver update in the same section, after the store
					okRes := false
					for _, call := range flow.Calls(f) {
						cc := call.Common()
						if cal := flow.StaticCallee(cc); cal != nil && cal.Name() == "UpdateState" && strings.Contains(flow.FuncName(cal), "resolver/manual") {
							if flow.InstrDominates(st, call) && flow.HeldAt(f, call, "connMapLock", true) {
								if dc, isC := cc.Args[1].(*ssa.Call); isC && flow.IsCallTo(&dc.Call, grpcutilPkg, "MultiClientConn", "deriveStateFromConns") {
									okRes = true
								}
							}
						}
					}
					// every update is applied - the empty one included (OnConnectionListUpdate reports "no session left" as nil):
					// no path from entry to a return avoids the store
					rr := flow.FindPath(flow.Point{Block: f.Blocks[0]}, flow.IsReturn, func(x ssa.Instruction) bool { return x == ssa.Instruction(st) }, nil)
					res.Check(!rr.Found, "O11.3", "UpdateState: every update replaces connMap (the empty one too)", instrPos(c.Prog, st), "no path to a return skips the store", "UpdateState can return without replacing connMap (path "+flow.BlockPath(rr.Via)+"): e.g. a guard against a nil map drops the 'no session left' update, so the last endpoint stays dialable and CanMakeCalls() stays true although nothing is registered")
					res.Check(okRes, "O11.3", "UpdateState: resolver updated from the new map in the same critical section", instrPos(c.Prog, st), "resolver.UpdateState(deriveStateFromConns()) after connMap = conns, lock held", "the resolver is not updated from the new map inside the same write-locked section: endpoints and dialer map can disagree")
				}
			}
		}
	}
	if nStores == 0 {
		res.Undec("O11.3", "connMap writes", "", "no write of connMap found")
	}
	if f := resolve(c, res, "O11.3", anchor{"transport/grpcutil", "*MultiClientConn", "deriveStateFromConns"}); f != nil {
		// one endpoint per key, address = key
		ok := false
		var next *ssa.Next
		for _, b := range f.Blocks {
			for _, ins := range b.Instrs {
				if n, isN := ins.(*ssa.Next); isN {
					if rg, isR := n.Iter.(*ssa.Range); isR {
						if _, fld, okf := flow.FieldLoadOf(rg.X); okf && fld == "connMap" {
							next = n
						}
					}
				}
			}
		}
		if next != nil {
			for _, b := range f.Blocks {
				for _, ins := range b.Instrs {
					if st, isSt := ins.(*ssa.Store); isSt {
						if fa, isFA := st.Addr.(*ssa.FieldAddr); isFA && flow.FieldName(fa.X.Type(), fa.Field) == "Addr" {
							if ex, isEx := st.Val.(*ssa.Extract); isEx && ex.Tuple == ssa.Value(next) && ex.Index == 1 {
								ok = true
							}
						}
					}
				}
			}
		}
		res.Check(ok, "O11.3", "deriveStateFromConns: one endpoint per key, address = key", fnPos(c.Prog, f), "ok", "the resolver state is not one endpoint per connMap key addressed by that key")
		// length of Endpoints = len(connMap)
	}
	if f := resolve(c, res, "O11.3", anchor{"transport/grpcutil", "*MultiClientConn", "getMapDialer"}); f != nil && len(f.AnonFuncs) == 1 {
		d := f.AnonFuncs[0]
		var lk *ssa.Lookup
		for _, b := range d.Blocks {
			for _, ins := range b.Instrs {
				if l, isL := ins.(*ssa.Lookup); isL && l.CommaOk {
					if _, fld, okf := flow.FieldLoadOf(l.X); okf && fld == "connMap" {
						lk = l
					}
				}
			}
		}
		ok := lk != nil && lk.Index == ssa.Value(d.Params[1])
		why := "the dialer does not look its address up in connMap"
		if ok {
			// read lock held at the lookup
			if !flow.HeldAt(d, lk, "connMapLock", false) {
				ok, why = false, "connMap is read without the lock"
			}
			// absent -> error
			var found ssa.Value
			for _, r := range *lk.Referrers() {
				if ex, isEx := r.(*ssa.Extract); isEx && ex.Index == 1 {
					found = ex
				}
			}
			errOnAbsent := false
			for _, b := range d.Blocks {
				for _, g := range flow.NormGuards(flow.Guards(b)) {
					if g.Cond == found && !g.Side {
						for _, ins := range b.Instrs {
							if ret, isR := ins.(*ssa.Return); isR && !flow.IsNilConst(flow.Ret(ret)[1]) && flow.IsNilConst(flow.Ret(ret)[0]) {
								errOnAbsent = true
							}
						}
					}
				}
			}
			// fallthrough form: the absent side is the join after `if exists {return connFn()}`
			if !errOnAbsent {
				for _, b := range d.Blocks {
					for _, ins := range b.Instrs {
						if ret, isR := ins.(*ssa.Return); isR && !flow.IsNilConst(flow.Ret(ret)[1]) && flow.IsNilConst(flow.Ret(ret)[0]) {
							// reachable only via the not-found edge
							reachViaFound := false
							for _, bb := range d.Blocks {
								if iff := lastIfOf(bb); iff != nil && iff.Cond == found {
									if flow.ReachBlock(bb.Succs[0], b, nil) {
										reachViaFound = true
									}
								}
							}
							if !reachViaFound {
								errOnAbsent = true
							}
						}
					}
				}
			}
			if !errOnAbsent {
				ok, why = false, "an address that is not in connMap does not yield an error"
			}
		}
		res.Check(ok, "O11.3", "dialer: connMap[addr] under the read lock, error when absent", fnPos(c.Prog, d), "ok", why)
		// the session's Open (a call through the looked-up function value) runs outside the lock: a dial that hangs on
		// a stalled session would otherwise hold the read lock, the next UpdateState (write lock, called by the manager
		// under its table lock) would queue behind it, and with a writer waiting every other dial blocks too
		for _, sec := range flow.Sections(d) {
			if sec.Lock.Field != "connMapLock" {
				continue
			}
			bad := ""
			for _, ins := range sec.Instrs {
				call, isCall := ins.(ssa.CallInstruction)
				if !isCall {
					continue
				}
				if _, isDefer := ins.(*ssa.Defer); isDefer {
					continue
				}
				cc := call.Common()
				if cc.IsInvoke() || flow.StaticCallee(cc) != nil {
					continue
				}
				if _, isB := cc.Value.(*ssa.Builtin); isB {
					continue
				}
				bad = instrPos(c.Prog, ins)
			}
			res.Check(bad == "", "O11.3", "dialer: the session is opened after connMapLock was released", instrPos(c.Prog, sec.Lock.Instr), "no call through a function value inside the section", "the looked-up connection function is called at "+bad+" while connMapLock is still read-locked: a hanging Open() blocks the next session-list update (and, behind the waiting writer, every other dial), so new sessions cannot be dialled and dead ones are not dropped")
		}
	}
	if f := resolve(c, res, "O11.3", anchor{"transport/grpcutil", "", "NewMultiClientConn"}); f != nil {
		okR, okD := false, false
		for _, call := range flow.Calls(f) {
			cc := call.Common()
			if flow.IsCallTo(cc, grpcPkg, "", "WithResolvers") {
				for _, alt := range flow.SliceSeqs(cc.Args[0]) {
					for _, e := range alt.Elems {
						if _, fld, okf := flow.FieldLoadOf(flow.Strip(e)); okf && fld == "resolver" {
							okR = true
						}
					}
				}
			}
			if flow.IsCallTo(cc, grpcPkg, "", "WithContextDialer") {
				if dc, isC := flow.Strip(cc.Args[0]).(*ssa.Call); isC && flow.IsCallTo(&dc.Call, grpcutilPkg, "MultiClientConn", "getMapDialer") {
					okD = true
				}
			}
		}
		res.Check(okR && okD, "O11.3", "NewMultiClientConn installs its own resolver and map dialer", fnPos(c.Prog, f), "WithResolvers(mcc.resolver), WithContextDialer(mcc.getMapDialer())", "the client connection is not built on the resolver/dialer pair that share connMap")
	}

	// ---- O11.4
	if f := resolve(c, res, "O11.4", anchor{"transport/mux", "", "NewGRPCMuxManager"}); f != nil {
		ok := false
		for _, call := range flow.FindCalls(f, func(cc *ssa.CallCommon) bool { return flow.IsCallTo(cc, muxPkg, "", "NewCustomMultiMuxManager") }) {
			for _, a := range call.Common().Args {
				for _, alt := range flow.SliceSeqs(a) {
					for _, e := range alt.Elems {
						if mc, isMC := flow.Strip(e).(*ssa.MakeClosure); isMC && len(mc.Bindings) == 1 {
							if fn, isFn := mc.Fn.(*ssa.Function); isFn && strings.HasPrefix(fn.Name(), "OnConnectionListUpdate") && mc.Bindings[0] == ssa.Value(f.Params[3]) {
								ok = true
							}
						}
					}
				}
			}
		}
		res.Check(ok, "O11.4", "NewGRPCMuxManager registers listener.OnConnectionListUpdate", fnPos(c.Prog, f), "ok", "the mux manager does not notify the given client connection about session changes")
	}
	if f := resolve(c, res, "O11.4", anchor{"proxy", "", "createServer"}); f != nil {
		ok := false
		for _, call := range flow.FindCalls(f, func(cc *ssa.CallCommon) bool { return flow.IsCallTo(cc, muxPkg, "", "NewGRPCMuxManager") }) {
			a := flow.Strip(call.Common().Args[3])
			if ta, isTA := a.(*ssa.TypeAssert); isTA {
				if p, okp := flow.FieldPath(ta.X); okp && strings.HasSuffix(p, ".managedClient") {
					ok = true
				}
			}
		}
		res.Check(ok, "O11.4", "createServer hands managedClient to the mux manager as listener", fnPos(c.Prog, f), "c.managedClient.(*MultiClientConn)", "the mux manager is wired to a different client connection than the one the opposite server forwards on")
	}
	if ncc := resolve(c, res, "O11.4", anchor{"proxy", "", "NewClusterConnection"}); ncc != nil {
		// remote-facing server (mux to the remote) manages the client that talks to the remote: managedClient = outboundClient
		lits := serverConfigLiterals(ncc)
		for _, l := range lits {
			mc, _ := flow.FieldPath(l.fields["managedClient"])
			cl, _ := flow.FieldPath(l.fields["client"])
			want := map[string][2]string{"remote": {"outboundClient", "inboundClient"}, "local": {"inboundClient", "outboundClient"}}[l.facing]
			res.Check(strings.HasSuffix(mc, want[0]) && strings.HasSuffix(cl, want[1]), "O11.4", "NewClusterConnection: "+l.facing+"-facing server manages the client of the same peer", instrPos(c.Prog, l.cell),
				"managedClient="+mc+", client="+cl, "the server whose mux sessions connect to the "+l.facing+" cluster must feed the client connection that dials the "+l.facing+" cluster (managedClient="+mc+", client="+cl+")")
		}
	}
	res.Explanation = "SSA of transport/mux.multiMuxManager (every mutation of the session table, the critical section it lies in and the notifyChange that must follow before the section ends), of grpcutil.MultiClientConn (how the connection map is derived from the table, who writes it, under which lock, and that resolver and dialer are fed from it in one critical section) and of the wiring in NewGRPCMuxManager / createServer / NewClusterConnection. Decides that after every applied update the dialable endpoint set equals the registered session set by construction; does not decide gRPC's balancer fail-over or outcomes of in-flight RPCs."
	res.Assumptions = []string{"grpc manual resolver and custom dialer semantics", "listeners run synchronously inside notifyChange"}
	res.RuleDoc["O11.5"] = "no blocking operation under the client connection's or the session table's locks except the reviewed ones (closing sessions during the shutdown sweep / of a session that arrives after shutdown): dialling, stream I/O, waits and calls through function values happen outside connMapLock and muxesLock"
	{
		var pk []*ssa.Package
		for _, rel := range []string{"transport/grpcutil", "transport/mux", "transport/mux/session"} {
			if spk, err := c.Prog.SSAPkg(rel); err == nil {
				pk = append(pk, spk)
			}
		}
		n := checkNoBlockingUnderLock(c, res, "O11.5", pk, func(string, string) bool { return true }, muxLockAllowed)
		if n < 5 {
			res.Undec("O11.5", "critical sections of the mux and client-connection packages", "", fmt.Sprintf("%d sections found", n))
		}
	}
	res.RuleDoc["O11.6"] = "endpoint addresses are never reused while the manager lives (same analysis as O10.7): the session id is the table key, the gRPC endpoint address and the key its cleanup deletes - an id that repeats makes a replacement overwrite a live session, and that session's later cleanup removes the replacement"
	checkSessionIDs(c, res, "O11.6")
	res.RuleDoc["O11.8"] = "locks are paired (same analysis as O8.13): every Lock / RLock of the transport packages is released on every way out of its function and every Unlock is preceded by its Lock - a leaked session-table or connection-map lock parks every later session change and dial"
	checkLockPairing(c, res, "O11.8", []string{"transport/grpcutil", "transport/mux"}, 8)
	res.RuleDoc["O11.12"] = "a dead session is always deregistered: waitAndCleanup runs the shutdown callback on every path, whatever state the health check left the session in (the waitAndCleanup obligations of O10.2, imported) - the callback is what removes the session from the manager's table and so from the client connection's endpoints; a callback that runs only on the Connected -> Closed transition leaves a session that last failed a ping registered and dialable after it died"
	if r10, err := Registry["C10"](c); err == nil && r10 != nil {
		if n := importObligations(res, r10, "O11.12", func(o report.Obligation) bool {
			return o.Rule == "O10.2" && strings.Contains(o.Construct, "waitAndCleanup")
		}); n < 4 {
			res.Undec("O11.12", "waitAndCleanup obligations of O10.2", "", fmt.Sprintf("%d imported, at least 4 expected", n))
		}
	} else {
		res.Undec("O11.12", "waitAndCleanup obligations of O10.2", "", "C10 rule set failed")
	}
	res.RuleDoc["O11.11"] = "a session whose peer vanished without a FIN stops being an endpoint: both yamux session factories hand yamux a config with keep-alive enabled (same analysis as O10.12) - the keep-alive loop is the only code that closes such a session, and closing is what deregisters it, updates the client's endpoints and frees the slot; the health check and the observer only record state"
	checkYamuxKeepAlive(c, res, "O11.11")
	res.RuleDoc["O11.10"] = "a session whose peer never answered is not published: every function of the module that returns its named error result has assigned it somewhere (an inner `err :=` shadows it otherwise and the function reports success whatever its calls returned - the provider's first ping is what keeps a dead connection from becoming an endpoint)"
	checkNamedErrorResultAssigned(c, res, "O11.10", 4)
	res.RuleDoc["O11.9"] = "no session, no waiting: the module does not switch its calls to wait-for-ready (no grpc.WaitForReady(true) among the default call options), so an RPC made while the session set is empty returns Unavailable at once"
	checkNoWaitForReady(c, res, "O11.9")
	res.RuleDoc["O11.7"] = "no swallowed error in the files the mechanism lives in: no function returns a nil error on a path on which an error obtained from a call is known to be non-nil (io.EOF from a stream Recv, the normal end of a receive loop, is the one accepted idiom)"
	checkNoSwallowedErrors(c, res, "O11.7", []string{"transport/grpcutil/multi_client_conn.go", "transport/mux/multi_mux_manager.go"})
	return res, nil
}

// muxLockAllowed: blocking operations under the mux packages' locks that were reviewed (shared by C10 and C11).
var muxLockAllowed = map[string]string{
	"(*transport/mux.multiMuxManager).AddConnection [muxesLock]: call (*github.com/hashicorp/yamux.Session).Close": "shutdown branch only: the late session is closed instead of being dropped (F7); Close does not wait for the peer",
	"(*transport/mux.multiMuxManager).AddConnection [muxesLock]: invoke Close":                                     "shutdown branch only: the late connection is closed (F7)",
	"(*transport/mux.multiMuxManager).onClose [muxesLock]: invoke Close":                                           "shutdown sweep: sessions are closed under the table lock so that none can be added in between (O10.5); ManagedMuxSession.Close only trips the session's latch",
}
