package rules

import (
	"fmt"
	"go/token"
	"go/types"
	"sort"
	"strings"

	"golang.org/x/tools/go/ssa"

	"s2scheck/internal/flow"
	"s2scheck/internal/report"
)

// guardedBy: the reviewed pairing of shared registry fields with the mutex that protects them (inferred from the
// accesses - every one of them is made under that mutex on the current tree - confirmed by reading, and frozen here).
var guardedBy = map[string]map[string]string{
	"shardManagerImpl": {
		"localShards":              "mutex",
		"activeReceivers":          "activeReceiversMu",
		"remoteSendChannels":       "remoteSendChannelsMu",
		"localAckChannels":         "localAckChannelsMu",
		"localReceiverCancelFuncs": "localReceiverCancelFuncsMu",
		"remoteNodeStates":         "remoteNodeStatesMu",
	},
	"intraProxyManager": {
		"peers": "streamsMu",
	},
}

// checkGuardedFields: every access of a registry map (the load of the field and every operation on the loaded map:
// lookup, update, delete, range step, len) outside constructors is made while the paired mutex is held - writes
// under the write lock. An unguarded map access races with the writers (Go aborts the process on a concurrent map
// write), and a Lock without its map access, or an access after the Unlock, is how a removed Lock()/defer shows up.
func checkGuardedFields(c *Ctx, res *report.Result, rule string, pkgRel string, minAccesses int) {
	sp, err := c.Prog.SSAPkg(pkgRel)
	if err != nil {
		res.Undec(rule, pkgRel, "", err.Error())
		return
	}
	n := 0
	var fs []*ssa.Function
	for _, f := range c.Prog.RepoFuncs() {
		if f.Package() == sp && isShippedFunc(f) && len(f.Blocks) > 0 {
			fs = append(fs, f)
		}
	}
	sort.Slice(fs, func(i, j int) bool { return fs[i].String() < fs[j].String() })
	type key struct{ fn, what string }
	seen := map[key]int{}
	for _, f := range fs {
		for _, b := range f.Blocks {
			for _, ins := range b.Instrs {
				fa, ok := ins.(*ssa.FieldAddr)
				if !ok {
					continue
				}
				nt := namedOf(fa.X.Type())
				if nt == nil {
					continue
				}
				tbl, ok := guardedBy[nt.Obj().Name()]
				if !ok || nt.Obj().Pkg() != sp.Pkg {
					continue
				}
				fname := flow.FieldName(fa.X.Type(), fa.Field)
				mutex, ok := tbl[fname]
				if !ok {
					continue
				}
				if _, fresh := fa.X.(*ssa.Alloc); fresh {
					continue // under construction
				}
				check := func(at ssa.Instruction, write bool, kind string) {
					n++
					k := key{shortFn(f), kind + " of " + nt.Obj().Name() + "." + fname}
					seen[k]++
					construct := fmt.Sprintf("%s: %s under %s (#%d)", k.fn, k.what, mutex, seen[k])
					if !flow.HeldAt(f, at, mutex, write) && callersHold(c, f, mutex, write, 0) {
						res.Hold(rule, construct, instrPos(c.Prog, at), "every call site of "+shortFn(f)+" lies inside a critical section of "+mutex)
						return
					}
					res.Check(flow.HeldAt(f, at, mutex, write), rule, construct, instrPos(c.Prog, at), "inside a critical section of "+mutex, "the registry is accessed without holding "+nt.Obj().Name()+"."+mutex+" (a Lock was dropped, or the access moved past the Unlock): it races with the registrations and removals of other streams - a concurrent map write aborts the process, a torn read hands a message to the wrong or a dead incarnation")
				}
				for _, r := range *fa.Referrers() {
					switch x := r.(type) {
					case *ssa.Store:
						if x.Addr == ssa.Value(fa) {
							check(x, true, "replacement")
						}
					case *ssa.UnOp:
						check(x, false, "load")
						if _, isMap := x.Type().Underlying().(*types.Map); !isMap || x.Referrers() == nil {
							continue
						}
						for _, u := range *x.Referrers() {
							switch y := u.(type) {
							case *ssa.MapUpdate:
								if y.Map == ssa.Value(x) {
									check(y, true, "update")
								}
							case *ssa.Lookup:
								check(y, false, "lookup")
							case *ssa.Range:
								check(y, false, "range")
								for _, nr := range *y.Referrers() {
									if nx, isNx := nr.(*ssa.Next); isNx {
										check(nx, false, "range step")
									}
								}
							case *ssa.Call:
								if bi, isB := y.Call.Value.(*ssa.Builtin); isB {
									switch bi.Name() {
									case "delete":
										check(y, true, "delete")
									case "len":
										check(y, false, "len")
									}
								}
							}
						}
					}
				}
			}
		}
	}
	if n < minAccesses {
		res.Undec(rule, "accesses of the guarded registries", "", fmt.Sprintf("%d found, at least %d expected", n, minAccesses))
	}
}

// callersHold: f has call sites in the shipped code and every one of them lies inside a critical section of the
// mutex (or in a function of which the same holds, two levels at most) - the `...Locked` helper convention.
func callersHold(c *Ctx, f *ssa.Function, mutex string, write bool, depth int) bool {
	if depth > 2 {
		return false
	}
	sites := 0
	for _, g := range c.Prog.RepoFuncs() {
		if !isShippedFunc(g) {
			continue
		}
		for _, call := range flow.Calls(g) {
			if flow.StaticCallee(call.Common()) != f {
				continue
			}
			if _, isGo := call.(*ssa.Go); isGo {
				return false
			}
			sites++
			if !flow.HeldAt(g, call, mutex, write) && !callersHold(c, g, mutex, write, depth+1) {
				return false
			}
		}
	}
	return sites > 0
}

// checkLockPairing: in the given packages every Lock / RLock is released on every way out of the function (an
// Unlock on the path, or a deferred one registered before the exit), and every Unlock / RUnlock (deferred or not)
// releases a lock the function took. A lock that is not released parks every later user of the registry; an Unlock
// without its Lock is a fatal runtime error ("unlock of unlocked mutex") that no recover catches.
func checkLockPairing(c *Ctx, res *report.Result, rule string, pkgRels []string, minSections int) {
	n := 0
	var bad []string
	badPos := ""
	for _, rel := range pkgRels {
		sp, err := c.Prog.SSAPkg(rel)
		if err != nil {
			res.Undec(rule, rel, "", err.Error())
			continue
		}
		var fs []*ssa.Function
		for _, f := range c.Prog.RepoFuncs() {
			if f.Package() == sp && isShippedFunc(f) && len(f.Blocks) > 0 {
				fs = append(fs, f)
			}
		}
		sort.Slice(fs, func(i, j int) bool { return fs[i].String() < fs[j].String() })
		for _, f := range fs {
			secs := flow.Sections(f)
			released := map[ssa.Instruction]bool{}
			for _, sec := range secs {
				n++
				if sec.LeaksAt != nil {
					bad = append(bad, fmt.Sprintf("%s: %s %s taken at %s is still held at the exit at %s", shortFn(f), sec.Lock.Op, sec.Lock.Key, instrPos(c.Prog, sec.Lock.Instr), instrPos(c.Prog, sec.LeaksAt)))
					if badPos == "" {
						badPos = instrPos(c.Prog, sec.Lock.Instr)
					}
				}
				for _, u := range sec.Unlocks {
					released[u] = true
				}
				if sec.Deferred != nil {
					released[sec.Deferred] = true
				}
			}
			for _, op := range flow.MutexOps(f) {
				if op.Op != "Unlock" && op.Op != "RUnlock" {
					continue
				}
				if released[op.Instr] {
					continue
				}
				// (unlocks inside function literals are out of reach: their lock is taken by the enclosing function)
				if f.Parent() == nil {
					bad = append(bad, fmt.Sprintf("%s: %s of %s at %s is not preceded by a matching Lock on its path", shortFn(f), op.Op, op.Key, instrPos(c.Prog, op.Instr)))
					if badPos == "" {
						badPos = instrPos(c.Prog, op.Instr)
					}
				}
			}
		}
	}
	construct := "every Lock is released on every exit and every Unlock releases a lock that was taken"
	if len(bad) > 0 {
		res.Viol(rule, construct, badPos, strings.Join(bad, "; ")+" - a leaked lock parks every later registration, delivery and removal; an unmatched Unlock is a fatal error that ends the process")
	} else {
		res.Hold(rule, construct, "", fmt.Sprintf("%d critical sections examined", n))
	}
	if n < minSections {
		res.Undec(rule, "critical sections", "", fmt.Sprintf("%d found, at least %d expected", n, minSections))
	}
}

// registryAccessors: what each accessor of the shard manager's registries must do, by name (reviewed).
var registryAccessors = []struct {
	fn, kind, field string
}{
	{"SetRemoteSendChan", "store", "remoteSendChannels"},
	{"SetLocalAckChan", "store", "localAckChannels"},
	{"SetLocalReceiverCancelFunc", "store", "localReceiverCancelFuncs"},
	{"RegisterActiveReceiver", "store", "activeReceivers"},
	{"RemoveRemoteSendChan", "delete", "remoteSendChannels"},
	{"RemoveLocalAckChan", "delete", "localAckChannels"},
	{"RemoveLocalReceiverCancelFunc", "delete", "localReceiverCancelFuncs"},
	{"UnregisterActiveReceiver", "delete", "activeReceivers"},
	{"setOnPeerJoin", "field", "onPeerJoin"},
	{"setOnPeerLeave", "field", "onPeerLeave"},
	{"setOnLocalShardChange", "field", "onLocalShardChange"},
	{"setOnRemoteShardChange", "field", "onRemoteShardChange"},
}

// checkRegistryAccessors: the registry accessors do what the incarnations rely on: a Set / Register stores its
// value parameter under its key parameter on every path; a Remove / Unregister contains the delete of its key
// parameter (when it may run is O8.1); a callback setter stores its handler parameter in its field. An accessor
// that silently does nothing leaves the newest stream unregistered (no delivery or ack channel, no replay) or a dead
// one registered for ever.
func checkRegistryAccessors(c *Ctx, res *report.Result, rule string) {
	for _, a := range registryAccessors {
		f := resolve(c, res, rule, anchor{"proxy", "*shardManagerImpl", a.fn})
		if f == nil {
			continue
		}
		isParam := func(v ssa.Value) bool {
			_, ok := flow.Strip(v).(*ssa.Parameter)
			return ok
		}
		switch a.kind {
		case "store":
			isStore := func(x ssa.Instruction) bool {
				mu, ok := x.(*ssa.MapUpdate)
				if !ok {
					return false
				}
				_, fld, okf := flow.FieldLoadOf(mu.Map)
				if !okf || fld != a.field || !isParam(mu.Key) {
					return false
				}
				if isParam(mu.Value) {
					return true
				}
				// an entry struct built from the parameters (the value together with its owner)
				if ld, isLd := mu.Value.(*ssa.UnOp); isLd && ld.Op == token.MUL {
					if al, isAl := ld.X.(*ssa.Alloc); isAl {
						fields, multi := flow.FieldStores(al)
						okAll := len(fields) > 0
						for name, v := range fields {
							if multi[name] || !isParam(v) {
								okAll = false
							}
						}
						return okAll
					}
				}
				return false
			}
			r := flow.FindPath(flow.Point{Block: f.Blocks[0]}, flow.IsReturn, isStore, nil)
			res.Check(!r.Found, rule, a.fn+" stores its value under its key in "+a.field, fnPos(c.Prog, f), "every path passes "+a.field+"[key] = value (both parameters)", "the accessor can return without registering (path "+flow.BlockPath(r.Via)+"): the newest incarnation's channel / cancel function / receiver is never found by the others")
		case "delete":
			n := 0
			for _, call := range flow.Calls(f) {
				bi, ok := call.Common().Value.(*ssa.Builtin)
				if !ok || bi.Name() != "delete" {
					continue
				}
				_, fld, okf := flow.FieldLoadOf(call.Common().Args[0])
				if okf && fld == a.field && isParam(call.Common().Args[1]) {
					n++
				}
			}
			res.Check(n >= 1, rule, a.fn+" contains the delete of its key from "+a.field, fnPos(c.Prog, f), "delete("+a.field+", key)", "the accessor never removes anything: a dead incarnation stays registered after all streams have ended")
		case "field":
			isStore := func(x ssa.Instruction) bool {
				st, ok := x.(*ssa.Store)
				if !ok {
					return false
				}
				fa, ok := st.Addr.(*ssa.FieldAddr)
				return ok && flow.FieldName(fa.X.Type(), fa.Field) == a.field && isParam(st.Val)
			}
			r := flow.FindPath(flow.Point{Block: f.Blocks[0]}, flow.IsReturn, isStore, nil)
			res.Check(!r.Found, rule, a.fn+" installs the handler it is given", fnPos(c.Prog, f), "every path stores the parameter in "+a.field, "the setter can return without installing the callback (path "+flow.BlockPath(r.Via)+"): shard changes are then not acted upon (no watermark replay, no reconciliation of intra-proxy streams)")
		}
	}
}

// checkSendChansByClusterFilter: GetRemoteSendChansByCluster copies exactly the entries of remoteSendChannels whose
// key's ClusterID equals the requested cluster: the one store into the result is keyed and valued by the range
// element and guarded by `k.ClusterID == clusterID` on its true side, and by nothing else. This is the target list of
// the watermark fan-out (O1.4 / O3.5).
func checkSendChansByClusterFilter(c *Ctx, res *report.Result, rule string) {
	f := resolve(c, res, rule, anchor{"proxy", "*shardManagerImpl", "GetRemoteSendChansByCluster"})
	if f == nil {
		return
	}
	var upd *ssa.MapUpdate
	for _, b := range f.Blocks {
		for _, ins := range b.Instrs {
			if mu, ok := ins.(*ssa.MapUpdate); ok {
				if _, isMk := mu.Map.(*ssa.MakeMap); isMk {
					upd = mu
				}
			}
		}
	}
	construct := "GetRemoteSendChansByCluster returns exactly the channels of the requested cluster"
	if upd == nil {
		res.Viol(rule, construct, fnPos(c.Prog, f), "nothing is ever put into the result: the watermark fan-out has no targets")
		return
	}
	ok, why := false, "the copy is not guarded by `key.ClusterID == clusterID`"
	for _, g := range flow.NormGuards(flow.Guards(upd.Block())) {
		bo, isB := g.Cond.(*ssa.BinOp)
		if !isB {
			continue
		}
		if bo.Op == token.EQL || bo.Op == token.NEQ {
			px, _ := flow.FieldPath(bo.X)
			_, yParam := flow.Strip(bo.Y).(*ssa.Parameter)
			_, xParam := flow.Strip(bo.X).(*ssa.Parameter)
			py, _ := flow.FieldPath(bo.Y)
			if (strings.HasSuffix(px, "ClusterID") && yParam) || (strings.HasSuffix(py, "ClusterID") && xParam) {
				if (bo.Op == token.EQL) == g.Side {
					ok = true
				} else {
					ok, why = false, "the copy is made for the channels of every OTHER cluster"
					break
				}
				continue
			}
		}
		if ex, isEx := g.Cond.(*ssa.Extract); isEx {
			if _, isNext := ex.Tuple.(*ssa.Next); isNext {
				continue // the range's own ok
			}
		}
		ok, why = false, "the copy is additionally conditioned on "+flow.Describe(g.Cond)
		break
	}
	res.Check(ok, rule, construct, instrPos(c.Prog, upd), "result[k] = v under k.ClusterID == clusterID", why+": the watermark of an idle source is fanned out to the wrong set of target streams - targets of this cluster never hear it and never confirm it")
}
