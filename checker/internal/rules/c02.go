package rules

import (
	"fmt"
	"go/token"
	"go/types"
	"sort"
	"strings"

	"golang.org/x/tools/go/ssa"

	"s2scheck/internal/flow"
	"s2scheck/internal/report"
)

func init() {
	Registry["C02"] = c02
	Registry["C04"] = c04
}

func c02(c *Ctx) (*report.Result, error) {
	res := newResult("C02")
	res.RuleDoc["O2.1"] = "owning shard: the routing hash is taken modulo the shard count of the cluster the tasks are delivered to (the cluster this server forwards to), applied to the task's own namespace id and workflow id, and that count travels unchanged from the configuration to the receiver"
	res.RuleDoc["O2.2"] = "single monotone allocator: nextProxyTaskID is written only in sendReplicationMessages, only by +1, only under the sender's mutex, and every allocated id is appended to the ring with the task's source shard and original id before the mutex is released"
	res.RuleDoc["O2.3"] = "id rewrite: both id fields of a task receive the allocated proxy id and the batch's exclusive high watermark is the last allocated id + 1 (task-bearing batch) or the allocated id (watermark-only batch)"
	res.RuleDoc["O2.4"] = "hand-off: a target is marked sent only when DeliverMessagesToShardOwner returned true, and the retry loop is left only when no target remains or on shutdown"

	checkShardParams(c, res, shardParamsCheck{rule: "O2.1", field: "routingParameters", closureField: "RoutingLocalShardCount",
		want: map[string]string{"Local": "LocalShardCount", "Remote": "RemoteShardCount"}})
	checkRoutingCountFlow(c, res)
	if f := resolve(c, res, "O2.2", anchor{"proxy", "*proxyStreamSender", "sendReplicationMessages"}); f != nil {
		checkAllocator(c, res, f)
		checkRawTaskIDRewrite(c, res, "O2.3", f)
		res.RuleDoc["O2.10"] = "no stream worker indexes the last element of an empty slice: every x[len(x)-1] in proxy_streams.go is dominated by a test giving len(x) >= 1, or x is a group of a map filled only with append results - a panic in a stream worker is not recovered and takes the process down, and the restart re-delivers tasks that were already sent"
		checkLastElementGuarded(c, res, "O2.10", []string{"proxy/proxy_streams.go"}, 2)
	}
	if f := resolve(c, res, "O2.4", anchor{"proxy", "*proxyStreamReceiver", "recvReplicationMessages"}); f != nil {
		checkHandOffLoop(c, res, f)
		checkRetryLoopBookkeeping(c, res, "O2.4", f, 1)
		res.RuleDoc["O2.9"] = "no routable task is filtered out: in the grouping loop of recvReplicationMessages the only ways around the store into the per-target grouping map are the RawTaskInfo == nil, NamespaceId == \"\" and WorkflowId == \"\" edges"
		checkTaskGroupingFilter(c, res, "O2.9", f)
		res.RuleDoc["O2.5"] = "a message handed to a target stream is a fresh object: nothing reachable from it is written after the hand-over (the sender goroutine rewrites ids in it later)"
		checkNoWriteAfterHandover(c, res, "O2.5", f, "routed message")
		checkFreshPerHandover(c, res, "O2.5", f)
		checkBatchBuffersFresh(c, res, "O2.5", f)
	}
	res.RuleDoc["O2.6"] = "delivery cannot wedge on the registries' locks: no critical section of package proxy re-acquires its own mutex and the mutexes nest in one order (same analysis as O8.6) - every task passes through the shard manager's channel table and the stream tracker on its way to the target"
	if spx, err := c.Prog.SSAPkg("proxy"); err == nil {
		checkReentrancy(c, res, "O2.6", []*ssa.Package{spx}, func(string) bool { return true })
	}
	res.Explanation = "SSA of proxy.NewClusterConnection (which shard count the RoutingParameters closure selects for the server that forwards to each cluster) and of the chain buildProxyServer -> NewAdminServiceProxyServer -> StreamWorkflowReplicationMessages -> handleStream -> streamRouting -> proxyStreamReceiver (the count and the reverse client reach the receiver unchanged), of recvReplicationMessages (arguments of WorkflowIDToHistoryShard, the retry loop's bookkeeping) and of proxyStreamSender.sendReplicationMessages (who writes nextProxyTaskID, by how much, under which lock, followed by which ring append; which values the id fields and the exclusive high watermark receive). Necessary shapes of 'each task once, to the owning shard, with strictly increasing ids and a covering watermark'; exactly-once, ordering and watermark monotonicity under interleavings of several sources are not decided. Observation (no rule): tasks without RawTaskInfo / namespace id / workflow id are dropped from the grouping without an error."
	res.Assumptions = []string{"servercommon.WorkflowIDToHistoryShard is Temporal's shard hash"}
	res.RuleDoc["O2.7"] = "no swallowed error in the files the mechanism lives in: no function returns a nil error on a path on which an error obtained from a call is known to be non-nil (io.EOF from a stream Recv, the normal end of a receive loop, is the one accepted idiom)"
	res.RuleDoc["O2.11"] = "no dereference of a value on the side on which it was just found nil, in the stream workers' files (a contradiction rule: `p.f != nil || p.f.g` for `&&`, a failed comma-ok assertion's value) - a panic there is not recovered and ends the process; after the restart the source re-sends everything above its acknowledged level, so tasks that had already been delivered are delivered again"
	checkNoDerefOfKnownNil(c, res, "O2.11", []string{"proxy/proxy_streams.go", "proxy/intra_proxy_router.go", "proxy/shard_manager.go", "proxy/admin_stream_transfer.go"}, 40)
	res.RuleDoc["O2.12"] = "the watermark replay cannot block the registration of the target it replays to: in both sendPendingWatermarkToShard implementations the blocking DeliverMessagesToShardOwner is reached only when GetRemoteSendChan(target) found no local channel, and the function's own channel sends are selects with a default arm - the replay runs inside RegisterShard, before the registering sender drains its channel"
	checkReplayNeverBlocksRegistration(c, res, "O2.12")
	res.RuleDoc["O2.13"] = "the hand-over result is truthful in both directions: DeliverMessagesToShardOwner returns true only after the send arm of the guarded select fired or the intra-proxy send returned nil, and the hand-over itself is the function's own select, not something left running after the result was reported (same analysis as O9.1) - the receiver retries what was reported undelivered and never retries what was reported delivered, so a wrong result is a task delivered twice or not at all"
	if f := resolve(c, res, "O2.13", anchor{"proxy", "*shardManagerImpl", "DeliverMessagesToShardOwner"}); f != nil {
		checkDeliver(c, res, f, "DeliverMessagesToShardOwner", "GetRemoteSendChan", "sendReplicationMessages", "O2.13")
	}
	checkNoSwallowedErrors(c, res, "O2.7", []string{"proxy/proxy_streams.go", "proxy/shard_manager.go"})
	res.RuleDoc["O2.8"] = "relay loops pass every message on: in every loop that takes messages from a stream or channel and forwards them, no path from the take to the next take avoids every stream Send / channel send / Deliver*ToShardOwner (a forwarding loop that runs zero times, the wrong-kind edges of a type assertion and a return that ends the stream are not bypasses; the ack aggregator sendAck is the reviewed exception)"
	checkRelayLoops(c, res, "O2.8", []string{"proxy/proxy_streams.go", "proxy/intra_proxy_router.go"}, 5)
	return res, nil
}

// checkRoutingCountFlow: the configured count reaches WorkflowIDToHistoryShard's third argument.
func checkRoutingCountFlow(c *Ctx, res *report.Result) {
	rule := "O2.1"
	if f := resolve(c, res, rule, anchor{"proxy", "*proxyStreamReceiver", "recvReplicationMessages"}); f != nil {
		calls := flow.FindCalls(f, func(cc *ssa.CallCommon) bool {
			return flow.IsCallTo(cc, srvPath+"/common", "", "WorkflowIDToHistoryShard")
		})
		if len(calls) != 1 {
			res.Undec(rule, "recvReplicationMessages: WorkflowIDToHistoryShard call", fnPos(c.Prog, f), fmt.Sprintf("%d calls", len(calls)))
		} else {
			a := calls[0].Common().Args
			p0, _ := flow.FieldPath(a[0])
			p1, _ := flow.FieldPath(a[1])
			p2, _ := flow.FieldPath(a[2])
			res.Check(strings.HasSuffix(p0, "RawTaskInfo.NamespaceId") && strings.HasSuffix(p1, "RawTaskInfo.WorkflowId") && strings.HasSuffix(p2, ".localShardCount"), rule,
				"recvReplicationMessages: target shard = hash(task namespace id, task workflow id) mod r.localShardCount", instrPos(c.Prog, calls[0]), p0+", "+p1+", "+p2,
				"the owning shard is computed from ("+p0+", "+p1+", "+p2+")")
			// both ids come from the same task
			b0 := strings.TrimSuffix(p0, ".RawTaskInfo.NamespaceId")
			b1 := strings.TrimSuffix(p1, ".RawTaskInfo.WorkflowId")
			res.Check(b0 == b1, rule, "recvReplicationMessages: namespace id and workflow id are taken from one task", instrPos(c.Prog, calls[0]), "ok", "the hash mixes fields of different tasks")
			// the shard under which a task is grouped is the hash of that very task, computed in this iteration
			okOwn := false
			whyOwn := "no ShardID is built from the hash"
			for _, b := range f.Blocks {
				for _, ins := range b.Instrs {
					if st, ok := ins.(*ssa.Store); ok {
						if fa, ok := st.Addr.(*ssa.FieldAddr); ok && flow.FieldName(fa.X.Type(), fa.Field) == "ShardID" {
							if _, isLit := fa.X.(*ssa.Alloc); !isLit {
								continue
							}
							if !calls[0].Block().Dominates(b) && calls[0].Block() != b {
								continue
							}
							if st.Val == ssa.Value(calls[0].(*ssa.Call)) {
								okOwn = true
							} else {
								whyOwn = "the shard id under which the task is grouped is " + flow.Describe(st.Val) + ", not the result of hashing this task in this iteration (a value carried over from another task / a cache would route the task to a shard that does not own it)"
							}
						}
					}
				}
			}
			// also catch the cached form: the hash call no longer dominates the grouping
			for _, b := range f.Blocks {
				for _, ins := range b.Instrs {
					if st, ok := ins.(*ssa.Store); ok {
						if fa, ok := st.Addr.(*ssa.FieldAddr); ok && flow.FieldName(fa.X.Type(), fa.Field) == "ShardID" {
							if _, isLit := fa.X.(*ssa.Alloc); isLit && flow.NamedIs(fa.X.Type(), srvPath+"/client/history", "ClusterShardID") {
								if st.Val != ssa.Value(calls[0].(*ssa.Call)) {
									if _, isPhi := flow.ResolveLoad(st.Val).(*ssa.Phi); isPhi {
										okOwn = false
										whyOwn = "the shard id under which the task is grouped is a loop-carried value, not the hash of this task: a task can inherit the shard of another task"
									}
								}
							}
						}
					}
				}
			}
			res.Check(okOwn, rule, "recvReplicationMessages: each task is grouped under the hash of its own ids", instrPos(c.Prog, calls[0]), "ShardID = WorkflowIDToHistoryShard(this task)", whyOwn)
			// the computed shard addresses the target cluster
			okCluster := false
			for _, b := range f.Blocks {
				for _, ins := range b.Instrs {
					if st, ok := ins.(*ssa.Store); ok {
						if fa, ok := st.Addr.(*ssa.FieldAddr); ok && flow.FieldName(fa.X.Type(), fa.Field) == "ClusterID" {
							if p, ok := flow.FieldPath(st.Val); ok && strings.HasSuffix(p, "targetShardID.ClusterID") {
								okCluster = true
							}
						}
					}
				}
			}
			res.Check(okCluster, rule, "recvReplicationMessages: the computed shard is a shard of the receiver's target cluster", instrPos(c.Prog, calls[0]), "ClusterID = r.targetShardID.ClusterID", "the routed shard id is not tagged with the target cluster")
		}
	}
	if f := resolve(c, res, rule, anchor{"proxy", "", "streamRouting"}); f != nil {
		okCount, okClient := false, false
		for _, b := range f.Blocks {
			for _, ins := range b.Instrs {
				al, ok := ins.(*ssa.Alloc)
				if !ok || !flow.NamedIs(al.Type(), proxyPkg, "proxyStreamReceiver") {
					continue
				}
				fs, _ := flow.FieldStores(al)
				if p, ok := flow.FieldPath(fs["localShardCount"]); ok && strings.HasSuffix(p, "routingParameters.RoutingLocalShardCount") {
					okCount = true
				}
				if fs["adminClient"] == ssa.Value(f.Params[5]) {
					okClient = true
				}
			}
		}
		res.Check(okCount, rule, "streamRouting: receiver.localShardCount = routingParameters.RoutingLocalShardCount", fnPos(c.Prog, f), "ok", "the receiver's hash modulus does not come from RoutingLocalShardCount")
		res.Check(okClient, rule, "streamRouting: the receiver pulls through adminClientReverse", fnPos(c.Prog, f), "ok", "the receiver does not use the reverse client")
	}
	// pass-through of routingParameters / reverse client
	for _, hop := range []struct {
		a         anchor
		callee    string
		idx       int
		want      string
		fromParam int // when the caller passes one of its own parameters on: that parameter's position (names are not compared)
	}{
		{anchor{"proxy", "", "handleStream"}, "streamRouting", 6, "routingParameters", 7},
		{anchor{"proxy", "", "handleStream"}, "streamRouting", 5, "adminClientReverse", 9},
		{anchor{"proxy", "*adminServiceProxyServer", "StreamWorkflowReplicationMessages"}, "handleStream", 7, "routingParameters", -1},
		{anchor{"proxy", "*adminServiceProxyServer", "StreamWorkflowReplicationMessages"}, "handleStream", 9, "adminClientReverse", -1},
		{anchor{"proxy", "", "buildProxyServer"}, "NewAdminServiceProxyServer", 8, "routingParameters", -1},
	} {
		f := resolve(c, res, rule, hop.a)
		if f == nil {
			continue
		}
		calls := flow.FindCalls(f, func(cc *ssa.CallCommon) bool { return flow.IsCallTo(cc, proxyPkg, "", hop.callee) })
		if len(calls) != 1 {
			res.Undec(rule, hop.a.name+" -> "+hop.callee, fnPos(c.Prog, f), fmt.Sprintf("%d calls", len(calls)))
			continue
		}
		p, _ := flow.FieldPath(calls[0].Common().Args[hop.idx])
		okHop := strings.HasSuffix(p, hop.want)
		if par, isPar := flow.Strip(flow.ResolveLoad(calls[0].Common().Args[hop.idx])).(*ssa.Parameter); isPar && hop.fromParam >= 0 {
			okHop = hop.fromParam < len(f.Params) && f.Params[hop.fromParam] == par
		}
		res.Check(okHop, rule, fmt.Sprintf("%s passes %s on to %s", hop.a.name, hop.want, hop.callee), instrPos(c.Prog, calls[0]), p, "argument is "+p)
	}
	if f := resolve(c, res, rule, anchor{"proxy", "", "buildProxyServer"}); f != nil {
		// reverse client is built on c.managedClient, forwarding client on c.client
		calls := flow.FindCalls(f, func(cc *ssa.CallCommon) bool { return flow.IsCallTo(cc, proxyPkg, "", "NewAdminServiceProxyServer") })
		if len(calls) == 1 {
			origin := func(v ssa.Value) string {
				if call, ok := v.(*ssa.Call); ok && len(call.Call.Args) == 1 {
					p, _ := flow.FieldPath(call.Call.Args[0])
					return p
				}
				return ""
			}
			a := calls[0].Common().Args
			res.Check(strings.HasSuffix(origin(a[1]), ".client") && strings.HasSuffix(origin(a[2]), ".managedClient"), rule, "buildProxyServer: adminClient on c.client, adminClientReverse on c.managedClient", instrPos(c.Prog, calls[0]), origin(a[1])+", "+origin(a[2]), "forward and reverse admin clients are built on the wrong connections")
		}
	}
	if f := resolve(c, res, rule, anchor{"proxy", "", "NewAdminServiceProxyServer"}); f != nil {
		ok := 0
		for _, b := range f.Blocks {
			for _, ins := range b.Instrs {
				if st, isSt := ins.(*ssa.Store); isSt {
					if fa, isFA := st.Addr.(*ssa.FieldAddr); isFA {
						name := flow.FieldName(fa.X.Type(), fa.Field)
						want := map[string]int{"adminClient": 1, "adminClientReverse": 2, "lcmParameters": 7, "routingParameters": 8}
						if idx, known := want[name]; known && idx < len(f.Params) && st.Val == ssa.Value(f.Params[idx]) {
							ok++
						}
					}
				}
			}
		}
		res.Check(ok == 4, rule, "NewAdminServiceProxyServer stores its clients and parameter structs in the matching fields (by argument position)", fnPos(c.Prog, f), "ok", "a constructor argument lands in another field")
	}
}

func checkAllocator(c *Ctx, res *report.Result, f *ssa.Function) {
	// ---- O2.2 inventory of writers
	sp, _ := c.Prog.SSAPkg("proxy")
	n := 0
	var allocs []*ssa.Store
	for _, g := range c.Prog.RepoFuncs() {
		if g.Package() != sp {
			continue
		}
		for _, b := range g.Blocks {
			for _, ins := range b.Instrs {
				st, ok := ins.(*ssa.Store)
				if !ok {
					continue
				}
				fa, ok := st.Addr.(*ssa.FieldAddr)
				if !ok || flow.FieldName(fa.X.Type(), fa.Field) != "nextProxyTaskID" {
					continue
				}
				n++
				construct := fmt.Sprintf("%s: write #%d of nextProxyTaskID", shortFn(g), n)
				okInc := false
				if bo, isB := st.Val.(*ssa.BinOp); isB && bo.Op == token.ADD {
					if k, isK := flow.ConstInt(bo.Y); isK && k == 1 {
						if p, okp := flow.FieldPath(bo.X); okp && strings.HasSuffix(p, ".nextProxyTaskID") {
							okInc = true
						}
					}
				}
				res.Check(g == f && okInc && flow.HeldAt(g, st, "mu", true), "O2.2", construct, instrPos(c.Prog, st), "nextProxyTaskID++ under s.mu in sendReplicationMessages", "the proxy id allocator is written outside sendReplicationMessages, not by +1, or without the sender's mutex: ids on a target stream would repeat or go backwards")
				if g == f {
					allocs = append(allocs, st)
				}
			}
		}
	}
	if n < 2 {
		res.Undec("O2.2", "nextProxyTaskID writers", fnPos(c.Prog, f), fmt.Sprintf("%d writes found, 2 confirmed by hand (task branch, watermark-only branch)", n))
	}
	isUnlock := func(x ssa.Instruction) bool {
		call, ok := x.(ssa.CallInstruction)
		if !ok {
			return false
		}
		if _, isDefer := x.(*ssa.Defer); isDefer {
			return false
		}
		cal := flow.StaticCallee(call.Common())
		return cal != nil && cal.Name() == "Unlock"
	}
	for i, st := range allocs {
		isAppend := func(x ssa.Instruction) bool {
			call, ok := x.(ssa.CallInstruction)
			return ok && flow.IsCallTo(call.Common(), proxyPkg, "proxyIDRingBuffer", "Append")
		}
		r := flow.FindPath(flow.After(st), func(x ssa.Instruction) bool { return isUnlock(x) || flow.IsReturn(x) || x == ssa.Instruction(st) }, isAppend, nil)
		res.Check(!r.Found, "O2.2", fmt.Sprintf("sendReplicationMessages: allocation #%d is recorded in the ring before the mutex is released", i+1), instrPos(c.Prog, st), "idRing.Append follows every allocation inside the critical section", "an allocated proxy id is never recorded (or recorded after the lock was dropped): its acknowledgement could not be mapped back")
		// the Append that follows carries that id, the routed source shard and the original id
		var app ssa.CallInstruction
		for _, call := range flow.Calls(f) {
			if isAppend(call) && flow.InstrDominates(st, call) && call.Block() == st.Block() {
				app = call
			}
		}
		if app != nil {
			a := app.Common().Args
			pid, _ := flow.FieldPath(a[1])
			src, _ := flow.FieldPath(a[2])
			okID := strings.HasSuffix(pid, ".nextProxyTaskID")
			okSrc := strings.HasSuffix(src, "SourceShard")
			res.Check(okID && okSrc, "O2.2", fmt.Sprintf("sendReplicationMessages: Append #%d(allocated id, routed.SourceShard, original id)", i+1), instrPos(c.Prog, app), pid+", "+src, "the ring entry does not pair the allocated id with the message's source shard ("+pid+", "+src+")")
			// ---- O2.3 the id fields
			if orig, okO := flow.FieldPath(a[3]); okO && strings.HasSuffix(orig, "SourceTaskId") {
				// task branch: stores to t.SourceTaskId and t.RawTaskInfo.TaskId with the allocated id, after the original was read
				var idStores int
				for _, ins := range st.Block().Instrs {
					s2, ok := ins.(*ssa.Store)
					if !ok {
						continue
					}
					fa, ok := s2.Addr.(*ssa.FieldAddr)
					if !ok {
						continue
					}
					fld := flow.FieldName(fa.X.Type(), fa.Field)
					if fld == "SourceTaskId" {
						if p, _ := flow.FieldPath(s2.Val); strings.HasSuffix(p, ".nextProxyTaskID") {
							idStores++
						}
					}
				}
				okRaw := false
				for _, b := range f.Blocks {
					for _, ins := range b.Instrs {
						if s2, ok := ins.(*ssa.Store); ok {
							if fa, ok := s2.Addr.(*ssa.FieldAddr); ok && flow.FieldName(fa.X.Type(), fa.Field) == "TaskId" {
								if p, _ := flow.FieldPath(s2.Val); strings.HasSuffix(p, ".nextProxyTaskID") && st.Block().Dominates(b) {
									okRaw = true
								}
							}
						}
					}
				}
				res.Check(idStores == 1 && okRaw, "O2.3", "sendReplicationMessages: SourceTaskId and RawTaskInfo.TaskId both receive the allocated proxy id", instrPos(c.Prog, st), "ok", "a task id field keeps its original value: the receiver would see ids from two id spaces on one stream")
			}
		}
	}
	// exclusive high watermark
	nHW := 0
	for _, b := range f.Blocks {
		for _, ins := range b.Instrs {
			st, ok := ins.(*ssa.Store)
			if !ok {
				continue
			}
			fa, ok := st.Addr.(*ssa.FieldAddr)
			if !ok || flow.FieldName(fa.X.Type(), fa.Field) != "ExclusiveHighWatermark" {
				continue
			}
			if _, isAlloc := fa.X.(*ssa.Alloc); isAlloc {
				continue // keep-alive message literal
			}
			nHW++
			v := flow.ResolveLoad(st.Val)
			okV := false
			desc := flow.Describe(v)
			if bo, isB := v.(*ssa.BinOp); isB && bo.Op == token.ADD {
				if k, isK := flow.ConstInt(bo.Y); isK && k == 1 {
					// last task's SourceTaskId: element len-1 of ReplicationTasks
					if p, okp := flow.FieldPath(bo.X); okp && strings.HasSuffix(p, "SourceTaskId") {
						if ld, isL := bo.X.(*ssa.UnOp); isL {
							if fa2, isFA := ld.X.(*ssa.FieldAddr); isFA {
								if el, isEl := fa2.X.(*ssa.UnOp); isEl {
									if ia, isIA := el.X.(*ssa.IndexAddr); isIA {
										if sub, isS := ia.Index.(*ssa.BinOp); isS && sub.Op == token.SUB {
											if k2, isK2 := flow.ConstInt(sub.Y); isK2 && k2 == 1 {
												okV = true
											}
										}
									}
								}
							}
						}
					}
				}
			}
			if p, okp := flow.FieldPath(v); okp && strings.HasSuffix(p, ".nextProxyTaskID") {
				okV = true // watermark-only batch: the synthetic id itself
			}
			res.Check(okV, "O2.3", fmt.Sprintf("sendReplicationMessages: ExclusiveHighWatermark rewrite #%d is in the proxy id space", nHW), instrPos(c.Prog, st), desc, "the exclusive high watermark is set to "+desc+": it must be the last allocated proxy id + 1 (or the synthetic id of a watermark-only batch), otherwise a Temporal receiver rejects or skips tasks")
			res.Check(flow.HeldAt(f, st, "mu", true), "O2.3", fmt.Sprintf("sendReplicationMessages: watermark rewrite #%d under the mutex", nHW), instrPos(c.Prog, st), "ok", "watermark rewritten outside the allocation's critical section")
		}
	}
	if nHW < 2 {
		res.Undec("O2.3", "ExclusiveHighWatermark rewrites", fnPos(c.Prog, f), fmt.Sprintf("%d found, 2 confirmed by hand", nHW))
	}
	// what is sent is the rewritten message
	sends := flow.FindCalls(f, func(cc *ssa.CallCommon) bool { return cc.IsInvoke() && cc.Method.Name() == "Send" })
	okSend := false
	for _, s := range sends {
		if p, ok := flow.FieldPath(s.Common().Args[0]); ok && strings.HasSuffix(p, ".Resp") {
			okSend = true
		}
	}
	res.Check(okSend, "O2.3", "sendReplicationMessages: the rewritten message is what is sent", fnPos(c.Prog, f), "Send(routed.Resp)", "the message sent on the target stream is not the one whose ids were rewritten")
}

func checkHandOffLoop(c *Ctx, res *report.Result, f *ssa.Function) {
	rule := "O2.4"
	n := 0
	for _, call := range flow.Calls(f) {
		cc := call.Common()
		if !cc.IsInvoke() || cc.Method.Name() != "DeliverMessagesToShardOwner" {
			continue
		}
		cv, ok := call.(*ssa.Call)
		if !ok {
			continue
		}
		// only the task-bearing retry loop marks targets; the watermark branch ignores the result by design
		marks := 0
		okMarks := true
		// the bookkeeping map of the retry loop is the one initialised with false for every target
		sentMaps := map[ssa.Value]bool{}
		for _, b := range f.Blocks {
			for _, ins := range b.Instrs {
				if mu, isMU := ins.(*ssa.MapUpdate); isMU {
					if v, isC := flow.ConstBool(mu.Value); isC && !v {
						sentMaps[mu.Map] = true
					}
				}
			}
		}
		for _, b := range f.Blocks {
			for _, ins := range b.Instrs {
				mu, isMU := ins.(*ssa.MapUpdate)
				if !isMU || !sentMaps[mu.Map] {
					continue
				}
				v, isC := flow.ConstBool(mu.Value)
				if !isC || !v {
					continue
				}
				if !cv.Block().Dominates(b) {
					continue
				}
				marks++
				if !guardedTrue(b, cv) {
					okMarks = false
				}
			}
		}
		if marks == 0 {
			continue
		}
		n++
		res.Check(okMarks, rule, "recvReplicationMessages: a target is marked sent only on a true hand-off", instrPos(c.Prog, call), "sentByTarget[t] = true under the true result", "a target is marked as served although the hand-off failed: its tasks are dropped silently")
		// the decrement likewise
		okDec := false
		for _, b := range f.Blocks {
			for _, ins := range b.Instrs {
				if bo, isB := ins.(*ssa.BinOp); isB && bo.Op == token.SUB {
					if k, isK := flow.ConstInt(bo.Y); isK && k == 1 && cv.Block().Dominates(b) && guardedTrue(b, cv) {
						okDec = true
					}
				}
			}
		}
		res.Check(okDec, rule, "recvReplicationMessages: the remaining-target count drops only on a true hand-off", instrPos(c.Prog, call), "ok", "numRemaining is decremented without a successful hand-off")
		// the message carries the tasks of that target and a watermark above its last task
	}
	if n == 0 {
		res.Undec(rule, "recvReplicationMessages: retry loop", fnPos(c.Prog, f), "no hand-off whose result marks a target as sent")
	}
	// the loop is left only via `numRemaining > 0` false or the shutdown return
	var loopIf *ssa.If
	for _, b := range f.Blocks {
		if iff := lastIfOf(b); iff != nil && isNumRemainingLoop(iff) {
			loopIf = iff
		}
	}
	if loopIf == nil {
		res.Viol(rule, "recvReplicationMessages: retry until every target accepted", fnPos(c.Prog, f), "no `for numRemaining > 0` retry loop: a target without a registered stream would lose its tasks")
		return
	}
	body := loopIf.Block().Succs[0]
	badExit := ""
	for _, b := range f.Blocks {
		if !body.Dominates(b) {
			continue
		}
		for _, s := range b.Succs {
			if body.Dominates(s) || s == loopIf.Block() {
				continue
			}
			// an edge leaving the loop body other than back to the header
			badExit = fmt.Sprintf("block %d -> %d", b.Index, s.Index)
		}
		for _, ins := range b.Instrs {
			if ret, ok := ins.(*ssa.Return); ok {
				// allowed only on the shutdown arm
				sel := false
				for _, g := range flow.NormGuards(flow.Guards(b)) {
					if bo, isB := g.Cond.(*ssa.BinOp); isB && bo.Op == token.EQL {
						if ex, isEx := bo.X.(*ssa.Extract); isEx {
							if _, isSel := ex.Tuple.(*ssa.Select); isSel && g.Side {
								sel = true
							}
						}
					}
				}
				if !sel {
					badExit = "return at " + instrPos(c.Prog, ret)
				}
			}
		}
	}
	res.Check(badExit == "", rule, "recvReplicationMessages: the retry loop ends only when no target remains or on shutdown", instrPos(c.Prog, loopIf), "ok", "the retry loop can be left early ("+badExit+"): tasks for targets that were not yet served are dropped")
}

// ---------------------------------------------------------------------------------------------
// C04

func c04(c *Ctx) (*report.Result, error) {
	res := newResult("C04")
	res.RuleDoc["O4.1"] = "one latch: the ShutdownOnce created in streamRouting is the one handed to the sender's and the receiver's Run and is tripped when the lifetime ends"
	res.RuleDoc["O4.2"] = "every worker goroutine of sender and receiver trips the latch on every exit (so a broken target or source stream ends its partner)"
	res.RuleDoc["O4.3"] = "per-incarnation state: sender/receiver structs are built only in streamRouting; the id ring, the delivery and ack channels and the per-target ack map are created in Run; lastSentMin is reset in Run - nothing acknowledged or queued in one incarnation survives into the next"
	res.RuleDoc["O4.4"] = "the previous receiver incarnation is cancelled before the new one registers (see O8.3)"
	res.RuleDoc["O4.6"] = "a hand-off to a dying stream is not reported as delivered: DeliverMessagesToShardOwner / DeliverAckToShardOwner return true only after the send arm of the guarded select fired or the intra-proxy send returned nil (same analysis as O9.1) - a task reported delivered is never retried, so a false 'delivered' loses it while later confirmations still advance the acknowledgement"
	for _, spec := range []struct{ name, getChan, fwd string }{{"DeliverMessagesToShardOwner", "GetRemoteSendChan", "sendReplicationMessages"}, {"DeliverAckToShardOwner", "GetLocalAckChan", "sendAck"}} {
		if f := resolve(c, res, "O4.6", anchor{"proxy", "*shardManagerImpl", spec.name}); f != nil {
			checkDeliver(c, res, f, spec.name, spec.getChan, spec.fwd, "O4.6")
		}
	}
	res.RuleDoc["O4.7"] = "the proxy-id table translates a target's confirmation back to exactly the source ids it covers, also across growth and wrap-around while a slow target has a backlog (the index, growth, append and discard obligations of C05, imported): a mistranslated confirmation acknowledges tasks the target has not confirmed, and the loss shows when the stream breaks and the source resumes"
	if r5, err := c05(c); err == nil && r5 != nil {
		if n := importObligations(res, r5, "O4.7", nil); n < 10 {
			res.Undec("O4.7", "proxy-id table obligations", "", fmt.Sprintf("only %d obligations imported from C05", n))
		}
	} else {
		res.Undec("O4.7", "proxy-id table obligations", "", "C05 rule set failed")
	}
	res.RuleDoc["O4.8"] = "tasks lost with a target stream are not forgotten: when a sender incarnation ends, Run (after its shutdown wait, or in a deferred call) examines the id ring's outstanding entries - the only record of which source shards have tasks that were handed to the broken stream and not confirmed - so that something (re-send, or holding the acknowledgement back) can happen for them"
	checkOutstandingOnExit(c, res, "O4.8")
	res.RuleDoc["O4.9"] = "a target whose stream is down while its tasks wait holds the acknowledgement back: the ackByTarget entry for a target is ensured before the hand-over is attempted, not after it succeeded (same analysis as O1.8) - otherwise, while the receiver retries a broken or backlogged target, another target's confirmation acknowledges the waiting tasks"
	if g := resolve(c, res, "O4.9", anchor{"proxy", "*proxyStreamReceiver", "recvReplicationMessages"}); g != nil {
		checkSilentTargets(c, res, g, "O4.9")
		res.RuleDoc["O4.12"] = "each target stream's sender owns the message it is handed: a message handed over inside a fan-out or retry loop is a fresh object per hand-over, down to everything its pointer / interface fields reach (same analysis as O2.5) - the sender rewrites the watermark into its own id space in place and repeats it in keep-alives, so a body shared between targets lets one target advertise a watermark above what it was sent, and its confirmation then acknowledges unconfirmed tasks"
		checkFreshPerHandover(c, res, "O4.12", g)
	}
	res.RuleDoc["O4.5"] = "a target stream that (re)connects is not told a watermark above tasks still waiting for it: lastWatermark is written only from watermark-only batches (same rule as O1.6)"
	checkReplayedWatermark(c, res, "O4.5")

	if f := resolve(c, res, "O4.1", anchor{"proxy", "", "streamRouting"}); f != nil {
		mk := flow.FindCalls(f, func(cc *ssa.CallCommon) bool {
			return flow.IsCallTo(cc, srvPath+"/common/channel", "", "NewShutdownOnce")
		})
		if len(mk) != 1 {
			res.Viol("O4.1", "streamRouting: one shutdown latch", fnPos(c.Prog, f), fmt.Sprintf("%d latches are created: sender and receiver would not end together", len(mk)))
		} else {
			latch := mk[0].(*ssa.Call)
			// the cell that holds it
			var cell ssa.Value
			for _, r := range *latch.Referrers() {
				if st, ok := r.(*ssa.Store); ok {
					cell = st.Addr
				}
			}
			isLatch := func(v ssa.Value, g *ssa.Function) bool {
				v = flow.ResolveLoad(flow.Strip(v))
				if v == ssa.Value(latch) {
					return true
				}
				if ld, ok := v.(*ssa.UnOp); ok {
					if ld.X == cell {
						return true
					}
					if fv, ok := ld.X.(*ssa.FreeVar); ok {
						// bound to the cell?
						for i, x := range g.FreeVars {
							if x == fv {
								for _, b := range f.Blocks {
									for _, ins := range b.Instrs {
										if mc, ok := ins.(*ssa.MakeClosure); ok && mc.Fn == ssa.Value(g) && mc.Bindings[i] == cell {
											return true
										}
									}
								}
							}
						}
					}
				}
				return false
			}
			runs := 0
			for _, g := range append([]*ssa.Function{f}, flow.AnonFuncsDeep(f)...) {
				for _, call := range flow.Calls(g) {
					cc := call.Common()
					cal := flow.StaticCallee(cc)
					if cal == nil || cal.Name() != "Run" {
						continue
					}
					last := cc.Args[len(cc.Args)-1]
					isS := flow.NamedIs(cal.Signature.Recv().Type(), proxyPkg, "proxyStreamSender")
					isR := flow.NamedIs(cal.Signature.Recv().Type(), proxyPkg, "proxyStreamReceiver")
					if !isS && !isR {
						continue
					}
					runs++
					res.Check(isLatch(last, g), "O4.1", "streamRouting: "+map[bool]string{true: "sender", false: "receiver"}[isS]+".Run receives the shared latch", instrPos(c.Prog, call), "ok", "this Run gets a different shutdown signal than its partner: a failure on one side would not stop the other")
				}
			}
			if runs != 2 {
				res.Undec("O4.1", "streamRouting: sender and receiver Run", fnPos(c.Prog, f), fmt.Sprintf("%d Run calls", runs))
			}
			// lifetime wiring
			okAF := false
			for _, call := range flow.FindCalls(f, func(cc *ssa.CallCommon) bool { return flow.IsCallTo(cc, "context", "", "AfterFunc") }) {
				if call.Common().Args[0] != ssa.Value(f.Params[len(f.Params)-1]) {
					continue
				}
				if cl, _ := closureFn(call.Common().Args[1]); cl != nil {
					for _, c2 := range flow.Calls(cl) {
						cc2 := c2.Common()
						if cc2.IsInvoke() && cc2.Method.Name() == "Shutdown" && isLatch(cc2.Value, cl) {
							okAF = true
						}
						if cal := flow.StaticCallee(cc2); cal != nil && cal.Name() == "Shutdown" && len(cc2.Args) == 1 && isLatch(cc2.Args[0], cl) {
							okAF = true
						}
					}
				}
			}
			res.Check(okAF, "O4.1", "streamRouting: the latch is tripped when the lifetime ends", fnPos(c.Prog, f), "context.AfterFunc(lifetime, latch.Shutdown)", "cluster-connection shutdown does not end the routed stream")
		}
		// ---- O4.3 construction sites
		sp, _ := c.Prog.SSAPkg("proxy")
		for _, g := range c.Prog.RepoFuncs() {
			if g.Package() != sp {
				continue
			}
			for _, b := range g.Blocks {
				for _, ins := range b.Instrs {
					al, ok := ins.(*ssa.Alloc)
					if !ok {
						continue
					}
					for _, tn := range []string{"proxyStreamSender", "proxyStreamReceiver"} {
						if p, okp := al.Type().Underlying().(interface{ Elem() interface{} }); okp {
							_ = p
						}
						if flow.NamedIs(al.Type(), proxyPkg, tn) && al.Heap {
							if _, isPtr := al.Type().Underlying().(interface{}); isPtr {
							}
							res.Check(g == f, "O4.3", shortFn(g)+": constructs a "+tn, instrPos(c.Prog, al), "a fresh struct per stream in streamRouting", "a "+tn+" is constructed outside streamRouting: a reused instance would carry acknowledgement state across incarnations")
						}
					}
				}
			}
		}
	}
	// ---- O4.2 workers trip the latch
	type worker struct {
		a     anchor
		param int // index of the shutdown parameter, -1 = field `shutdown`
	}
	for _, w := range []worker{
		{anchor{"proxy", "*proxyStreamSender", "recvAck"}, 2},
		{anchor{"proxy", "*proxyStreamSender", "sendReplicationMessages"}, 2},
		{anchor{"proxy", "*intraProxyStreamSender", "recvAck"}, 1},
		{anchor{"proxy", "*intraProxyStreamReceiver", "recvReplicationMessages"}, -1},
	} {
		f := resolve(c, res, "O4.2", w.a)
		if f == nil {
			continue
		}
		ok := false
		for _, d := range flow.Defers(f) {
			if !coversAllExits(f, d) {
				continue
			}
			check := func(cc *ssa.CallCommon, g *ssa.Function) bool {
				if !cc.IsInvoke() || cc.Method.Name() != "Shutdown" {
					return false
				}
				v := flow.ResolveLoad(cc.Value)
				if w.param >= 0 {
					if v == ssa.Value(f.Params[w.param]) {
						return true
					}
					if ld, isL := v.(*ssa.UnOp); isL {
						if fv, isFV := ld.X.(*ssa.FreeVar); isFV && fv.Name() == f.Params[w.param].Name() {
							return true
						}
					}
					return false
				}
				p, _ := flow.FieldPath(v)
				return strings.HasSuffix(p, ".shutdown")
			}
			if check(&d.Call, f) {
				ok = true
			}
			if fn := flow.StaticCallee(&d.Call); fn != nil && fn.Blocks != nil {
				for _, call := range flow.Calls(fn) {
					if check(call.Common(), fn) {
						ok = true
					}
				}
			}
		}
		res.Check(ok, "O4.2", shortFn(f)+": trips the shared latch on every exit", fnPos(c.Prog, f), "deferred Shutdown() registered before any exit", "this worker can end (stream error, EOF) without tripping the latch: its partner keeps acknowledging / delivering on a half-dead pair")
	}
	if f := resolve(c, res, "O4.2", anchor{"proxy", "*proxyStreamReceiver", "Run"}); f != nil {
		n := 0
		for _, b := range f.Blocks {
			for _, ins := range b.Instrs {
				g, ok := ins.(*ssa.Go)
				if !ok {
					continue
				}
				cl, _ := closureFn(g.Call.Value)
				if cl == nil {
					continue
				}
				okD := false
				for _, d := range flow.Defers(cl) {
					// `defer shutdownChan.Shutdown()` directly
					if d.Call.IsInvoke() && d.Call.Method.Name() == "Shutdown" && coversAllExits(cl, d) {
						okD = true
					}
					if fn := flow.StaticCallee(&d.Call); fn != nil && fn.Blocks != nil && coversAllExits(cl, d) {
						for _, call := range flow.Calls(fn) {
							if call.Common().IsInvoke() && call.Common().Method.Name() == "Shutdown" {
								okD = true
							}
						}
					}
				}
				n++
				res.Check(okD, "O4.2", fmt.Sprintf("(*proxyStreamReceiver).Run: worker goroutine #%d trips the latch on exit", n), instrPos(c.Prog, g), "ok", "a receiver worker can end without tripping the latch")
			}
		}
		if n != 2 {
			res.Undec("O4.2", "(*proxyStreamReceiver).Run: worker goroutines", fnPos(c.Prog, f), fmt.Sprintf("%d goroutines, 2 confirmed by hand", n))
		}
	}
	// ---- O4.3 per-incarnation state created in Run
	type fieldInit struct {
		a     anchor
		field string
		kind  string // chan / map / ring / zero
	}
	sp, _ := c.Prog.SSAPkg("proxy")
	for _, fi := range []fieldInit{
		{anchor{"proxy", "*proxyStreamSender", "Run"}, "sendMsgChan", "chan"},
		{anchor{"proxy", "*proxyStreamSender", "Run"}, "idRing", "ring"},
		{anchor{"proxy", "*proxyStreamReceiver", "Run"}, "ackChan", "chan"},
		{anchor{"proxy", "*proxyStreamReceiver", "Run"}, "ackByTarget", "map"},
		{anchor{"proxy", "*proxyStreamReceiver", "Run"}, "lastSentMin", "zero"},
	} {
		f := resolve(c, res, "O4.3", fi.a)
		if f == nil {
			continue
		}
		okInit := false
		for _, g := range c.Prog.RepoFuncs() {
			if g.Package() != sp {
				continue
			}
			for _, b := range g.Blocks {
				for _, ins := range b.Instrs {
					st, ok := ins.(*ssa.Store)
					if !ok {
						continue
					}
					fa, ok := st.Addr.(*ssa.FieldAddr)
					if !ok || flow.FieldName(fa.X.Type(), fa.Field) != fi.field {
						continue
					}
					recvT := strings.TrimPrefix(fi.a.recv, "*")
					if !flow.NamedIs(fa.X.Type(), proxyPkg, recvT) {
						continue
					}
					if _, isAlloc := fa.X.(*ssa.Alloc); isAlloc {
						continue // literal in streamRouting
					}
					fresh := false
					switch fi.kind {
					case "chan":
						_, fresh = st.Val.(*ssa.MakeChan)
					case "map":
						_, fresh = st.Val.(*ssa.MakeMap)
					case "ring":
						if call, isC := st.Val.(*ssa.Call); isC && flow.IsCallTo(&call.Call, proxyPkg, "", "newProxyIDRingBuffer") {
							fresh = true
						}
					case "zero":
						if n, isN := flow.ConstInt(st.Val); isN && n == 0 {
							fresh = true
						}
						if g != f {
							fresh = true // the assignment of the sent value in sendAck is C03's business
							continue
						}
					}
					if g == f && fresh {
						okInit = true
					}
					if g != f || !fresh {
						res.Viol("O4.3", shortFn(g)+": writes "+recvT+"."+fi.field, instrPos(c.Prog, st), "per-incarnation state is assigned outside Run or from a value that is not freshly created")
					}
				}
			}
		}
		res.Check(okInit, "O4.3", shortFn(f)+": "+fi.field+" is created afresh in Run", fnPos(c.Prog, f), "ok", fi.field+" is not (re)created when an incarnation starts: queued messages / acknowledged levels of a dead incarnation would be reused")
	}
	// ---- O4.4
	if f := resolve(c, res, "O4.4", anchor{"proxy", "*proxyStreamReceiver", "Run"}); f != nil {
		term := callIdx(f, invokeNamed("TerminatePreviousLocalReceiver"))
		reg := callIdx(f, invokeNamed("SetLocalAckChan"))
		ok := len(term) >= 1 && len(reg) >= 1
		if ok {
			r := flow.FindPath(flow.Point{Block: f.Blocks[0]}, func(x ssa.Instruction) bool { return x == ssa.Instruction(reg[0]) }, func(x ssa.Instruction) bool { return x == ssa.Instruction(term[0]) },
				func(a, b *ssa.BasicBlock) bool { return !hasClass(edgeClasses(a, b), "nil", "shardManager", true) })
			ok = !r.Found
		}
		res.Check(ok, "O4.4", "(*proxyStreamReceiver).Run: predecessor cancelled before the new incarnation registers", fnPos(c.Prog, f), "ok", "two receiver incarnations of one shard can be registered and acknowledging at once")
	}
	res.Explanation = "SSA of proxy.streamRouting (identity of the latch handed to both Run calls through the goroutine closures' captured cell, AfterFunc wiring), of every worker function of sender and receiver (deferred Shutdown covering all exits), a construction-site inventory of proxyStreamSender / proxyStreamReceiver and a who-may-write inventory of the per-incarnation fields (id ring, channels, per-target ack map, lastSentMin). These are the mechanisms that keep a broken stream from leaving acknowledged-but-unconfirmed state behind; the enumeration of break points x reconnection orders itself is a fault-sequence statement and is not decided."
	res.Assumptions = []string{"the source cluster resends from its acknowledged level after a reconnect (Temporal behaviour)"}
	res.RuleDoc["O4.15"] = "the keep-alive repeats the aggregate, not one target's report: lastSentAck is assigned only the request that was just sent with the aggregated minimum (after a successful Send), and the keep-alive re-sends that stored object (same analysis as O3.4) - a single target's ack replayed after a quiet second acknowledges what the slower or broken targets never confirmed"
	if r3, err := Registry["C03"](c); err == nil && r3 != nil {
		if n := importObligations(res, r3, "O4.15", func(o report.Obligation) bool { return o.Rule == "O3.4" }); n < 2 {
			res.Undec("O4.15", "keep-alive obligations of O3.4", "", fmt.Sprintf("%d imported, at least 2 expected", n))
		}
	} else if err != nil {
		res.Undec("O4.15", "keep-alive obligations of O3.4", "", err.Error())
	}
	res.RuleDoc["O4.19"] = "a target's entry in the acknowledgement table outlives its stream: during a receiver incarnation no entry of ackByTarget is deleted or cleared and the table is replaced by Run's fresh map only - the entry is what keeps tasks handed to that target (on its broken stream, or waiting for it to register) below the aggregated minimum, so removing it on re-registration lets another target's next ack acknowledge them"
	checkAckTableNeverShrinks(c, res, "O4.19")
	res.RuleDoc["O4.18"] = "a resumed source stream is not acknowledged past what it has re-delivered: the aggregated minimum is capped by the exclusive high watermark of the last batch this receiver incarnation has read (the clamp obligations of O3.2, imported) - after a source-stream reconnection the new receiver starts with an empty per-target table while the senders still report levels from the old stream; without the cap the ack jumps past tasks that are outstanding on a target the new receiver has not heard from, and a break of that target's stream loses them"
	if r3, err := Registry["C03"](c); err == nil && r3 != nil {
		if n := importObligations(res, r3, "O4.18", func(o report.Obligation) bool { return o.Rule == "O3.2" }); n < 2 {
			res.Undec("O4.18", "clamp obligations of O3.2", "", fmt.Sprintf("%d imported, at least 2 expected", n))
		}
	} else {
		res.Undec("O4.18", "clamp obligations of O3.2", "", "C03 rule set failed")
	}
	res.RuleDoc["O4.17"] = "what the sender translates is the target's overall confirmation: the watermark handed to AggregateUpTo in recvAck is the top-level InclusiveLowWatermark of the SyncReplicationState just received - not a per-priority lane's watermark (one lane can be ahead of a task the other has not applied) and not a value picked by a helper; everything at or below it is acknowledged and discarded"
	checkAckWatermarkSource(c, res, "O4.17")
	res.RuleDoc["O4.16"] = "an acknowledgement forwarded between proxy nodes travels on the stream of its own (target shard, source shard) pair (same analysis as O1.9 / O9.4): the owner of the source shard credits an incoming ack to the target of the stream it arrives on, so an ack that falls back to another target's stream - the natural shortcut when its own stream has just broken - is credited to a target that has not confirmed, and the aggregate then acknowledges that target's unconfirmed tasks"
	checkIntraSenders(c, res, "O4.16")
	res.RuleDoc["O4.10"] = "no swallowed error in the files the mechanism lives in: no function returns a nil error on a path on which an error obtained from a call is known to be non-nil (io.EOF from a stream Recv, the normal end of a receive loop, is the one accepted idiom)"
	checkNoSwallowedErrors(c, res, "O4.10", []string{"proxy/proxy_streams.go", "proxy/admin_stream_transfer.go", "proxy/shard_manager.go"})
	res.RuleDoc["O4.11"] = "relay loops pass every message on: in every loop that takes messages from a stream or channel and forwards them, no path from the take to the next take avoids every stream Send / channel send / Deliver*ToShardOwner (a forwarding loop that runs zero times, the wrong-kind edges of a type assertion and a return that ends the stream are not bypasses; the ack aggregator sendAck is the reviewed exception)"
	checkRelayLoops(c, res, "O4.11", []string{"proxy/proxy_streams.go", "proxy/intra_proxy_router.go"}, 5)
	return res, nil
}

// checkOutstandingOnExit: see O4.8.
func checkOutstandingOnExit(c *Ctx, res *report.Result, rule string) {
	f := resolve(c, res, rule, anchor{"proxy", "*proxyStreamSender", "Run"})
	if f == nil {
		return
	}
	touchesRing := func(g *ssa.Function, from *ssa.BasicBlock, idx int) bool {
		seen := map[*ssa.BasicBlock]bool{}
		var walk func(b *ssa.BasicBlock, start int) bool
		walk = func(b *ssa.BasicBlock, start int) bool {
			for i := start; i < len(b.Instrs); i++ {
				switch x := b.Instrs[i].(type) {
				case *ssa.FieldAddr:
					if flow.FieldName(x.X.Type(), x.Field) == "idRing" {
						return true
					}
				case ssa.CallInstruction:
					if cal := flow.StaticCallee(x.Common()); cal != nil && cal.Signature.Recv() != nil && flow.NamedIs(cal.Signature.Recv().Type(), proxyPkg, "proxyIDRingBuffer") {
						return true
					}
				}
			}
			for _, s := range b.Succs {
				if !seen[s] {
					seen[s] = true
					if walk(s, 0) {
						return true
					}
				}
			}
			return false
		}
		return walk(from, idx)
	}
	// the shutdown wait: a receive from the latch's channel
	var wait *ssa.UnOp
	for _, b := range f.Blocks {
		for _, ins := range b.Instrs {
			if u, ok := ins.(*ssa.UnOp); ok && u.Op == token.ARROW {
				if call, isC := u.X.(*ssa.Call); isC && call.Call.IsInvoke() && call.Call.Method.Name() == "Channel" {
					wait = u
				}
			}
		}
	}
	if wait == nil {
		res.Undec(rule, "(*proxyStreamSender).Run: shutdown wait", fnPos(c.Prog, f), "the receive from the latch's channel was not found")
		return
	}
	ok := false
	pt := flow.After(wait)
	if touchesRing(f, pt.Block, pt.Idx) {
		ok = true
	}
	for _, d := range flow.Defers(f) {
		if g := flow.DeferredFunc(d); g != nil && len(g.Blocks) > 0 {
			for _, h := range append([]*ssa.Function{g}, flow.Callees(g, true)...) {
				if h.Package() == f.Package() && len(h.Blocks) > 0 && touchesRing(h, h.Blocks[0], 0) {
					ok = true
				}
			}
		}
	}
	res.Check(ok, rule, "(*proxyStreamSender).Run: outstanding ring entries are examined when the stream ends", instrPos(c.Prog, wait), "the id ring is consulted after the shutdown wait or in a deferred call", "when the target stream ends, Run closes its channel and unregisters without looking at the id ring: tasks that were handed to this stream and not confirmed are lost with it, no source shard is made to resend them, and the next watermark confirmed by the reconnected (idle) target stream acknowledges them to their source")
}

// checkFreshPerHandover: a RoutedMessage handed to a target (closure that sends it on a channel, or
// Deliver*ToShardOwner) inside a loop is a fresh struct with a fresh payload on every iteration: from the hand-over
// no path leads back to the same hand-over without re-executing the allocation of the struct and the
// instruction that produced its Resp pointer. Target senders rewrite the message in place (task ids, watermark),
// so an object shared between targets carries one target's ids on another target's stream.
func checkFreshPerHandover(c *Ctx, res *report.Result, rule string, f *ssa.Function) {
	isRouted := func(t types.Type) bool {
		if p, ok := t.Underlying().(*types.Pointer); ok {
			return flow.NamedIs(p.Elem(), proxyPkg, "RoutedMessage")
		}
		return false
	}
	type use struct {
		at ssa.Instruction
		x  *ssa.Alloc
	}
	var uses []use
	for _, b := range f.Blocks {
		for _, ins := range b.Instrs {
			call, ok := ins.(ssa.CallInstruction)
			if !ok {
				continue
			}
			cc := call.Common()
			if cc.IsInvoke() && (cc.Method.Name() == "DeliverMessagesToShardOwner") {
				for _, a := range cc.Args {
					if al, isA := a.(*ssa.Alloc); isA && isRouted(al.Type()) {
						uses = append(uses, use{ins, al})
					}
				}
			}
			if mc, isMC := cc.Value.(*ssa.MakeClosure); isMC {
				fn, _ := mc.Fn.(*ssa.Function)
				sends := false
				if fn != nil {
					for _, sel := range selectsOf(fn) {
						for _, st := range sel.States {
							if st.Dir == types.SendOnly {
								sends = true
							}
						}
					}
				}
				if !sends {
					continue
				}
				for _, bnd := range mc.Bindings {
					if al, isA := bnd.(*ssa.Alloc); isA && isRouted(al.Type()) {
						uses = append(uses, use{ins, al})
					}
				}
			}
		}
	}
	n := 0
	for _, u := range uses {
		self := func(x ssa.Instruction) bool { return x == u.at }
		// only hand-overs that sit on a cycle (fan-out loops, retry loops) are of interest
		if r0 := flow.FindPath(flow.After(u.at), self, func(ssa.Instruction) bool { return false }, nil); !r0.Found {
			continue
		}
		n++
		construct := fmt.Sprintf("%s: message hand-over #%d (in a loop) is a fresh object with a fresh payload per hand-over", shortFn(f), n)
		if r := flow.FindPath(flow.After(u.at), self, func(x ssa.Instruction) bool { return x == ssa.Instruction(u.x) }, nil); r.Found {
			res.Viol(rule, construct, instrPos(c.Prog, u.at), "the same RoutedMessage object (allocated at "+instrPos(c.Prog, u.x)+", outside the loop) is handed to several targets: each target's sender rewrites its task ids and watermark in place, so one target's stream can carry another target's ids/watermark")
			continue
		}
		fs, _ := flow.FieldStores(u.x)
		v := fs["Resp"]
		if v == nil {
			// whole-struct store of a literal
			if w := flow.StructFieldOrigin(u.x, "Resp", 0); w != nil {
				v = w
			}
		}
		var def ssa.Instruction
		cur := v
		for i := 0; i < 5 && cur != nil; i++ {
			switch y := cur.(type) {
			case *ssa.TypeAssert:
				cur = y.X
				continue
			case *ssa.ChangeInterface:
				cur = y.X
				continue
			case *ssa.MakeInterface:
				cur = y.X
				continue
			case *ssa.Call:
				def = y
			case *ssa.Alloc:
				def = y
			}
			break
		}
		if def == nil {
			res.Undec(rule, construct, instrPos(c.Prog, u.at), "the origin of the message's Resp pointer was not recognised as a fresh allocation or a Clone call ("+flow.Describe(v)+")")
			continue
		}
		r := flow.FindPath(flow.After(u.at), self, func(x ssa.Instruction) bool { return x == def }, nil)
		if !res.Check(!r.Found, rule, construct, instrPos(c.Prog, u.at), "struct and payload are (re)created on every way back to the hand-over", "the payload pointer produced at "+instrPos(c.Prog, def)+" is reused for the next hand-over without being re-created: several targets receive the same message object and rewrite it in place") {
			continue
		}
		// a freshly allocated envelope is only as fresh as what it points to: every pointer / interface field of a
		// composite literal must itself be a literal created per hand-over or a proto.Clone - the target's sender
		// rewrites the watermark and the task ids through these pointers
		if al, isAl := def.(*ssa.Alloc); isAl {
			shared, unknown := sharedPayloadField(al, 0, func(d ssa.Instruction) bool {
				rr := flow.FindPath(flow.After(u.at), self, func(x ssa.Instruction) bool { return x == d }, nil)
				return !rr.Found
			})
			deep := fmt.Sprintf("%s: message hand-over #%d: nothing the payload points to is shared between hand-overs", shortFn(f), n)
			switch {
			case shared != "":
				res.Viol(rule, deep, instrPos(c.Prog, u.at), "the per-hand-over envelope points to "+shared+", which every other hand-over's envelope points to as well: the target senders rewrite the watermark (and task ids) in that shared body, so one target's stream carries - and later repeats in its keep-alive - another target's watermark")
			case unknown != "":
				res.Undec(rule, deep, instrPos(c.Prog, u.at), "origin of "+unknown+" not recognised as a per-hand-over literal or a proto.Clone")
			default:
				res.Hold(rule, deep, instrPos(c.Prog, u.at), "every pointer / interface field of the literal is a literal created per hand-over or a proto.Clone result")
			}
		}
	}
	if n < 2 {
		res.Undec(rule, shortFn(f)+": hand-overs in loops", fnPos(c.Prog, f), fmt.Sprintf("%d found, 3 confirmed by hand (local watermark fan-out, remote watermark fan-out, task retry loop)", n))
	}
}

// sharedPayloadField walks the pointer / interface fields of a composite literal. It returns a description of a
// field whose value is loaded from somewhere else (shared), or of one whose origin is not understood.
func sharedPayloadField(al *ssa.Alloc, depth int, perHandover func(ssa.Instruction) bool) (shared, unknown string) {
	if depth > 4 {
		return "", ""
	}
	fs, _ := flow.FieldStores(al)
	var names []string
	for k := range fs {
		names = append(names, k)
	}
	sort.Strings(names)
	for _, name := range names {
		v := fs[name]
		switch v.Type().Underlying().(type) {
		case *types.Pointer, *types.Interface:
		default:
			continue
		}
		cur := v
		for i := 0; i < 5; i++ {
			switch y := cur.(type) {
			case *ssa.TypeAssert:
				cur = y.X
				continue
			case *ssa.ChangeInterface:
				cur = y.X
				continue
			case *ssa.MakeInterface:
				cur = y.X
				continue
			}
			break
		}
		switch y := cur.(type) {
		case *ssa.Const:
			// nil
		case *ssa.Alloc:
			if !perHandover(y) {
				return "field " + name + " (a literal created outside the hand-over loop)", ""
			}
			if s, u := sharedPayloadField(y, depth+1, perHandover); s != "" || u != "" {
				return s, u
			}
		case *ssa.Call:
			if sc := flow.StaticCallee(y.Common()); sc != nil && sc.Name() == "Clone" && sc.Pkg != nil && strings.HasSuffix(sc.Pkg.Pkg.Path(), "protobuf/proto") {
				if !perHandover(y) {
					return "field " + name + " (a clone made outside the hand-over loop)", ""
				}
				continue
			}
			return "", "field " + name + " (" + flow.Describe(cur) + ")"
		case *ssa.UnOp:
			return "field " + name + " = " + flow.Describe(cur) + " (loaded from an object that exists outside the hand-over)", ""
		default:
			return "", "field " + name + " (" + flow.Describe(cur) + ")"
		}
	}
	return "", ""
}

// checkBatchBuffersFresh: the per-target task slices that go into hand-over messages are built afresh for every
// batch: the grouping map is created after the batch was received (inside the receive loop) and no task slice is
// re-sliced to length zero for reuse. A message queued for a slow target keeps the backing array of its task slice;
// a reused buffer is overwritten by the next batch while that message is still waiting.
func checkBatchBuffersFresh(c *Ctx, res *report.Result, rule string, f *ssa.Function) {
	isTaskSlice := func(t types.Type) bool {
		sl, ok := t.Underlying().(*types.Slice)
		if !ok {
			return false
		}
		return strings.Contains(sl.Elem().String(), "ReplicationTask")
	}
	var recv ssa.Instruction
	for _, call := range flow.Calls(f) {
		if call.Common().IsInvoke() && call.Common().Method.Name() == "Recv" {
			recv = call
		}
	}
	n := 0
	for _, b := range f.Blocks {
		for _, ins := range b.Instrs {
			switch x := ins.(type) {
			case *ssa.MakeMap:
				mt, ok := x.Type().Underlying().(*types.Map)
				if !ok || !isTaskSlice(mt.Elem()) {
					continue
				}
				n++
				res.Check(recv != nil && flow.InstrDominates(recv, x), rule, "recvReplicationMessages: the per-target grouping map is created per batch", instrPos(c.Prog, x), "make(map[..][]*ReplicationTask) after Recv, inside the loop", "the grouping map outlives a batch: its slices (and their backing arrays) are shared with messages of earlier batches that may still be queued for a slow target")
			case *ssa.Slice:
				if !isTaskSlice(x.X.Type()) && !isTaskSlice(x.Type()) {
					continue
				}
				if k, isK := flow.ConstInt(x.High); isK && k == 0 {
					res.Viol(rule, "recvReplicationMessages: task slices are not recycled", instrPos(c.Prog, x), "a task slice is re-sliced to length 0 for reuse: the next append overwrites the backing array that a message still queued for a slow target refers to - its tasks are replaced by later ones (lost, and the later ones delivered twice)")
				}
			}
		}
	}
	if n == 0 {
		res.Undec(rule, "recvReplicationMessages: per-target grouping map", fnPos(c.Prog, f), "no map of task slices found")
	}
}
