package rules

import (
	"fmt"
	"go/token"
	"go/types"
	"strings"

	"golang.org/x/tools/go/ssa"

	"s2scheck/internal/flow"
	"s2scheck/internal/report"
)

func init() { Registry["C06"] = c06 }

// deferredCalls lists the calls made by deferred closures / deferred calls of f that cover `at`
// (nil at = any defer in the entry region).
func deferredCallsOf(f *ssa.Function) []ssa.CallInstruction {
	var out []ssa.CallInstruction
	for _, d := range flow.Defers(f) {
		out = append(out, d)
		if fn := flow.StaticCallee(&d.Call); fn != nil && fn.Blocks != nil && fn.Parent() == f {
			out = append(out, flow.Calls(fn)...)
		}
	}
	return out
}

// entryDefers: defers executed before any instruction that can return (they cover every exit).
func coversAllExits(f *ssa.Function, d *ssa.Defer) bool {
	r := flow.FindPath(flow.Point{Block: f.Blocks[0]}, func(x ssa.Instruction) bool { return flow.IsReturn(x) || flow.IsPanic(x) }, func(x ssa.Instruction) bool { return x == ssa.Instruction(d) }, nil)
	return !r.Found
}

func c06(c *Ctx) (*report.Result, error) {
	res := newResult("C06")
	res.RuleDoc["O6.1"] = "either direction stopping trips the latch: forwardReplicationMessages and forwardAcks call shutdownChan.Shutdown() and wg.Done() on every exit (deferred before anything can return)"
	res.RuleDoc["O6.2"] = "both blocking points can be released: each relay loop and each listener hand-off selects on the latch; Run cancels the outgoing context on every exit and opens the source stream with it; forwardAcks closes the send side on exit"
	res.RuleDoc["O6.3"] = "relay identity: what is sent to one side is the value received from the other, with no store through it in between"
	res.RuleDoc["O6.4"] = "every abnormal event ends the loop: from a receive error, a failed Send and an unknown message kind all paths reach return without another iteration"
	res.RuleDoc["O6.5"] = "no helper goroutine can be stranded: a goroutine that sends on an unbuffered channel created by its parent must not have the parent's only receive sit in a select with another arm"
	res.RuleDoc["O6.7"] = "proxy shutdown ends open pass-through streams: the forwarder does not watch the proxy lifetime, so in TCP mode the client connection it forwards on must be closed by the lifetime itself - buildTLSTCPClient schedules Close of the connection it creates with context.AfterFunc(lifetime, ..), not behind a GracefulStop (which waits for the very handlers that only the close releases)"
	res.RuleDoc["O6.8"] = "the relays cannot wedge on the stream tracker: both relay loops update the global StreamTracker once per message, so no critical section of its mutex (or of the stream observer's) re-acquires the same mutex - a recursive RLock deadlocks as soon as a relay's write lock queues in between (same analysis as O20.6)"
	res.RuleDoc["O6.6"] = "mode dispatch: handleStream reaches forwarder.Run exactly for the default and LCM modes"

	relays := []struct {
		a              anchor
		recvFrom, send string // field of the side read / written
	}{
		{anchor{"proxy", "*StreamForwarder", "forwardReplicationMessages"}, "sourceStreamClient", "targetStreamServer"},
		{anchor{"proxy", "*StreamForwarder", "forwardAcks"}, "targetStreamServer", "sourceStreamClient"},
	}
	for _, rl := range relays {
		f := resolve(c, res, "O6.1", rl.a)
		if f == nil {
			continue
		}
		name := rl.a.name
		// ---- O6.1
		var shut, done *ssa.Defer
		for _, d := range flow.Defers(f) {
			fn := flow.StaticCallee(&d.Call)
			if fn == nil || fn.Blocks == nil {
				continue
			}
			for _, call := range flow.Calls(fn) {
				cc := call.Common()
				if cc.IsInvoke() && cc.Method.Name() == "Shutdown" {
					if _, fld, ok := flow.FieldLoadOf(cc.Value); ok && fld == "shutdownChan" {
						// on every path of the deferred closure
						r := flow.FindPath(flow.Point{Block: fn.Blocks[0]}, flow.IsReturn, func(x ssa.Instruction) bool { return x == ssa.Instruction(call) }, nil)
						if !r.Found {
							shut = d
						}
					}
				}
				if cal := flow.StaticCallee(cc); cal != nil && cal.Name() == "Done" && flow.NamedIs(cal.Signature.Recv().Type(), "sync", "WaitGroup") {
					r := flow.FindPath(flow.Point{Block: fn.Blocks[0]}, flow.IsReturn, func(x ssa.Instruction) bool { return x == ssa.Instruction(call) }, nil)
					if !r.Found {
						done = d
					}
				}
			}
		}
		res.Check(shut != nil && coversAllExits(f, shut), "O6.1", name+": latch tripped on every exit", fnPos(c.Prog, f), "deferred shutdownChan.Shutdown() registered before any exit", "this direction can stop without tripping the latch: the other direction and the handler keep running (half-open stream)")
		res.Check(done != nil && coversAllExits(f, done), "O6.1", name+": wg.Done() on every exit", fnPos(c.Prog, f), "deferred wg.Done() registered before any exit", "this direction can stop without wg.Done(): Run never returns")

		// ---- O6.2 relay loop selects on the latch and the data channel
		sel := selectsOf(f)
		okSel := false
		var dataRecv ssa.Value // the received ValueWithError
		var theSel *ssa.Select
		for _, s := range sel {
			hasLatch, hasData := false, false
			for _, st := range s.States {
				if st.Dir != types.RecvOnly {
					continue
				}
				if call, ok := st.Chan.(*ssa.Call); ok && call.Call.IsInvoke() && call.Call.Method.Name() == "Channel" {
					if _, fld, ok := flow.FieldLoadOf(call.Call.Value); ok && fld == "shutdownChan" {
						hasLatch = true
					}
				}
				if call, ok := flow.ResolveLoad(st.Chan).(*ssa.Call); ok {
					if cal := flow.StaticCallee(&call.Call); cal != nil && strings.HasPrefix(cal.Name(), "startListener") {
						hasData = true
					}
				}
			}
			if hasLatch && hasData && s.Blocking {
				okSel = true
				theSel = s
			}
		}
		res.Check(okSel, "O6.2", name+": relay loop waits on data or the latch", fnPos(c.Prog, f), "select { case <-shutdownChan.Channel(): return; case v := <-dataChan: }", "the relay loop blocks on its data channel without watching the latch: it cannot be released when the other direction stops")
		if theSel != nil {
			// latch arm returns
			for i, st := range theSel.States {
				if call, ok := st.Chan.(*ssa.Call); ok && call.Call.IsInvoke() && call.Call.Method.Name() == "Channel" {
					blk := selectArmBlock(theSel, i)
					okRet := blk != nil
					if okRet {
						r := flow.FindPath(flow.Point{Block: blk}, func(x ssa.Instruction) bool { return x == ssa.Instruction(theSel) }, flow.IsReturn, nil)
						okRet = !r.Found
					}
					res.Check(okRet, "O6.2", name+": latch arm ends the loop", instrPos(c.Prog, theSel), "return", "after the latch fired the loop continues")
				}
			}
			for i, st := range theSel.States {
				if call, ok := flow.ResolveLoad(st.Chan).(*ssa.Call); ok {
					if cal := flow.StaticCallee(&call.Call); cal != nil && strings.HasPrefix(cal.Name(), "startListener") {
						// listener reads the right side
						if _, fld, ok := flow.FieldLoadOf(flow.Strip(call.Call.Args[0])); ok {
							res.Check(fld == rl.recvFrom, "O6.2", name+": listens on "+rl.recvFrom, instrPos(c.Prog, call), "startListener(f."+fld+", ..)", "the listener reads from "+fld)
						}
						// received value: Extract of select at index 2+k
						dataRecv = selectRecvValue(theSel, i)
					}
				}
			}
		}
		// ---- O6.3 identity
		sends := flow.FindCalls(f, func(cc *ssa.CallCommon) bool {
			if !cc.IsInvoke() || cc.Method.Name() != "Send" {
				return false
			}
			_, fld, ok := flow.FieldLoadOf(cc.Value)
			return ok && fld == rl.send
		})
		// a method of the forwarder that wraps the Send (one Send on the same field, of one of its parameters, result
		// returned) stands for it
		wrapArg := -1
		if len(sends) == 0 {
			for _, call := range flow.Calls(f) {
				sc := flow.StaticCallee(call.Common())
				if _, isCall := call.(*ssa.Call); !isCall || sc == nil || sc.Signature.Recv() == nil || len(sc.Blocks) == 0 || len(call.Common().Args) == 0 || flow.Strip(flow.ResolveLoad(call.Common().Args[0])) != ssa.Value(f.Params[0]) {
					continue
				}
				inner := flow.FindCalls(sc, func(cc *ssa.CallCommon) bool {
					if !cc.IsInvoke() || cc.Method.Name() != "Send" {
						return false
					}
					base, fld, ok := flow.FieldLoadOf(cc.Value)
					return ok && fld == rl.send && flow.Strip(flow.ResolveLoad(base)) == ssa.Value(sc.Params[0])
				})
				if len(inner) != 1 {
					continue
				}
				k := -1
				for i, p := range sc.Params {
					if flow.Strip(flow.ResolveLoad(inner[0].Common().Args[0])) == ssa.Value(p) {
						k = i
					}
				}
				okRet := k > 0
				for _, b := range sc.Blocks {
					if ret, isR := b.Instrs[len(b.Instrs)-1].(*ssa.Return); isR && b != sc.Recover {
						if len(ret.Results) != 1 || flow.Ret(ret)[0] != ssa.Value(inner[0].(*ssa.Call)) {
							okRet = false
						}
					}
				}
				if okRet {
					sends = append(sends, call)
					wrapArg = k
				}
			}
		}
		if len(sends) != 1 {
			res.Undec("O6.3", name+": Send on "+rl.send, fnPos(c.Prog, f), fmt.Sprintf("%d Send calls", len(sends)))
		} else {
			arg := sends[0].Common().Args[0]
			if wrapArg >= 0 {
				arg = sends[0].Common().Args[wrapArg]
			}
			okID := dataRecv != nil && derivesByFieldVal(arg, dataRecv)
			res.Check(okID, "O6.3", name+": the message sent is the message received", instrPos(c.Prog, sends[0]), "Send(v.val) of the value taken from the listener channel", "the value passed to Send is not the value received from the other side")
			// no store through the message between receive and send: no Store whose address derives from the message
			mut := ""
			for _, b := range f.Blocks {
				for _, ins := range b.Instrs {
					if st, ok := ins.(*ssa.Store); ok {
						if addrDerivesFrom(st.Addr, arg, 0) {
							mut = instrPos(c.Prog, st)
						}
					}
				}
			}
			res.Check(mut == "", "O6.3", name+": the relayed message is not modified", instrPos(c.Prog, sends[0]), "no store through the message", "the message is written to before it is relayed ("+mut+")")
			// ---- O6.4 failed Send ends the loop
			sv := sends[0].(*ssa.Call)
			if theSel != nil {
				errSucc := errorSucc(f, ssa.Value(sv))
				okEnd := errSucc != nil && !flow.ReachBlock(errSucc, theSel.Block(), nil)
				res.Check(okEnd, "O6.4", name+": a failed Send ends the loop", instrPos(c.Prog, sv), "err != nil -> return", "after a failed Send the loop goes on relaying on a dead stream")
			}
		}
		// ---- O6.4 receive error and unknown kind
		if theSel != nil && dataRecv != nil {
			// err field of the received value
			var errVals []ssa.Value
			collectFieldVals(dataRecv, "err", &errVals)
			okErr := false
			for _, b := range f.Blocks {
				iff := lastIfOf(b)
				if iff == nil {
					continue
				}
				bo, ok := iff.Cond.(*ssa.BinOp)
				if !ok || bo.Op != token.NEQ || !flow.IsNilConst(bo.Y) {
					continue
				}
				isErr := false
				for _, ev := range errVals {
					if flow.ResolveLoad(bo.X) == ev || bo.X == ev {
						isErr = true
					}
				}
				if !isErr {
					continue
				}
				if !flow.ReachBlock(b.Succs[0], theSel.Block(), nil) {
					okErr = true
				}
			}
			res.Check(okErr, "O6.4", name+": a receive error ends the loop", instrPos(c.Prog, theSel), "err != nil -> return", "after a receive error (other than the handled EOF) the loop continues")
			// unknown kind: the type switch's default arm returns. Find the TypeAssert(s) on GetAttributes(); the block
			// reached when all fail must not reach the select again.
			var lastTA *ssa.TypeAssert
			for _, b := range f.Blocks {
				for _, ins := range b.Instrs {
					if ta, ok := ins.(*ssa.TypeAssert); ok && ta.CommaOk {
						if call, ok := ta.X.(*ssa.Call); ok && isMethodNamed(&call.Call, "GetAttributes") {
							lastTA = ta
						}
					}
				}
			}
			if lastTA == nil {
				res.Undec("O6.4", name+": message kind dispatch", fnPos(c.Prog, f), "no type switch on GetAttributes() found")
			} else {
				var okv ssa.Value
				for _, r := range *lastTA.Referrers() {
					if ex, ok := r.(*ssa.Extract); ok && ex.Index == 1 {
						okv = ex
					}
				}
				okDef := false
				for _, b := range f.Blocks {
					if iff := lastIfOf(b); iff != nil && iff.Cond == okv {
						if !flow.ReachBlock(b.Succs[1], theSel.Block(), nil) {
							okDef = true
						}
					}
				}
				res.Check(okDef, "O6.4", name+": an unknown message kind ends the loop", instrPos(c.Prog, lastTA), "default -> return", "an unknown message kind is skipped and the loop continues")
			}
		}
	}
	// forwardAcks closes the send side on exit
	if f := resolve(c, res, "O6.2", anchor{"proxy", "*StreamForwarder", "forwardAcks"}); f != nil {
		ok := false
		for _, d := range flow.Defers(f) {
			fn := flow.StaticCallee(&d.Call)
			if fn == nil {
				continue
			}
			for _, g := range append([]*ssa.Function{fn}, flow.AnonFuncsDeep(fn)...) {
				for _, call := range flow.Calls(g) {
					cc := call.Common()
					if cc.IsInvoke() && cc.Method.Name() == "CloseSend" && coversAllExits(f, d) {
						ok = true
					}
				}
			}
		}
		res.Check(ok, "O6.2", "forwardAcks: send side of the source stream is closed on exit", fnPos(c.Prog, f), "deferred CloseSend", "the outgoing stream's send side is left open when the ack direction stops")
	}
	// listener hand-off selects on the latch
	if sl := listenerClosure(c, res); sl != nil {
		ok := false
		for _, s := range selectsOf(sl) {
			hasSend, hasLatch := false, false
			for _, st := range s.States {
				if st.Dir == types.SendOnly {
					hasSend = true
				}
				if st.Dir == types.RecvOnly {
					if call, isC := st.Chan.(*ssa.Call); isC && call.Call.IsInvoke() && call.Call.Method.Name() == "Channel" {
						hasLatch = true
					}
				}
			}
			if hasSend && hasLatch {
				ok = true
			}
		}
		res.Check(ok, "O6.2", "startListener: hand-off of a received value watches the latch", fnPos(c.Prog, sl), "select { case ch <- v: case <-shutdown: return }", "the listener goroutine can block forever handing over a value nobody will read")
		// no plain (non-select) send
		for _, b := range sl.Blocks {
			for _, ins := range b.Instrs {
				if _, isSend := ins.(*ssa.Send); isSend {
					res.Viol("O6.2", "startListener: unconditional send", instrPos(c.Prog, ins), "the listener sends without watching the latch")
				}
			}
		}
	}
	// Run: cancel deferred; stream opened with the cancellable context
	if f := resolve(c, res, "O6.2", anchor{"proxy", "*StreamForwarder", "Run"}); f != nil {
		var wc *ssa.Call
		for _, call := range flow.Calls(f) {
			if flow.IsCallTo(call.Common(), "context", "", "WithCancel") {
				wc, _ = call.(*ssa.Call)
			}
		}
		ok := false
		why := "no context.WithCancel"
		if wc != nil {
			var ctxv, cancel ssa.Value
			for _, r := range *wc.Referrers() {
				if ex, isEx := r.(*ssa.Extract); isEx {
					if ex.Index == 0 {
						ctxv = ex
					} else {
						cancel = ex
					}
				}
			}
			why = "the cancel function is not deferred before any exit"
			for _, d := range flow.Defers(f) {
				if coversAllExits2(f, d, wc) && deferRuns(d, func(cc *ssa.CallCommon, outer func(ssa.Value) ssa.Value) bool {
					return !cc.IsInvoke() && (cc.Value == cancel || outer(cc.Value) == cancel)
				}) {
					ok = true
				}
			}
			if ok {
				ok = false
				why = "the source stream is not opened with the cancellable context"
				for _, call := range flow.Calls(f) {
					cc := call.Common()
					if cc.IsInvoke() && cc.Method.Name() == "StreamWorkflowReplicationMessages" && len(cc.Args) >= 1 && flow.ResolveLoad(cc.Args[0]) == ctxv {
						ok = true
					}
				}
			}
		}
		// ... and that context descends from the initiator's stream context without a cut: the initiator going away
		// (its context is cancelled) must release a relay that is blocked in Send/Recv on the source side
		if wc != nil {
			chain := []string{}
			cur := ssa.Value(wc.Call.Args[0])
			verdict := "?"
			for i := 0; i < 10 && cur != nil; i++ {
				cur = flow.Strip(flow.ResolveLoad(cur))
				switch x := cur.(type) {
				case *ssa.Extract:
					cur = x.Tuple
					continue
				case *ssa.Call:
					if x.Call.IsInvoke() && x.Call.Method.Name() == "Context" {
						if _, fld, okf := flow.FieldLoadOf(flow.ResolveLoad(x.Call.Value)); okf && fld == "targetStreamServer" {
							verdict = "ok"
						} else {
							verdict = "the context of something other than the initiator's stream"
						}
						cur = nil
						continue
					}
					cal := flow.StaticCallee(&x.Call)
					if cal == nil || len(x.Call.Args) == 0 {
						verdict = "an unresolved call " + flow.CalleeName(&x.Call)
						cur = nil
						continue
					}
					name := cal.String()
					chain = append(chain, name)
					switch name {
					case "context.WithoutCancel", "context.Background", "context.TODO":
						verdict = name + " cuts the cancellation chain"
						cur = nil
					case "context.WithCancel", "context.WithValue", "context.WithTimeout", "context.WithDeadline", "context.WithCancelCause",
						"google.golang.org/grpc/metadata.NewOutgoingContext", "google.golang.org/grpc/metadata.AppendToOutgoingContext":
						cur = x.Call.Args[0]
					default:
						if cal.Package() != nil && strings.HasPrefix(cal.Package().Pkg.Path(), modPath) && len(x.Call.Args) > 0 {
							verdict = "a module helper " + name + " (not followed)"
						} else {
							verdict = "an unreviewed context constructor " + name
						}
						cur = nil
					}
					continue
				}
				verdict = "an unrecognised origin " + flow.Describe(cur)
				cur = nil
			}
			switch {
			case verdict == "ok":
				res.Hold("O6.2", "Run: the source stream's context descends from the initiator's stream context", instrPos(c.Prog, wc), strings.Join(chain, " <- "))
			case strings.Contains(verdict, "cuts the cancellation chain") || strings.Contains(verdict, "other than the initiator"):
				res.Viol("O6.2", "Run: the source stream's context descends from the initiator's stream context", instrPos(c.Prog, wc), verdict+": when the initiator goes away while forwardAcks is blocked in Send towards a source that is not reading (or forwardReplicationMessages idles in Recv), nothing cancels the source stream, the latch is never tripped and Run never returns")
			default:
				res.Undec("O6.2", "Run: the source stream's context descends from the initiator's stream context", instrPos(c.Prog, wc), verdict)
			}
		}
		res.Check(ok, "O6.2", "Run: outgoing context cancelled on every exit and used for the source stream", fnPos(c.Prog, f), "ctx, cancel := WithCancel(..); defer cancel(); adminClient.Stream..(ctx)", why+": a listener blocked in Recv on the source side could never be released")
		// both relays started, latch created before
		gos := 0
		for _, b := range f.Blocks {
			for _, ins := range b.Instrs {
				if g, isGo := ins.(*ssa.Go); isGo {
					if cal := flow.StaticCallee(&g.Call); cal != nil && (strings.HasPrefix(cal.Name(), "forwardAcks") || strings.HasPrefix(cal.Name(), "forwardReplicationMessages")) {
						gos++
					}
				}
			}
		}
		waits := flow.FindCalls(f, func(cc *ssa.CallCommon) bool {
			cal := flow.StaticCallee(cc)
			return cal != nil && cal.Name() == "Wait" && flow.NamedIs(cal.Signature.Recv().Type(), "sync", "WaitGroup")
		})
		res.Check(gos == 2 && len(waits) == 1, "O6.2", "Run: starts both directions and waits for both", fnPos(c.Prog, f), "go forwardAcks; go forwardReplicationMessages; wg.Wait()", fmt.Sprintf("%d relay goroutines, %d waits", gos, len(waits)))
	}

	checkStrandedHelpers(c, res)
	checkModeDispatch(c, res)

	res.Explanation = "SSA of proxy.StreamForwarder.Run / forwardReplicationMessages / forwardAcks / startListener and handleStream: deferred latch-trip and wg.Done cover every exit; every blocking point (relay select, listener hand-off) has the latch as an alternative; value identity between what is received from one side and sent to the other; control flow from every abnormal event to return without re-entering the loop; a pattern rule for helper goroutines that can be stranded on an unbuffered channel; constant dispatch on the shard-count mode. Decides the shutdown wiring and relay faithfulness on every path; does not decide message ordering inside the gRPC libraries or timing."
	res.Assumptions = []string{"channel.ShutdownOnce.Channel() is closed by Shutdown()", "cancelling the stream context releases a blocked client Recv"}
	checkClientClosedByLifetime(c, res, "O6.7")
	if spx, err := c.Prog.SSAPkg("proxy"); err == nil {
		n := checkReentrancy(c, res, "O6.8", []*ssa.Package{spx}, func(key string) bool {
			return strings.HasPrefix(key, "ReplicationStreamObserver.") || strings.HasPrefix(key, "StreamTracker.")
		})
		if n < 10 {
			res.Undec("O6.8", "critical sections of the tracker and the observer", "", fmt.Sprintf("%d found", n))
		}
	}
	res.RuleDoc["O6.9"] = "no swallowed error in the files the mechanism lives in: no function returns a nil error on a path on which an error obtained from a call is known to be non-nil (io.EOF from a stream Recv, the normal end of a receive loop, is the one accepted idiom)"
	checkNoSwallowedErrors(c, res, "O6.9", []string{"proxy/admin_stream_transfer.go", "proxy/adminservice.go"})
	res.RuleDoc["O6.10"] = "relay loops pass every message on: in every loop that takes messages from a stream or channel and forwards them, no path from the take to the next take avoids every stream Send / channel send / Deliver*ToShardOwner (a forwarding loop that runs zero times, the wrong-kind edges of a type assertion and a return that ends the stream are not bypasses; the ack aggregator sendAck is the reviewed exception)"
	checkRelayLoops(c, res, "O6.10", []string{"proxy/admin_stream_transfer.go"}, 3)
	res.RuleDoc["O6.11"] = "the stream handler's bookkeeping cannot refuse a well-formed stream: ReportStreamValue, called before the relay starts, reaches streamActive[idx] only where idx < len(streamActive) is established - the growth test is against the indexed slice's length and the edge that skips the growth implies idx < len (same analysis as O20.9); an off-by-one there panics for the shard id equal to the table's length and that shard's stream is never relayed"
	checkObserverIndexGuard(c, res, "O6.11")
	res.RuleDoc["O6.14"] = "the relays can receive what the clusters send: MakeDialOptions hands grpc.WithDefaultCallOptions a grpc.MaxCallRecvMsgSize of at least 128 MiB (Temporal's internode maximum) - with gRPC's 4 MiB default a larger replication batch fails the relay's Recv and the stream is ended as if the source had closed it"
	checkClientRecvLimit(c, res, "O6.14")
	res.RuleDoc["O6.15"] = "the translating stream wrapper never withholds a message: every path of streamTranslator.SendMsg / RecvMsg reaches the underlying ServerStream's method (a translator's error is logged, the message is relayed as it is)"
	checkStreamTranslatorForwards(c, res, "O6.15")
	res.RuleDoc["O6.20"] = "a batch that needs the UTF-8 repair does not kill the relay: every WithLabelValues call with an explicit value list on the decode path (codec, interceptor, compat, proxy, transport) passes as many values as its vector has labels (same analysis as O17.9) - the codec runs inside gRPC's RecvMsg on the forwarder's listener goroutine, where a prometheus panic ends the process, and after the restart the source sends the same batch again"
	checkMetricLabelArity(c, res, "O6.20", []string{"proto/compat/", "interceptor/", "proxy/", "transport/"}, 15)
	res.RuleDoc["O6.19"] = "an unreachable source ends the relay at once: no call option of the module asks gRPC to wait for a ready connection (same analysis as O11.9) - with wait-for-ready on streams, StreamForwarder.Run blocks in the stream open while no session exists, before its workers start: the handler does not return and the initiator keeps a healthy-looking stream with nobody behind it"
	checkNoWaitForReady(c, res, "O6.19")
	res.RuleDoc["O6.18"] = "a source side that fails silently still ends the relay: both yamux session factories hand yamux a config with keep-alive enabled (same analysis as O10.12) - over the mux transport the keep-alive is the only thing that closes a session whose peer stopped answering without a FIN; without it both forwarder goroutines stay in Recv, the initiator keeps a half-open stream and the remote proxy keeps its source stream"
	checkYamuxKeepAlive(c, res, "O6.18")
	res.RuleDoc["O6.17"] = "a forwarder's workers wait only on things that end with their own stream: every blocking channel operation in admin_stream_transfer.go (and in the forwarder methods its workers call) is a select with an arm on the stream's latch, a context's Done() or a timer, a bare receive from such a channel, or a bare send on a one-shot buffered channel made in the enclosing function - a wait on anything else (a process-wide semaphore) parks the worker beyond the reach of the latch, so the two directions no longer end together, and couples unrelated streams"
	checkForwarderWaits(c, res, "O6.17", 6)
	res.RuleDoc["O6.16"] = "the forwarder's workers do not panic on their metrics: every WithLabelValues call in package proxy that spreads a label slice field agrees with its siblings on that slice's length (same analysis as O20.12) - a panic in forwardReplicationMessages / forwardAck is not captured and ends every relay of the process"
	checkMetricLabelSpread(c, res, "O6.16", []string{"proxy/"}, 8)
	res.RuleDoc["O6.12"] = "the forwarder's worker bookkeeping is consistent (same analysis as O8.15): Add equals the number of goroutines started with the WaitGroup, each calls Done from an entry-block defer, none runs synchronously and Run does not return before Wait - otherwise the handler never returns or returns under running relays"
	checkWaitGroups(c, res, "O6.12", []string{"proxy/admin_stream_transfer.go"}, 2)
	return res, nil
}

func coversAllExits2(f *ssa.Function, d *ssa.Defer, after ssa.Instruction) bool {
	r := flow.FindPath(flow.After(after), func(x ssa.Instruction) bool { return flow.IsReturn(x) || flow.IsPanic(x) }, func(x ssa.Instruction) bool { return x == ssa.Instruction(d) }, nil)
	return !r.Found
}

func selectsOf(f *ssa.Function) []*ssa.Select {
	var out []*ssa.Select
	for _, b := range f.Blocks {
		for _, ins := range b.Instrs {
			if s, ok := ins.(*ssa.Select); ok {
				out = append(out, s)
			}
		}
	}
	return out
}

// selectArmBlock: the block executed when state i of the select fires.
func selectArmBlock(s *ssa.Select, i int) *ssa.BasicBlock {
	var idx ssa.Value
	for _, r := range *s.Referrers() {
		if ex, ok := r.(*ssa.Extract); ok && ex.Index == 0 {
			idx = ex
		}
	}
	if idx == nil {
		return nil
	}
	for _, b := range s.Parent().Blocks {
		iff := lastIfOf(b)
		if iff == nil {
			continue
		}
		if bo, ok := iff.Cond.(*ssa.BinOp); ok && bo.Op == token.EQL && bo.X == idx {
			if n, ok := flow.ConstInt(bo.Y); ok && int(n) == i {
				return b.Succs[0]
			}
		}
	}
	return nil
}

// selectRecvValue: the value received by state i (tuple index 2 + number of preceding receive states).
func selectRecvValue(s *ssa.Select, i int) ssa.Value {
	k := 2
	for j := 0; j < i; j++ {
		if s.States[j].Dir == types.RecvOnly {
			k++
		}
	}
	for _, r := range *s.Referrers() {
		if ex, ok := r.(*ssa.Extract); ok && ex.Index == k {
			return ex
		}
	}
	return nil
}

// derivesByFieldVal: v is field `val` of the struct value src (possibly through a local copy).
func derivesByFieldVal(v, src ssa.Value) bool {
	var vals []ssa.Value
	collectFieldVals(src, "val", &vals)
	v = flow.ResolveLoad(v)
	for _, x := range vals {
		if v == x || flow.ResolveLoad(x) == v {
			return true
		}
	}
	// through phi of single assignment
	if phi, ok := v.(*ssa.Phi); ok {
		for _, e := range phi.Edges {
			for _, x := range vals {
				if e == x {
					return true
				}
			}
		}
	}
	return false
}

// collectFieldVals gathers values that read field `name` of struct value src (Field on the value, or
// loads through a local copy).
func collectFieldVals(src ssa.Value, name string, out *[]ssa.Value) {
	refs := src.Referrers()
	if refs == nil {
		return
	}
	for _, r := range *refs {
		switch x := r.(type) {
		case *ssa.Field:
			if flow.FieldName(x.X.Type(), x.Field) == name {
				*out = append(*out, x)
				// phis merging it
				for _, rr := range *x.Referrers() {
					if phi, ok := rr.(*ssa.Phi); ok {
						*out = append(*out, phi)
					}
				}
			}
		case *ssa.Store:
			if x.Val == src {
				if al, ok := x.Addr.(*ssa.Alloc); ok {
					for _, rr := range *al.Referrers() {
						if fa, ok := rr.(*ssa.FieldAddr); ok && flow.FieldName(fa.X.Type(), fa.Field) == name {
							for _, r3 := range *fa.Referrers() {
								if ld, ok := r3.(*ssa.UnOp); ok {
									*out = append(*out, ld)
									for _, r4 := range *ld.Referrers() {
										if phi, ok := r4.(*ssa.Phi); ok {
											*out = append(*out, phi)
										}
									}
								}
							}
						}
					}
				}
			}
		}
	}
}

func addrDerivesFrom(addr, base ssa.Value, depth int) bool {
	if depth > 6 {
		return false
	}
	if addr == base {
		return true
	}
	switch x := addr.(type) {
	case *ssa.FieldAddr:
		return addrDerivesFrom(x.X, base, depth+1)
	case *ssa.IndexAddr:
		return addrDerivesFrom(x.X, base, depth+1)
	case *ssa.UnOp:
		return addrDerivesFrom(x.X, base, depth+1)
	case *ssa.Call:
		if len(x.Call.Args) > 0 && !x.Call.IsInvoke() {
			return addrDerivesFrom(x.Call.Args[0], base, depth+1)
		}
	case *ssa.Phi:
		for _, e := range x.Edges {
			if e == base {
				return true
			}
		}
	case *ssa.TypeAssert:
		return addrDerivesFrom(x.X, base, depth+1)
	case *ssa.Extract:
		return addrDerivesFrom(x.Tuple, base, depth+1)
	case *ssa.Field:
		return addrDerivesFrom(x.X, base, depth+1)
	case *ssa.ChangeInterface:
		return addrDerivesFrom(x.X, base, depth+1)
	case *ssa.MakeInterface:
		return addrDerivesFrom(x.X, base, depth+1)
	}
	if r := flow.ResolveLoad(addr); r != addr {
		return addrDerivesFrom(r, base, depth+1)
	}
	return false
}

// errorSucc: the block taken when the error value errv is non-nil.
func errorSucc(f *ssa.Function, errv ssa.Value) *ssa.BasicBlock {
	for _, b := range f.Blocks {
		iff := lastIfOf(b)
		if iff == nil {
			continue
		}
		bo, ok := iff.Cond.(*ssa.BinOp)
		if !ok || (bo.Op != token.NEQ && bo.Op != token.EQL) {
			continue
		}
		x := flow.ResolveLoad(bo.X)
		if x != errv || !flow.IsNilConst(bo.Y) {
			continue
		}
		if bo.Op == token.NEQ {
			return b.Succs[0]
		}
		return b.Succs[1]
	}
	return nil
}

func listenerClosure(c *Ctx, res *report.Result) *ssa.Function {
	sp, err := c.Prog.SSAPkg("proxy")
	if err != nil {
		return nil
	}
	f := sp.Func("startListener")
	if f == nil {
		res.Undec("O6.2", "proxy.startListener", "", "anchor does not resolve")
		return nil
	}
	if len(f.AnonFuncs) != 1 {
		res.Undec("O6.2", "startListener: goroutine closure", fnPos(c.Prog, f), "expected one closure")
		return nil
	}
	return f.AnonFuncs[0]
}

// checkStrandedHelpers: goroutine closures that send (blocking) on an unbuffered channel created by the
// parent, where every receive of the parent on that channel is one arm of a multi-arm select.
func checkStrandedHelpers(c *Ctx, res *report.Result) {
	rule := "O6.5"
	n := 0
	for _, f := range c.Prog.RepoFuncs() {
		if !isShippedFunc(f) {
			continue
		}
		for _, b := range f.Blocks {
			for _, ins := range b.Instrs {
				g, ok := ins.(*ssa.Go)
				if !ok {
					continue
				}
				mc, ok := g.Call.Value.(*ssa.MakeClosure)
				if !ok {
					continue
				}
				child, _ := mc.Fn.(*ssa.Function)
				if child == nil {
					continue
				}
				for _, cb := range child.Blocks {
					for _, ci := range cb.Instrs {
						snd, ok := ci.(*ssa.Send)
						if !ok {
							continue
						}
						// channel: load of a free variable bound to a parent's cell holding a MakeChan
						ld, ok := snd.Chan.(*ssa.UnOp)
						if !ok {
							continue
						}
						fv, ok := ld.X.(*ssa.FreeVar)
						if !ok {
							continue
						}
						idx := -1
						for i, v := range child.FreeVars {
							if v == fv {
								idx = i
							}
						}
						if idx < 0 || idx >= len(mc.Bindings) {
							continue
						}
						cell, ok := mc.Bindings[idx].(*ssa.Alloc)
						if !ok {
							continue
						}
						var mk *ssa.MakeChan
						for _, r := range *cell.Referrers() {
							if st, ok := r.(*ssa.Store); ok && st.Addr == ssa.Value(cell) {
								mk, _ = st.Val.(*ssa.MakeChan)
							}
						}
						if mk == nil {
							continue
						}
						n++
						size, _ := flow.ConstInt(mk.Size)
						construct := fmt.Sprintf("%s: helper goroutine sends on %s", shortFn(f), cell.Comment)
						if size >= 1 {
							res.Hold(rule, construct, instrPos(c.Prog, g), fmt.Sprintf("channel buffered (%d): the send cannot block", size))
							continue
						}
						// parent's receives on the channel
						plain, inSelect := 0, 0
						for _, r := range *cell.Referrers() {
							l, ok := r.(*ssa.UnOp)
							if !ok || l.Op != token.MUL {
								continue
							}
							for _, rr := range *l.Referrers() {
								switch x := rr.(type) {
								case *ssa.UnOp:
									if x.Op == token.ARROW {
										plain++
									}
								case *ssa.Select:
									if len(x.States) > 1 || !x.Blocking {
										inSelect++
									} else {
										plain++
									}
								}
							}
						}
						if plain == 0 && inSelect > 0 {
							res.Viol(rule, construct, instrPos(c.Prog, snd), "the goroutine sends on an unbuffered channel whose only receiver sits in a select with another arm (timeout): when the other arm wins, the goroutine blocks forever - a stuck worker per stream")
						} else {
							res.Hold(rule, construct, instrPos(c.Prog, g), "the parent receives unconditionally")
						}
					}
				}
			}
		}
	}
	if n == 0 {
		res.Hold(rule, "no helper goroutine sends on a parent-created channel", "", "pattern not present")
	}
}

func checkModeDispatch(c *Ctx, res *report.Result) {
	rule := "O6.6"
	f := resolve(c, res, rule, anchor{"proxy", "", "handleStream"})
	if f == nil {
		return
	}
	runs := flow.FindCalls(f, func(cc *ssa.CallCommon) bool { return flow.IsCallTo(cc, proxyPkg, "StreamForwarder", "Run") })
	if len(runs) != 1 {
		res.Undec(rule, "handleStream: forwarder.Run call", fnPos(c.Prog, f), fmt.Sprintf("%d calls", len(runs)))
		return
	}
	routing, _ := depConstLocal(c, "config", "ShardCountRouting")
	// the routing case must not reach forwarder.Run; every other mode must
	okRouting, okOthers := true, true
	for _, b := range f.Blocks {
		iff := lastIfOf(b)
		if iff == nil {
			continue
		}
		bo, ok := iff.Cond.(*ssa.BinOp)
		if !ok || bo.Op != token.EQL {
			continue
		}
		s, isS := flow.ConstString(bo.Y)
		if !isS {
			continue
		}
		if p, okp := flow.FieldPath(flow.ResolveLoad(bo.X)); !okp || !strings.HasSuffix(p, ".Mode") {
			continue
		}
		reach := flow.ReachBlock(b.Succs[0], runs[0].Block(), nil)
		if s == routing && reach {
			okRouting = false
		}
		if s != routing && !reach {
			okOthers = false
		}
	}
	// default (no case matched) path reaches Run
	r := flow.FindPath(flow.Point{Block: f.Blocks[0]}, func(x ssa.Instruction) bool { return x == ssa.Instruction(runs[0]) }, func(ssa.Instruction) bool { return false }, nil)
	res.Check(okRouting && okOthers && r.Found, rule, "handleStream: pass-through for default and LCM, not for routing", fnPos(c.Prog, f), "routing returns its own result; every other mode falls through to forwarder.Run", "the mode dispatch no longer sends exactly the default and LCM modes through the pass-through forwarder")
	// the forwarder is built from the handler's stream and client
	mk := flow.FindCalls(f, func(cc *ssa.CallCommon) bool { return flow.IsCallTo(cc, proxyPkg, "", "newStreamForwarder") })
	if len(mk) == 1 {
		args := mk[0].Common().Args
		ok := len(args) >= 3 && args[0] == ssa.Value(f.Params[8]) && args[1] == ssa.Value(f.Params[0]) && flow.ResolveLoad(args[2]) == ssa.Value(f.Params[1])
		res.Check(ok, rule, "handleStream: forwarder uses adminClient, the handler's stream and its metadata", instrPos(c.Prog, mk[0]), "newStreamForwarder(adminClient, streamServer, targetMetadata, ..)", "the forwarder is not built from the handler's own stream / forwarding client / metadata")
	}
}

// depConstLocal reads a string constant of a module package.
func depConstLocal(c *Ctx, rel, name string) (string, bool) {
	return pkgConstString(c, rel, name)
}

// checkClientClosedByLifetime: see O6.7.
func checkClientClosedByLifetime(c *Ctx, res *report.Result, rule string) {
	f := resolve(c, res, rule, anchor{"proxy", "", "buildTLSTCPClient"})
	if f == nil {
		return
	}
	ok := false
	why := "no context.AfterFunc(lifetime, ..) that closes the client connection was found in buildTLSTCPClient"
	for _, call := range flow.Calls(f) {
		cc := call.Common()
		if !flow.IsCallTo(cc, "context", "", "AfterFunc") || len(cc.Args) != 2 {
			continue
		}
		if _, isParam := flow.Strip(flow.ResolveLoad(cc.Args[0])).(*ssa.Parameter); !isParam {
			why = "AfterFunc is not registered on the lifetime parameter"
			continue
		}
		cl, _ := closureFn(cc.Args[1])
		if cl == nil {
			continue
		}
		var closeCall, stop ssa.Instruction
		for _, k := range flow.Calls(cl) {
			kc := k.Common()
			if cal := flow.StaticCallee(kc); cal != nil && cal.Name() == "Close" && cal.Signature.Recv() != nil && flow.NamedIs(cal.Signature.Recv().Type(), grpcPkg, "ClientConn") {
				closeCall = k
			}
			if kc.IsInvoke() && kc.Method.Name() == "Close" {
				closeCall = k
			}
			if cal := flow.StaticCallee(kc); cal != nil && (cal.Name() == "GracefulStop" || cal.Name() == "Stop") {
				stop = k
			}
		}
		switch {
		case closeCall == nil:
			why = "the lifetime callback does not close the client connection"
		case stop != nil && flow.InstrDominates(stop, closeCall):
			why = "the client connection is closed only after the server was stopped gracefully: GracefulStop waits for the open stream handlers, and those only end when the client connection is closed"
		default:
			ok = true
		}
	}
	res.Check(ok, rule, "buildTLSTCPClient: the client connection is closed when the lifetime ends", fnPos(c.Prog, f), "context.AfterFunc(lifetime, client.Close)", why+": an open pass-through stream survives proxy shutdown (both relay goroutines keep running)")
}
