package rules

import (
	"go/token"
	"go/types"

	"golang.org/x/tools/go/ssa"

	"s2scheck/internal/flow"
	"s2scheck/internal/report"
)

// checkSingleNamespaceGuard (O14.9): the search-attribute translator takes "the first" entry of its per-namespace
// matcher map (map iteration order), which is a function of the configuration only while that map has at most one
// entry. The chain that guarantees it: makeServerOptions builds the translator only after refusing
// LenNamespaces() > 1; LenNamespaces is the length of the very map FlattenMaps ranges over; FlattenMaps and
// createStringMatchers emit exactly one entry per element, keyed by the element's key.
func checkSingleNamespaceGuard(c *Ctx, res *report.Result, rule string) {
	// (a) the first-of-map idiom is there (otherwise the chain is not needed)
	firstOfMap := 0
	for _, name := range []string{"getNamespaceReqMatcher", "getNamespaceRespMatcher"} {
		f := resolve(c, res, rule, anchor{"interceptor", "*saTranslator", name})
		if f == nil {
			continue
		}
		for _, b := range f.Blocks {
			for _, ins := range b.Instrs {
				if ret, ok := ins.(*ssa.Return); ok && len(ret.Results) == 1 {
					if ex, ok := ret.Results[0].(*ssa.Extract); ok {
						if nx, ok := ex.Tuple.(*ssa.Next); ok && !nx.IsString {
							firstOfMap++
						}
					}
				}
			}
		}
	}
	if firstOfMap == 0 {
		res.Hold(rule, "saTranslator: matcher selection does not depend on map order", "", "no `for ... range map { return }` selection left: the single-namespace chain is not needed")
		return
	}
	// (b) guard before construction
	if f := resolve(c, res, rule, anchor{"proxy", "", "makeServerOptions"}); f != nil {
		n := 0
		for _, call := range flow.Calls(f) {
			sc := flow.StaticCallee(call.Common())
			if sc == nil || sc.Name() != "NewSearchAttributeTranslator" {
				continue
			}
			n++
			// on every path from entry to the constructor a test `LenNamespaces() > 1` is passed on its false side,
			// and its true side does not return normally
			isGuard := func(x ssa.Instruction) bool {
				iff, ok := x.(*ssa.If)
				if !ok {
					return false
				}
				_, ok = lenNamespacesBound(iff.Cond)
				return ok
			}
			r := flow.FindPath(flow.Point{Block: f.Blocks[0]}, func(x ssa.Instruction) bool { return x == call }, isGuard, nil)
			okGuard := !r.Found
			why := "the search-attribute translator can be built without passing a LenNamespaces() > 1 test (path " + flow.BlockPath(r.Via) + ")"
			if okGuard {
				// the side that violates the bound must not reach the constructor
				for _, b := range f.Blocks {
					iff := lastIfOf(b)
					if iff == nil {
						continue
					}
					badSide, ok := lenNamespacesBound(iff.Cond)
					if !ok {
						continue
					}
					succ := b.Succs[0]
					if !badSide {
						succ = b.Succs[1]
					}
					if rr := flow.FindPath(flow.Point{Block: succ}, func(x ssa.Instruction) bool { return x == call }, func(x ssa.Instruction) bool { return x == ssa.Instruction(iff) }, nil); rr.Found {
						okGuard = false
						why = "with more than one namespace mapping the translator is still built (path " + flow.BlockPath(rr.Via) + ")"
					}
				}
			}
			res.Check(okGuard, rule, "makeServerOptions: more than one search-attribute namespace mapping is refused before the translator is built", instrPos(c.Prog, call), "every path to NewSearchAttributeTranslator passes `LenNamespaces() > 1` on its false side; the true side panics", why+": the translator then picks one of several matchers by map iteration order, per message")
		}
		if n == 0 {
			res.Undec(rule, "makeServerOptions: NewSearchAttributeTranslator call", fnPos(c.Prog, f), "constructor call not found")
		}
	}
	// (c) LenNamespaces counts what FlattenMaps ranges over
	lenField := ""
	if f := resolve(c, res, rule, anchor{"config", "SearchAttributeTranslation", "LenNamespaces"}); f != nil {
		ok := true
		for _, b := range f.Blocks {
			for _, ins := range b.Instrs {
				ret, isR := ins.(*ssa.Return)
				if !isR {
					continue
				}
				fld := ""
				if call, isC := ret.Results[0].(*ssa.Call); isC {
					if bi, isB := call.Call.Value.(*ssa.Builtin); isB && bi.Name() == "len" {
						if p, okp := flow.FieldPath(call.Call.Args[0]); okp {
							fld = p
						}
					}
				}
				if fld == "" || (lenField != "" && lenField != fld) {
					ok = false
				}
				lenField = fld
			}
		}
		res.Check(ok && lenField != "", rule, "SearchAttributeTranslation.LenNamespaces is the length of the namespace map", fnPos(c.Prog, f), "returns len("+lenField+")", "LenNamespaces is not simply the number of entries of the namespace map: an entry it does not count (e.g. a namespace listed without field mappings) still becomes a matcher, so the `> 1` guard admits configurations with several matchers and the translator picks one by map order")
	}
	if f := resolve(c, res, rule, anchor{"config", "SearchAttributeTranslation", "FlattenMaps"}); f != nil && lenField != "" {
		ok, why := onePerElement(f, lenField)
		res.Check(ok, rule, "SearchAttributeTranslation.FlattenMaps emits at most one entry per element of the map LenNamespaces counts", fnPos(c.Prog, f), "range over "+lenField+"; result[key] = ... at most once per iteration", why)
	}
	// (d) createStringMatchers: one matcher per input entry
	if f := resolve(c, res, rule, anchor{"interceptor", "", "createStringMatchers"}); f != nil {
		ok, why := onePerElement(f, "")
		res.Check(ok, rule, "createStringMatchers builds at most one matcher per entry of its input", fnPos(c.Prog, f), "result[key] = ... at most once per iteration", why)
	}
}

// lenNamespacesBound: cond compares a LenNamespaces() result with the constant 1 so that one side means "more than
// one". Returns which side (true/false) is the "more than one" side.
func lenNamespacesBound(cond ssa.Value) (bool, bool) {
	bo, ok := cond.(*ssa.BinOp)
	if !ok {
		return false, false
	}
	isLN := func(v ssa.Value) bool {
		call, ok := v.(*ssa.Call)
		if !ok {
			return false
		}
		sc := flow.StaticCallee(&call.Call)
		return sc != nil && sc.Name() == "LenNamespaces"
	}
	k, isK := flow.ConstInt(bo.Y)
	if !isLN(bo.X) || !isK {
		return false, false
	}
	switch {
	case bo.Op == token.GTR && k == 1, bo.Op == token.GEQ && k == 2:
		return true, true
	case bo.Op == token.LEQ && k == 1, bo.Op == token.LSS && k == 2:
		return false, true
	}
	return false, false
}

// onePerElement: f ranges over a map (the field `field` of its receiver when given, else its first map parameter)
// and stores at most once per iteration into a fresh map under the iteration key (so the result has no more
// entries than the map ranged over).
func onePerElement(f *ssa.Function, field string) (bool, string) {
	var rng *ssa.Range
	for _, b := range f.Blocks {
		for _, ins := range b.Instrs {
			if r, ok := ins.(*ssa.Range); ok {
				if _, isMap := r.X.Type().Underlying().(*types.Map); !isMap {
					continue
				}
				if rng != nil {
					return false, "more than one map range"
				}
				rng = r
			}
		}
	}
	if rng == nil {
		return false, "no range over a map"
	}
	if field != "" {
		if p, ok := flow.FieldPath(rng.X); !ok || p != field {
			return false, "the map ranged over is not " + field + " (the map LenNamespaces counts)"
		}
	} else if _, isP := rng.X.(*ssa.Parameter); !isP {
		return false, "the map ranged over is not the input parameter"
	}
	var next *ssa.Next
	for _, r := range *rng.Referrers() {
		if n, ok := r.(*ssa.Next); ok {
			next = n
		}
	}
	if next == nil {
		return false, "range without next"
	}
	var upd []*ssa.MapUpdate
	for _, b := range f.Blocks {
		for _, ins := range b.Instrs {
			if mu, ok := ins.(*ssa.MapUpdate); ok {
				upd = append(upd, mu)
			}
		}
	}
	if len(upd) != 1 {
		return false, "not exactly one map store"
	}
	mu := upd[0]
	if _, fresh := mu.Map.(*ssa.MakeMap); !fresh {
		return false, "the result map is not created in the function"
	}
	ex, ok := mu.Key.(*ssa.Extract)
	if !ok || ex.Tuple != ssa.Value(next) || ex.Index != 1 {
		return false, "the result is not keyed by the iteration key"
	}
	// a conditional store yields fewer entries than elements, which keeps the bound; more than one store per
	// element (excluded above) or a key other than the element's would break it
	return true, ""
}
