package rules

import (
	"fmt"
	"go/token"
	"go/types"
	"strings"

	"golang.org/x/tools/go/ssa"

	"s2scheck/internal/flow"
	"s2scheck/internal/report"
)

// blockingOp classifies instructions that can block for an unbounded time (channel operations without a
// default arm, stream and session I/O, waits, sleeps, calls through function values whose body is unknown).
// checkNoBlockingUnderLock uses it; XLOCKS is an exploration aid (not a claimed property, not in MANIFEST) that
// lists every such operation inside a critical section of the module's shipped code.
func init() { Registry["XLOCKS"] = xlocks }

// checkNoBlockingUnderLock: inside the critical sections of the mutexes of pkgs selected by sel, the only
// potentially blocking operations are the reviewed ones of `allowed` (key: "<function> [<mutex field>]: <operation>").
// A new blocking operation under a lock stalls everything else that needs the lock for as long as it blocks.
func checkNoBlockingUnderLock(c *Ctx, res *report.Result, rule string, pkgs []*ssa.Package, sel func(owner, field string) bool, allowed map[string]string) int {
	in := map[*ssa.Package]bool{}
	for _, p := range pkgs {
		in[p] = true
	}
	n := 0
	seenAllowed := map[string]bool{}
	for _, f := range c.Prog.RepoFuncs() {
		if !in[f.Package()] || !isShippedFunc(f) {
			continue
		}
		for _, sec := range flow.Sections(f) {
			owner := ""
			if fa, ok := sec.Lock.Instr.Common().Args[0].(*ssa.FieldAddr); ok {
				if nt := namedOf(fa.X.Type()); nt != nil {
					owner = nt.Obj().Name()
				}
			}
			if !sel(owner, sec.Lock.Field) {
				continue
			}
			n++
			for _, ins := range sec.Instrs {
				w := blockingOp(ins)
				if w == "" {
					continue
				}
				key := fmt.Sprintf("%s [%s]: %s", shortFn(f), sec.Lock.Field, w)
				if why, ok := allowed[key]; ok {
					if !seenAllowed[key] {
						seenAllowed[key] = true
						res.Hold(rule, "reviewed blocking operation under a lock: "+key, instrPos(c.Prog, ins), why)
					}
					continue
				}
				res.Viol(rule, "no unreviewed blocking operation under a lock: "+key, instrPos(c.Prog, ins), "a potentially blocking operation ("+w+") runs while "+owner+"."+sec.Lock.Field+" is held: for as long as it blocks, every other user of the lock (and, behind a waiting writer, every reader) is stalled")
			}
		}
	}
	return n
}

func blockingOp(ins ssa.Instruction) string {
	switch x := ins.(type) {
	case *ssa.Send:
		return "channel send"
	case *ssa.UnOp:
		if x.Op == token.ARROW {
			return "channel receive"
		}
	case *ssa.Select:
		if x.Blocking {
			return "blocking select"
		}
	case *ssa.Defer, *ssa.Go:
		return ""
	case ssa.CallInstruction:
		cc := x.Common()
		if cc.IsInvoke() {
			switch cc.Method.Name() {
			case "Send", "Recv", "SendMsg", "RecvMsg", "CloseSend", "Wait", "Open", "Accept", "Ping", "Close", "UpdateState", "GracefulStop", "Stop", "Shutdown":
				return "invoke " + cc.Method.Name()
			}
			return ""
		}
		if cal := flow.StaticCallee(cc); cal != nil {
			n := cal.String()
			switch {
			case n == "time.Sleep", strings.HasSuffix(n, "WaitGroup).Wait"), strings.Contains(n, "yamux.Session)."), strings.HasPrefix(n, "net."), strings.Contains(n, "grpc.ClientConn).Close"), strings.Contains(n, "memberlist.Memberlist)."):
				return "call " + n
			}
			return ""
		}
		if _, isB := cc.Value.(*ssa.Builtin); isB {
			return ""
		}
		return "call through a function value"
	}
	return ""
}

func xlocks(c *Ctx) (*report.Result, error) {
	res := newResult("XLOCKS")
	checkStateless(c, res, "XS", []string{"interceptor", "proto/compat", "auth", "collect"}, map[string]string{})
	for _, f := range c.Prog.RepoFuncs() {
		if !isShippedFunc(f) {
			continue
		}
		for _, sw := range swallowedErrors(f) {
			res.Viol("XE", shortFn(f)+": "+sw.what, instrPos(c.Prog, sw.at), "")
		}
	}
	for _, f := range c.Prog.RepoFuncs() {
		if !isShippedFunc(f) {
			continue
		}
		for _, sec := range flow.Sections(f) {
			for _, ins := range sec.Instrs {
				if w := blockingOp(ins); w != "" {
					res.Viol("X", fmt.Sprintf("%s [%s %s]: %s", shortFn(f), sec.Lock.Op, sec.Lock.Key, w), instrPos(c.Prog, ins), "")
				}
			}
		}
	}
	return res, nil
}

type swallowed struct {
	at        ssa.Instruction
	what      string
	eofOfRecv bool // io.EOF from a stream Recv: the normal end of a receive loop
}

// swallowedErrors: returns of f whose error result is the constant nil although, on every way into the returning
// block, some error value obtained from a call is known to be non-nil (err != nil, or err == <sentinel>).
func swallowedErrors(f *ssa.Function) []swallowed {
	var out []swallowed
	res := f.Signature.Results()
	if res.Len() == 0 {
		return nil
	}
	last := res.At(res.Len() - 1).Type()
	if !types.Identical(last, types.Universe.Lookup("error").Type()) {
		return nil
	}
	isErr := func(v ssa.Value) bool {
		return v != nil && types.Identical(v.Type(), types.Universe.Lookup("error").Type())
	}
	for _, b := range f.Blocks {
		if b == f.Recover || len(b.Instrs) == 0 {
			continue
		}
		ret, ok := b.Instrs[len(b.Instrs)-1].(*ssa.Return)
		if !ok {
			continue
		}
		rs := flow.Ret(ret)
		if !flow.IsNilConst(rs[len(rs)-1]) {
			continue
		}
		// guards that dominate the return, plus - for a return block that is a join - the guards of each way in
		// (an `if err == nil { return .. }` whose failing side falls through to a shared `return .., nil`)
		guardSets := [][]flow.Guard{flow.NormGuards(flow.Guards(b))}
		if len(b.Preds) > 1 && len(b.Instrs) <= 3 {
			for _, p := range b.Preds {
				// only the test whose failing side falls straight through into the shared return: an error that is
				// looked at (logged) on its non-nil side and then dropped on purpose does not come in this way
				if lastIfOf(p) == nil {
					continue
				}
				if eg := flow.NormGuards(flow.EdgeGuards(p, b)); len(eg) > 0 {
					guardSets = append(guardSets, eg[len(eg)-1:])
				}
			}
		}
		var allGuards []flow.Guard
		seenG := map[string]bool{}
		for _, gs := range guardSets {
			for _, g := range gs {
				k := fmt.Sprintf("%p/%v", g.Cond, g.Side)
				if !seenG[k] {
					seenG[k] = true
					allGuards = append(allGuards, g)
				}
			}
		}
		for _, g := range allGuards {
			bo, isB := g.Cond.(*ssa.BinOp)
			if !isB || (bo.Op != token.NEQ && bo.Op != token.EQL) {
				continue
			}
			x, y := flow.ResolveLoad(bo.X), flow.ResolveLoad(bo.Y)
			if !isErr(x) && !isErr(y) {
				continue
			}
			nonNil := false
			desc := ""
			if flow.IsNilConst(y) || flow.IsNilConst(x) {
				nonNil = (bo.Op == token.NEQ && g.Side) || (bo.Op == token.EQL && !g.Side)
				desc = "err != nil"
			} else {
				nonNil = bo.Op == token.EQL && g.Side
				desc = "err == " + flow.Describe(y)
			}
			if nonNil {
				// not swallowed if the failure was dealt with: the return is also guarded by `err2 == nil` of an error
				// produced by a call made after the failing one (a recovery/repair step that succeeded)
				failed := x
				if !isErr(failed) || flow.IsNilConst(failed) {
					failed = y
				}
				recovered := false
				var fdef ssa.Instruction
				if ex, isEx := failed.(*ssa.Extract); isEx {
					fdef, _ = ex.Tuple.(ssa.Instruction)
				} else if ci, isCI := failed.(ssa.Instruction); isCI {
					fdef = ci
				}
				for _, g2 := range flow.NormGuards(flow.Guards(b)) {
					bo2, isB2 := g2.Cond.(*ssa.BinOp)
					if !isB2 || (bo2.Op != token.NEQ && bo2.Op != token.EQL) {
						continue
					}
					x2, y2 := flow.ResolveLoad(bo2.X), flow.ResolveLoad(bo2.Y)
					var e2 ssa.Value
					if isErr(x2) && flow.IsNilConst(y2) {
						e2 = x2
					} else if isErr(y2) && flow.IsNilConst(x2) {
						e2 = y2
					}
					if e2 == nil || e2 == failed {
						continue
					}
					isNil2 := (bo2.Op == token.EQL && g2.Side) || (bo2.Op == token.NEQ && !g2.Side)
					if !isNil2 {
						continue
					}
					var d2 ssa.Instruction
					if ex2, isEx2 := e2.(*ssa.Extract); isEx2 {
						d2, _ = ex2.Tuple.(ssa.Instruction)
					} else if ci2, isCI2 := e2.(ssa.Instruction); isCI2 {
						d2 = ci2
					}
					// a context's Err() is a state query, not a step that could have dealt with the failure
					if call2, isCall2 := d2.(ssa.CallInstruction); isCall2 {
						n2 := ""
						if call2.Common().IsInvoke() {
							n2 = call2.Common().Method.Name()
						} else if sc2 := flow.StaticCallee(call2.Common()); sc2 != nil {
							n2 = sc2.Name()
						}
						if n2 == "Err" {
							continue
						}
					}
					if fdef != nil && d2 != nil && flow.InstrDominates(fdef, d2) {
						recovered = true
					}
				}
				if recovered {
					continue
				}
				sw := swallowed{at: ret, what: "returns a nil error under " + desc}
				// io.EOF compared with the error of a Recv invoke
				for _, side := range []ssa.Value{x, y} {
					if ex, isEx := side.(*ssa.Extract); isEx {
						if call, isC := ex.Tuple.(*ssa.Call); isC && call.Call.IsInvoke() && (call.Call.Method.Name() == "Recv" || call.Call.Method.Name() == "RecvMsg") {
							for _, other := range []ssa.Value{x, y} {
								if ld, isLd := other.(*ssa.UnOp); isLd {
									if gl, isG := ld.X.(*ssa.Global); isG && gl.Name() == "EOF" && gl.Pkg != nil && gl.Pkg.Pkg.Path() == "io" {
										sw.eofOfRecv = true
									}
								}
							}
						}
					}
				}
				out = append(out, sw)
			}
		}
	}
	return out
}

// checkNoSwallowedErrors: in the given source files no function returns a nil error on a path on which an error
// obtained from a call is known to be non-nil - except the one reviewed idiom: io.EOF from a stream's Recv ends a
// receive loop normally. A swallowed error turns "failed" into "done": the caller stops retrying / starts a
// listener / forwards a message on the strength of something that did not happen.
func checkNoSwallowedErrors(c *Ctx, res *report.Result, rule string, files []string) {
	n, bad := 0, 0
	for _, f := range c.Prog.RepoFuncs() {
		if !isShippedFunc(f) || !f.Pos().IsValid() {
			continue
		}
		fn := c.Prog.SSA.Fset.Position(f.Pos()).Filename
		match := false
		for _, suf := range files {
			if strings.HasSuffix(fn, suf) {
				match = true
			}
		}
		if !match {
			continue
		}
		n++
		for _, sw := range swallowedErrors(f) {
			if sw.eofOfRecv {
				continue
			}
			bad++
			res.Viol(rule, "no swallowed error: "+shortFn(f)+" "+sw.what, instrPos(c.Prog, sw.at), "the function reports success (nil error) on a path on which a call it made is known to have failed")
		}
	}
	if n == 0 {
		res.Undec(rule, "functions scanned for swallowed errors", "", "no function in "+strings.Join(files, ", "))
		return
	}
	if bad == 0 {
		res.Hold(rule, "no function of "+strings.Join(files, ", ")+" returns nil under a known non-nil error", "", fmt.Sprintf("%d functions scanned; io.EOF from Recv is the only accepted idiom", n))
	}
}
