package rules

import (
	"fmt"
	"go/token"
	"strings"

	"golang.org/x/tools/go/ssa"

	"s2scheck/internal/flow"
	"s2scheck/internal/report"
)

// blockingOp classifies instructions that can block for an unbounded time (channel operations without a
// default arm, stream and session I/O, waits, sleeps, calls through function values whose body is unknown).
// checkNoBlockingUnderLock uses it; XLOCKS is an exploration aid (not a claimed property, not in MANIFEST) that
// lists every such operation inside a critical section of the module's shipped code.
func init() { Registry["XLOCKS"] = xlocks }

// checkNoBlockingUnderLock: inside the critical sections of the mutexes of pkgs selected by sel, the only
// potentially blocking operations are the reviewed ones of `allowed` (key: "<function> [<mutex field>]: <operation>").
// A new blocking operation under a lock stalls everything else that needs the lock for as long as it blocks.
func checkNoBlockingUnderLock(c *Ctx, res *report.Result, rule string, pkgs []*ssa.Package, sel func(owner, field string) bool, allowed map[string]string) int {
	in := map[*ssa.Package]bool{}
	for _, p := range pkgs {
		in[p] = true
	}
	n := 0
	seenAllowed := map[string]bool{}
	for _, f := range c.Prog.RepoFuncs() {
		if !in[f.Package()] || !isShippedFunc(f) {
			continue
		}
		for _, sec := range flow.Sections(f) {
			owner := ""
			if fa, ok := sec.Lock.Instr.Common().Args[0].(*ssa.FieldAddr); ok {
				if nt := namedOf(fa.X.Type()); nt != nil {
					owner = nt.Obj().Name()
				}
			}
			if !sel(owner, sec.Lock.Field) {
				continue
			}
			n++
			for _, ins := range sec.Instrs {
				w := blockingOp(ins)
				if w == "" {
					continue
				}
				key := fmt.Sprintf("%s [%s]: %s", shortFn(f), sec.Lock.Field, w)
				if why, ok := allowed[key]; ok {
					if !seenAllowed[key] {
						seenAllowed[key] = true
						res.Hold(rule, "reviewed blocking operation under a lock: "+key, instrPos(c.Prog, ins), why)
					}
					continue
				}
				res.Viol(rule, "no unreviewed blocking operation under a lock: "+key, instrPos(c.Prog, ins), "a potentially blocking operation ("+w+") runs while "+owner+"."+sec.Lock.Field+" is held: for as long as it blocks, every other user of the lock (and, behind a waiting writer, every reader) is stalled")
			}
		}
	}
	return n
}

func blockingOp(ins ssa.Instruction) string {
	switch x := ins.(type) {
	case *ssa.Send:
		return "channel send"
	case *ssa.UnOp:
		if x.Op == token.ARROW {
			return "channel receive"
		}
	case *ssa.Select:
		if x.Blocking {
			return "blocking select"
		}
	case *ssa.Defer, *ssa.Go:
		return ""
	case ssa.CallInstruction:
		cc := x.Common()
		if cc.IsInvoke() {
			switch cc.Method.Name() {
			case "Send", "Recv", "SendMsg", "RecvMsg", "CloseSend", "Wait", "Open", "Accept", "Ping", "Close", "UpdateState", "GracefulStop", "Stop", "Shutdown":
				return "invoke " + cc.Method.Name()
			}
			return ""
		}
		if cal := flow.StaticCallee(cc); cal != nil {
			n := cal.String()
			switch {
			case n == "time.Sleep", strings.HasSuffix(n, "WaitGroup).Wait"), strings.Contains(n, "yamux.Session)."), strings.HasPrefix(n, "net."), strings.Contains(n, "grpc.ClientConn).Close"), strings.Contains(n, "memberlist.Memberlist)."):
				return "call " + n
			}
			return ""
		}
		if _, isB := cc.Value.(*ssa.Builtin); isB {
			return ""
		}
		return "call through a function value"
	}
	return ""
}

func xlocks(c *Ctx) (*report.Result, error) {
	res := newResult("XLOCKS")
	checkStateless(c, res, "XS", []string{"interceptor", "proto/compat", "auth", "collect"}, map[string]string{})
	for _, f := range c.Prog.RepoFuncs() {
		if !isShippedFunc(f) {
			continue
		}
		for _, sec := range flow.Sections(f) {
			for _, ins := range sec.Instrs {
				if w := blockingOp(ins); w != "" {
					res.Viol("X", fmt.Sprintf("%s [%s %s]: %s", shortFn(f), sec.Lock.Op, sec.Lock.Key, w), instrPos(c.Prog, ins), "")
				}
			}
		}
	}
	return res, nil
}
