package rules

import (
	"fmt"
	"go/constant"
	"go/token"
	"go/types"
	"sort"
	"strings"

	"golang.org/x/tools/go/ssa"

	"s2scheck/internal/flow"
	"s2scheck/internal/load"
	"s2scheck/internal/report"
)

func init() { Registry["C15"] = c15 }

const proxyPkg = modPath + "/proxy"

// unmodifiedParam: v is a by-value parameter of fn passed on unchanged (directly, or loaded from the
// cell it was spilled to, with no field of the cell ever stored to).
func unmodifiedParam(v ssa.Value) *ssa.Parameter {
	if p, ok := v.(*ssa.Parameter); ok {
		return p
	}
	ld, ok := v.(*ssa.UnOp)
	if !ok || ld.Op != token.MUL {
		return nil
	}
	al, ok := ld.X.(*ssa.Alloc)
	if !ok {
		return nil
	}
	var src *ssa.Parameter
	for _, r := range *al.Referrers() {
		switch x := r.(type) {
		case *ssa.Store:
			if x.Addr != al {
				return nil
			}
			p, ok := x.Val.(*ssa.Parameter)
			if !ok || src != nil {
				return nil
			}
			src = p
		case *ssa.FieldAddr:
			if fieldAddrWritten(x) {
				return nil
			}
		}
	}
	return src
}

func fieldAddrWritten(fa *ssa.FieldAddr) bool {
	for _, r := range *fa.Referrers() {
		switch x := r.(type) {
		case *ssa.Store:
			if x.Addr == fa {
				return true
			}
		case *ssa.FieldAddr:
			if fieldAddrWritten(x) {
				return true
			}
		case ssa.CallInstruction:
			return true // address escapes into a call
		}
	}
	return false
}

// serverConfigLiterals finds the serverConfiguration composite literals of NewClusterConnection and
// classifies them by the origin of clusterDefinition.
type cfgLiteral struct {
	cell   *ssa.Alloc
	fields map[string]ssa.Value
	multi  map[string]bool
	facing string // "remote" (clusterDefinition = connConfig.Remote) or "local"
}

func serverConfigLiterals(f *ssa.Function) []*cfgLiteral {
	var out []*cfgLiteral
	for _, b := range f.Blocks {
		for _, ins := range b.Instrs {
			al, ok := ins.(*ssa.Alloc)
			if !ok {
				continue
			}
			if !flow.NamedIs(al.Type(), proxyPkg, "serverConfiguration") {
				continue
			}
			fs, multi := flow.FieldStores(al)
			if len(fs) == 0 {
				continue
			}
			l := &cfgLiteral{cell: al, fields: fs, multi: multi}
			if cd, ok := fs["clusterDefinition"]; ok {
				if p, ok := flow.FieldPath(cd); ok {
					switch {
					case strings.HasSuffix(p, ".Remote"):
						l.facing = "remote"
					case strings.HasSuffix(p, ".Local"):
						l.facing = "local"
					}
				}
			}
			out = append(out, l)
		}
	}
	return out
}

func c15(c *Ctx) (*report.Result, error) {
	res := newResult("C15")
	res.RuleDoc["O15.1"] = "the access policy is attached to the remote-facing server on every transport: the serverConfiguration whose clusterDefinition is connConfig.Remote carries connConfig.ACLPolicy, and createServer / createTCPServer / buildProxyServer / makeServerOptions hand that configuration on unchanged to the grpc.Server that is registered and returned"
	res.RuleDoc["O15.2"] = "whenever aclPolicy != nil both AccessControlInterceptor.Intercept (unary chain) and StreamIntercept (stream chain) are in the chains given to grpc"
	res.RuleDoc["O15.3"] = "check-before-forward: every path to the handler passes the admin allow-list test (admin methods) and the namespace-lifecycle deny-list test (workflow methods) with the permitting outcome; refusals return codes.PermissionDenied"
	res.RuleDoc["O15.4"] = "for every service method the generated full method name equals the service prefix constant used by the interceptor followed by the method name (so api.MethodName(FullMethod) is the allow-list key)"
	res.RuleDoc["O15.5"] = "a method name means that method: every proxy server method forwards to exactly the client method of its own name (the stream method: only StreamWorkflowReplicationMessages is reachable)"
	res.RuleDoc["O15.6"] = "the workflow deny-list names real WorkflowService methods and contains RegisterNamespace and DeprecateNamespace; IsAllowedWorkflowMigrationAPIs is the negated membership test"
	res.Floors["O15.4"] = 150
	res.Floors["O15.5"] = 150

	wfP, adP, err := servicePrefixes(c)
	if err != nil {
		return res, err
	}

	// ---- O15.1
	checkPolicyWiring(c, res)

	// ---- O15.2
	if f := resolve(c, res, "O15.2", anchor{"proxy", "", "makeServerOptions"}); f != nil {
		chains := interceptorChains(f)
		for name, meth := range map[string]string{"ChainUnaryInterceptor": "acl.Intercept", "ChainStreamInterceptor": "acl.StreamIntercept"} {
			ci := chains[name]
			if ci == nil {
				res.Undec("O15.2", "makeServerOptions: "+name, fnPos(c.Prog, f), "expected exactly one call")
				continue
			}
			bad := ""
			withPolicy := 0
			for _, a := range ci.alts {
				policySet, policyNil := false, false
				for _, e := range a.Edges {
					cs := edgeClasses(e[0], e[1])
					if hasClass(cs, "nil", "aclPolicy", false) {
						policySet = true
					}
					if hasClass(cs, "nil", "aclPolicy", true) {
						policyNil = true
					}
				}
				has := false
				for _, e := range a.Elems {
					if interceptorKind(e) == meth {
						has = true
					}
				}
				if policySet {
					withPolicy++
				}
				if !has && !policyNil {
					bad = "a chain variant without " + meth + " is not confined to the aclPolicy == nil branch"
				}
				if a.Open {
					bad = "chain not enumerable"
				}
			}
			if withPolicy == 0 && bad == "" {
				bad = "no chain variant is built under aclPolicy != nil"
			}
			res.Check(bad == "", "O15.2", "makeServerOptions: "+meth+" present whenever aclPolicy != nil ("+name+")", instrPos(c.Prog, ci.call), fmt.Sprintf("%d chain variants", len(ci.alts)), bad)
		}
		checkACLBuiltFromPolicy(c, res, "O15.2", f)
	}
	if f := resolve(c, res, "O15.2", anchor{"interceptor", "", "NewAccessControlInterceptor"}); f != nil {
		// adminServiceAccess built from param 1, namespaceAccess from param 2
		ok := 0
		for _, b := range f.Blocks {
			for _, ins := range b.Instrs {
				st, isSt := ins.(*ssa.Store)
				if !isSt {
					continue
				}
				fa, isFA := st.Addr.(*ssa.FieldAddr)
				if !isFA {
					continue
				}
				name := flow.FieldName(fa.X.Type(), fa.Field)
				call, isCall := flow.ResolveLoad(st.Val).(*ssa.Call)
				if !isCall || !flow.IsCallTo(&call.Call, authPkg, "", "NewAccesControl") {
					continue
				}
				if name == "adminServiceAccess" && call.Call.Args[0] == ssa.Value(f.Params[1]) {
					ok++
				}
				if name == "namespaceAccess" && call.Call.Args[0] == ssa.Value(f.Params[2]) {
					ok++
				}
			}
		}
		res.Check(ok == 2, "O15.2", "NewAccessControlInterceptor: method list -> adminServiceAccess, namespace list -> namespaceAccess", fnPos(c.Prog, f), "fields built from the matching parameter", "the allow-lists are not stored into their own fields (swapped or dropped)")
	}

	// ---- O15.3
	methodArgOK := func(f *ssa.Function, call ssa.CallInstruction, argIdx int) bool {
		args := call.Common().Args
		if argIdx >= len(args) {
			return false
		}
		mn, ok := args[argIdx].(*ssa.Call)
		if !ok || !flow.IsCallTo(&mn.Call, srvPath+"/common/api", "", "MethodName") {
			return false
		}
		p, ok := flow.FieldPath(mn.Call.Args[0])
		return ok && strings.HasSuffix(p, ".FullMethod")
	}
	isAdminGate := func(cc *ssa.CallCommon) bool {
		if !flow.IsCallTo(cc, authPkg, "AccessControl", "IsAllowed") || len(cc.Args) < 1 {
			return false
		}
		_, f, ok := flow.FieldLoadOf(cc.Args[0])
		return ok && f == "adminServiceAccess"
	}
	for _, spec := range []struct {
		a       anchor
		hpkg    string
		htype   string
		wfGate  bool
		denyArg int
	}{
		{anchor{"interceptor", "*AccessControlInterceptor", "Intercept"}, grpcPkg, "UnaryHandler", true, 0},
		{anchor{"interceptor", "*AccessControlInterceptor", "StreamIntercept"}, grpcPkg, "StreamHandler", false, 0},
	} {
		f := resolve(c, res, "O15.3", spec.a)
		if f == nil {
			continue
		}
		h := handlerParam(f, spec.hpkg, spec.htype)
		if h == nil {
			res.Undec("O15.3", shortFn(f)+": handler parameter", fnPos(c.Prog, f), "not found")
			continue
		}
		checkGate(c, res, f, h, gateSpec{
			rule: "O15.3", name: "adminServiceAccess.IsAllowed", isGate: isAdminGate, resultIdx: -1, allowed: true, errIdx: -1,
			bypassOK: func(cs []condClass) bool {
				return hasClass(cs, "nil", "adminServiceAccess", true) || hasClass(cs, "prefix", adP, false)
			},
			bypassDoc: "adminServiceAccess == nil; FullMethod lacks the AdminService prefix",
		})
		for _, g := range flow.FindCalls(f, isAdminGate) {
			res.Check(methodArgOK(f, g, 1), "O15.3", shortFn(f)+": allow-list key is api.MethodName(info.FullMethod)", instrPos(c.Prog, g), "ok", "the admin allow-list is not consulted with the method name of the call")
		}
		if spec.wfGate {
			isDeny := func(cc *ssa.CallCommon) bool { return flow.IsCallTo(cc, authPkg, "", "IsAllowedWorkflowMigrationAPIs") }
			checkGate(c, res, f, h, gateSpec{
				rule: "O15.3", name: "IsAllowedWorkflowMigrationAPIs", isGate: isDeny, resultIdx: -1, allowed: true, errIdx: -1,
				bypassOK:  func(cs []condClass) bool { return hasClass(cs, "prefix", wfP, false) },
				bypassDoc: "FullMethod lacks the WorkflowService prefix",
			})
			for _, g := range flow.FindCalls(f, isDeny) {
				res.Check(methodArgOK(f, g, 0), "O15.3", shortFn(f)+": deny-list key is api.MethodName(info.FullMethod)", instrPos(c.Prog, g), "ok", "the deny-list is not consulted with the method name of the call")
			}
		}
		// refusals carry PermissionDenied
		hcalls := callsOfValue(f, h)
		for _, b := range f.Blocks {
			for _, ins := range b.Instrs {
				ret, ok := ins.(*ssa.Return)
				if !ok {
					continue
				}
				ev := flow.Ret(ret)[len(ret.Results)-1]
				fromHandler := false
				for _, hc := range hcalls {
					if hv, ok := hc.(*ssa.Call); ok {
						if ev == ssa.Value(hv) {
							fromHandler = true
						}
						if ex, ok := ev.(*ssa.Extract); ok && ex.Tuple == ssa.Value(hv) {
							fromHandler = true
						}
					}
				}
				if fromHandler {
					continue
				}
				ok2 := false
				if call, isC := ev.(*ssa.Call); isC && flow.IsCallTo(&call.Call, "github.com/gogo/status", "", "Errorf") {
					if code, isI := flow.ConstInt(call.Call.Args[0]); isI && code == 7 {
						ok2 = true
					}
				}
				res.Check(ok2, "O15.3", fmt.Sprintf("%s: refusal returns PermissionDenied (return in block %d)", shortFn(f), b.Index), instrPos(c.Prog, ret), "status.Errorf(codes.PermissionDenied, ..)", "a return that does not come from the handler does not carry codes.PermissionDenied")
			}
		}
	}

	// ---- O15.4 + O15.5
	m, err := loadAPIModel(c)
	if err != nil {
		return res, err
	}
	methods := map[string][]string{}
	for _, r := range m.roots {
		if r.Role == "request" || r.Role == "stream-request" {
			methods[r.Service] = append(methods[r.Service], r.Method)
		}
	}
	for svc, pkgPath := range map[string]string{"WorkflowService": wfSvcPkg, "AdminService": adminSvcPkg} {
		prefix := wfP
		if svc == "AdminService" {
			prefix = adP
		}
		ms := methods[svc]
		sort.Strings(ms)
		for _, meth := range ms {
			cst, ok := m.pkgs[pkgPath].Scope().Lookup(svc + "_" + meth + "_FullMethodName").(*types.Const)
			if !ok || cst.Val().Kind() != constant.String {
				res.Undec("O15.4", svc+"."+meth, "", "generated constant "+svc+"_"+meth+"_FullMethodName not found")
				continue
			}
			full := constant.StringVal(cst.Val())
			res.Check(full == prefix+meth, "O15.4", svc+"."+meth, "", full, "full method name "+full+" is not prefix+method ("+prefix+meth+"): the name-based allow-list would not key this method")
		}
	}
	checkForwarders(c, res, methods)

	// ---- O15.6
	apk, err := c.Prog.Pkg("auth")
	if err != nil {
		return res, err
	}
	deny, err := stringSliceVar(apk, "workflowServiceDisallowedAPIs")
	if err != nil {
		return res, err
	}
	wfMethods := map[string]bool{}
	for _, mname := range methods["WorkflowService"] {
		wfMethods[mname] = true
	}
	denySet := map[string]bool{}
	for _, d := range deny {
		denySet[d] = true
		res.Check(wfMethods[d], "O15.6", "deny-list entry "+d, "", "names a WorkflowService method", "deny-list entry is not the name of any WorkflowService method: it can never match")
	}
	for _, must := range []string{"RegisterNamespace", "DeprecateNamespace"} {
		res.Check(denySet[must], "O15.6", "deny-list contains "+must, "", "present", must+" is missing from workflowServiceDisallowedAPIs: namespace lifecycle calls from the remote side would be forwarded")
	}
	if f := resolve(c, res, "O15.6", anchor{"auth", "", "IsAllowedWorkflowMigrationAPIs"}); f != nil {
		ok := false
		for _, b := range f.Blocks {
			for _, ins := range b.Instrs {
				ret, isR := ins.(*ssa.Return)
				if !isR {
					continue
				}
				if u, isU := flow.Ret(ret)[0].(*ssa.UnOp); isU && u.Op == token.NOT {
					if call, isC := u.X.(*ssa.Call); isC {
						if cal := flow.StaticCallee(&call.Call); cal != nil && strings.HasPrefix(flow.FuncName(cal), "slices.Contains") {
							if g, isG := flow.ResolveLoad(call.Call.Args[0]).(*ssa.UnOp); isG {
								if gl, isGl := g.X.(*ssa.Global); isGl && gl.Name() == "workflowServiceDisallowedAPIs" && call.Call.Args[1] == ssa.Value(f.Params[0]) {
									ok = true
								}
							}
						}
					}
				}
			}
		}
		res.Check(ok, "O15.6", "IsAllowedWorkflowMigrationAPIs = !Contains(deny-list, action)", fnPos(c.Prog, f), "negated membership of the argument in workflowServiceDisallowedAPIs", "the function is not the negated membership test of its argument in the deny-list")
	}
	checkIsAllowedExact(c, res, "O15.6")

	res.Explanation = "SSA of proxy.NewClusterConnection / createServer / createTCPServer / buildProxyServer / makeServerOptions (origin of the serverConfiguration that reaches each grpc.Server, content of both interceptor chains for every configuration), of interceptor.AccessControlInterceptor.Intercept / StreamIntercept (edge-sensitive must-pass-through of the allow-list and deny-list tests before the handler, PermissionDenied on refusal), of every forwarding method of both proxy servers (client method called = own name), and the generated FullMethodName constants of all service methods against the prefix constants the interceptor uses. Decides wiring and check-before-forward on every path; does not decide the contents of run-time allow-lists or gRPC's own dispatch."
	res.Assumptions = []string{"grpc.ChainUnaryInterceptor / ChainStreamInterceptor run interceptors in slice order", "grpc dispatches a full method name to the handler registered under it", "api.MethodName returns the suffix after the last '/'"}
	res.Analysed["service_methods"] = map[string]int{"WorkflowService": len(methods["WorkflowService"]), "AdminService": len(methods["AdminService"])}
	res.RuleDoc["O15.7"] = "translation, access control and repair keep no memory between messages: no shipped function of the interceptor, proto/compat, auth and collect packages stores into package-level state, receiver fields or sync.Maps after construction - a cache keyed by message type or content makes the treatment of one message depend on the ones before it"
	checkStateless(c, res, "O15.7", []string{"interceptor", "proto/compat", "auth", "collect"}, map[string]string{})
	res.RuleDoc["O15.10"] = "a refusal reaches the caller: in the translation interceptor's Intercept / InterceptStream every error returned after the handler ran is, on every path, the handler's own error result - the access check sits further down the chain and answers through the handler, so an interceptor that returns nil (a shadowed err, say) turns permission-denied into a clean end of stream"
	checkHandlerErrorReturned(c, res, "O15.10")
	res.RuleDoc["O15.9"] = "the allow-list reaches the access check as it was configured: in packages config, auth, interceptor and proxy no append has as its first argument a truncating re-slice of a slice the function was handed (parameter, receiver field, or something loaded through them) - such an append overwrites the caller's element at that position, so a helper that abbreviates a list for the log replaces an allowed method before NewAccessControlInterceptor reads the same array"
	checkNoAppendOntoBorrowedPrefix(c, res, "O15.9", []string{"config", "auth", "interceptor", "proxy"}, 5)
	res.RuleDoc["O15.8"] = "no swallowed error in the files the mechanism lives in: no function returns a nil error on a path on which an error obtained from a call is known to be non-nil (io.EOF from a stream Recv, the normal end of a receive loop, is the one accepted idiom)"
	checkNoSwallowedErrors(c, res, "O15.8", []string{"interceptor/access_control.go", "auth/access_control.go", "auth/policy.go", "proxy/cluster_connection.go"})
	return res, nil
}

func checkPolicyWiring(c *Ctx, res *report.Result) {
	rule := "O15.1"
	ncc := resolve(c, res, rule, anchor{"proxy", "", "NewClusterConnection"})
	if ncc != nil {
		lits := serverConfigLiterals(ncc)
		var remote, local *cfgLiteral
		for _, l := range lits {
			switch l.facing {
			case "remote":
				remote = l
			case "local":
				local = l
			}
		}
		if remote == nil || local == nil || len(lits) != 2 {
			res.Undec(rule, "NewClusterConnection: two serverConfiguration literals (remote-facing, local-facing)", fnPos(c.Prog, ncc), fmt.Sprintf("found %d literals; cannot identify which faces the remote cluster", len(lits)))
		} else {
			p, _ := flow.FieldPath(remote.fields["aclPolicy"])
			res.Check(strings.HasSuffix(p, ".ACLPolicy") && !remote.multi["aclPolicy"], rule, "NewClusterConnection: remote-facing configuration carries connConfig.ACLPolicy", instrPos(c.Prog, remote.cell),
				"aclPolicy = "+p, "the serverConfiguration built for the remote-facing server does not take aclPolicy from connConfig.ACLPolicy (got '"+p+"'): inbound calls would be served without the access policy")
			// each literal reaches createServer unmodified
			for _, l := range []*cfgLiteral{remote, local} {
				ok := false
				for _, call := range flow.FindCalls(ncc, func(cc *ssa.CallCommon) bool { return flow.IsCallTo(cc, proxyPkg, "", "createServer") }) {
					if ld, isLd := call.Common().Args[1].(*ssa.UnOp); isLd && ld.X == ssa.Value(l.cell) {
						ok = true
						// no field store after the load
						for _, r := range *l.cell.Referrers() {
							if fa, isFA := r.(*ssa.FieldAddr); isFA {
								for _, rr := range *fa.Referrers() {
									if st, isSt := rr.(*ssa.Store); isSt && !flow.InstrDominates(st, call) {
										ok = false
									}
								}
							}
						}
					}
				}
				res.Check(ok, rule, "NewClusterConnection: "+l.facing+"-facing configuration is the one given to createServer", instrPos(c.Prog, l.cell), "passed by value after all fields are set", "the configuration literal is not what createServer receives")
			}
		}
	}
	passOn := func(a anchor, callee string, argIdx int) (*ssa.Function, []ssa.CallInstruction) {
		f := resolve(c, res, rule, a)
		if f == nil {
			return nil, nil
		}
		calls := flow.FindCalls(f, func(cc *ssa.CallCommon) bool { return flow.IsCallTo(cc, proxyPkg, "", callee) })
		for _, call := range calls {
			p := unmodifiedParam(call.Common().Args[argIdx])
			res.Check(p != nil && flow.NamedIs(p.Type(), proxyPkg, "serverConfiguration"), rule, a.name+": passes its serverConfiguration unchanged to "+callee, instrPos(c.Prog, call),
				"argument is the unmodified parameter", "the serverConfiguration handed to "+callee+" is not the unmodified parameter (a rebuilt or edited configuration can lose aclPolicy)")
		}
		return f, calls
	}
	// createServer: every transport branch
	if f, _ := passOn(anchor{"proxy", "", "createServer"}, "buildProxyServer", 0); f != nil {
		passOn(anchor{"proxy", "", "createServer"}, "createTCPServer", 1)
		// every return of a non-nil server derives from createTCPServer or from NewGRPCMuxManager fed with buildProxyServer's server
		for _, b := range f.Blocks {
			for _, ins := range b.Instrs {
				ret, ok := ins.(*ssa.Return)
				if !ok || flow.IsNilConst(flow.Ret(ret)[0]) {
					continue
				}
				v := flow.Strip(flow.Ret(ret)[0])
				good := false
				if ex, isEx := v.(*ssa.Extract); isEx {
					if call, isC := ex.Tuple.(*ssa.Call); isC {
						if flow.IsCallTo(&call.Call, proxyPkg, "", "createTCPServer") {
							good = true
						}
						if flow.IsCallTo(&call.Call, modPath+"/transport/mux", "", "NewGRPCMuxManager") {
							for _, a := range call.Call.Args {
								if sx, isSx := a.(*ssa.Extract); isSx {
									if bc, isBC := sx.Tuple.(*ssa.Call); isBC && flow.IsCallTo(&bc.Call, proxyPkg, "", "buildProxyServer") {
										good = true
									}
								}
							}
						}
					}
				}
				res.Check(good, rule, fmt.Sprintf("createServer: returned server comes from buildProxyServer (return in block %d)", b.Index), instrPos(c.Prog, ret), "server built by buildProxyServer with the given configuration", "a transport branch returns a server that was not built by buildProxyServer from the given configuration")
			}
		}
	}
	if f, calls := passOn(anchor{"proxy", "", "createTCPServer"}, "buildProxyServer", 0); f != nil && len(calls) == 1 {
		// the simpleGRPCServer literal's server field is buildProxyServer's result
		ok := false
		for _, b := range f.Blocks {
			for _, ins := range b.Instrs {
				if al, isAl := ins.(*ssa.Alloc); isAl && flow.NamedIs(al.Type(), proxyPkg, "simpleGRPCServer") {
					fs, _ := flow.FieldStores(al)
					if ex, isEx := fs["server"].(*ssa.Extract); isEx && ex.Tuple == calls[0].(*ssa.Call) && ex.Index == 0 {
						ok = true
					}
				}
			}
		}
		res.Check(ok, rule, "createTCPServer: listening server is buildProxyServer's result", fnPos(c.Prog, f), "simpleGRPCServer.server = buildProxyServer(c, ..)", "the TCP server that is started is not the one built with the configuration")
	}
	if f, calls := passOn(anchor{"proxy", "", "buildProxyServer"}, "makeServerOptions", 0); f != nil && len(calls) == 1 {
		ns := flow.FindCalls(f, func(cc *ssa.CallCommon) bool { return flow.IsCallTo(cc, grpcPkg, "", "NewServer") })
		ok := len(ns) == 1
		why := fmt.Sprintf("%d grpc.NewServer calls", len(ns))
		if ok {
			if ex, isEx := ns[0].Common().Args[0].(*ssa.Extract); !isEx || ex.Tuple != calls[0].(*ssa.Call) || ex.Index != 0 {
				ok, why = false, "grpc.NewServer is not given the option list returned by makeServerOptions"
			}
		}
		if ok {
			srv := ns[0].(*ssa.Call)
			regs := 0
			for _, call := range flow.Calls(f) {
				cc := call.Common()
				if cal := flow.StaticCallee(cc); cal != nil && (cal.Name() == "RegisterAdminServiceServer" || cal.Name() == "RegisterWorkflowServiceServer") {
					if flow.Strip(cc.Args[0]) == ssa.Value(srv) {
						regs++
					}
				}
			}
			if regs != 2 {
				ok, why = false, "both services are not registered on the server built with the options"
			}
			for _, b := range f.Blocks {
				for _, ins := range b.Instrs {
					if ret, isR := ins.(*ssa.Return); isR && !flow.IsNilConst(flow.Ret(ret)[0]) && flow.Ret(ret)[0] != ssa.Value(srv) {
						ok, why = false, "a server other than the one built with the options is returned"
					}
				}
			}
		}
		res.Check(ok, rule, "buildProxyServer: the registered and returned grpc.Server is built from makeServerOptions(c)", fnPos(c.Prog, f), "one server: options -> NewServer -> Register x2 -> return", why)
	}
	if f := resolve(c, res, rule, anchor{"proxy", "", "makeServerOptions"}); f != nil {
		// every return's option list contains both Chain* options
		for _, b := range f.Blocks {
			for _, ins := range b.Instrs {
				ret, ok := ins.(*ssa.Return)
				if !ok {
					continue
				}
				if !flow.IsNilConst(flow.Ret(ret)[1]) {
					continue // error return
				}
				good := true
				alts := flow.SliceSeqs(flow.Ret(ret)[0])
				for _, a := range alts {
					u, s := false, false
					for _, e := range a.Elems {
						k := interceptorKind(e)
						if strings.HasSuffix(k, "grpc.ChainUnaryInterceptor") {
							u = true
						}
						if strings.HasSuffix(k, "grpc.ChainStreamInterceptor") {
							s = true
						}
					}
					if !u || !s {
						good = false
					}
				}
				res.Check(good && len(alts) > 0, rule, fmt.Sprintf("makeServerOptions: returned options include both interceptor chains (return in block %d)", b.Index), instrPos(c.Prog, ret), fmt.Sprintf("%d variants", len(alts)), "an option list without the interceptor chains can be returned")
			}
		}
	}
}

// checkForwarders: sibling agreement of the generated pass-through methods.
func checkForwarders(c *Ctx, res *report.Result, methods map[string][]string) {
	rule := "O15.5"
	sp, err := c.Prog.SSAPkg("proxy")
	if err != nil {
		res.Undec(rule, "proxy package", "", err.Error())
		return
	}
	for recvName, svc := range map[string]string{"adminServiceProxyServer": "AdminService", "workflowServiceProxyServer": "WorkflowService"} {
		tn, ok := sp.Pkg.Scope().Lookup(recvName).(*types.TypeName)
		if !ok {
			res.Undec(rule, recvName, "", "type not found")
			continue
		}
		ms := c.Prog.SSA.MethodSets.MethodSet(types.NewPointer(tn.Type()))
		own := map[string]*ssa.Function{}
		for i := 0; i < ms.Len(); i++ {
			fn := c.Prog.SSA.MethodValue(ms.At(i))
			if fn == nil || fn.Pkg != sp || fn.Synthetic != "" {
				continue
			}
			own[fn.Name()] = fn
		}
		for _, meth := range methods[svc] {
			fn := own[meth]
			construct := recvName + "." + meth
			if fn == nil {
				// not overridden: the embedded Unimplemented server answers Unimplemented, nothing is forwarded
				res.Hold(rule, construct, "", "not implemented by the proxy: the embedded Unimplemented server refuses it, nothing reaches the cluster")
				continue
			}
			var clientCalls []string
			reach := flow.Reachable([]*ssa.Function{fn}, nil)
			for g := range reach {
				if g.Blocks == nil || g.Pkg != sp {
					continue
				}
				for _, call := range flow.Calls(g) {
					cc := call.Common()
					if cc.IsInvoke() {
						rt := cc.Value.Type().String()
						if strings.HasSuffix(rt, "adminservice/v1.AdminServiceClient") || strings.HasSuffix(rt, "workflowservice/v1.WorkflowServiceClient") {
							clientCalls = append(clientCalls, cc.Method.Name())
						}
					}
				}
			}
			sort.Strings(clientCalls)
			bad := ""
			for _, cm := range clientCalls {
				if cm != meth {
					bad = "calls client method " + cm
				}
			}
			if len(clientCalls) == 0 {
				bad = "forwards to no client method"
			}
			if meth != "StreamWorkflowReplicationMessages" && len(clientCalls) != 1 && bad == "" {
				bad = fmt.Sprintf("%d client calls", len(clientCalls))
			}
			res.Check(bad == "", rule, construct, fnPos(c.Prog, fn), "forwards only to "+meth, "server method "+meth+" "+bad+": a name-based allow-list entry would admit a different operation")
		}
	}
	_ = load.Module
}

// checkIsAllowedExact: AccessControl.IsAllowed is "empty list, or the argument itself is a key of the map", and
// NewAccesControl keys the map by the list's elements themselves. Any normalisation (case folding, trimming,
// prefixes) admits names that are not members of the list: Temporal names are case-sensitive.
func checkIsAllowedExact(c *Ctx, res *report.Result, rule string) {
	if f := resolve(c, res, rule, anchor{"auth", "*AccessControl", "IsAllowed"}); f != nil {
		// returns true only under len(allowedMap)==0, otherwise the map lookup of the argument
		ok := true
		for _, b := range f.Blocks {
			for _, ins := range b.Instrs {
				ret, isR := ins.(*ssa.Return)
				if !isR {
					continue
				}
				if cb, isC := flow.ConstBool(flow.Ret(ret)[0]); isC {
					if !cb {
						continue
					}
					// constant true: must be under len(..)==0
					g := flow.NormGuards(flow.Guards(b))
					found := false
					for _, x := range g {
						if bo, isB := x.Cond.(*ssa.BinOp); isB && bo.Op == token.EQL && x.Side {
							if n, isN := flow.ConstInt(bo.Y); isN && n == 0 {
								found = true
							}
						}
					}
					if !found {
						ok = false
					}
					continue
				}
				if lk, isL := flow.Ret(ret)[0].(*ssa.Lookup); !isL || lk.Index != ssa.Value(f.Params[1]) {
					ok = false
				}
			}
		}
		res.Check(ok, rule, "AccessControl.IsAllowed = empty list or exact membership", fnPos(c.Prog, f), "returns allowedMap[name]; constant true only for an empty list", "IsAllowed admits names other than exact members of the list")
	}
	if f := resolve(c, res, rule, anchor{"auth", "", "NewAccesControl"}); f != nil {
		n := 0
		okKeys := true
		for _, b := range f.Blocks {
			for _, ins := range b.Instrs {
				mu, isMU := ins.(*ssa.MapUpdate)
				if !isMU {
					continue
				}
				n++
				// the key is the ranged element of the list parameter
				k := flow.Strip(flow.ResolveLoad(mu.Key))
				elem := false
				if ld, isLd := k.(*ssa.UnOp); isLd {
					if ia, isIA := ld.X.(*ssa.IndexAddr); isIA && flow.ResolveLoad(ia.X) == ssa.Value(f.Params[0]) {
						elem = true
					}
				}
				if ex, isEx := k.(*ssa.Extract); isEx {
					if _, isN := ex.Tuple.(*ssa.Next); isN {
						elem = true
					}
				}
				if !elem {
					okKeys = false
				}
			}
		}
		res.Check(okKeys && n > 0, rule, "NewAccesControl keys the map by the list's own elements", fnPos(c.Prog, f), "allowedMap[allowed] = true for allowed := range list", "the allow-list is stored under transformed keys (case folding, trimming, ...): names that are not in the list become members")
	}
}

// checkACLBuiltFromPolicy: the two allow-lists handed to NewAccessControlInterceptor are the policy's own lists -
// the field itself, or the result of a helper whose returned slice holds nothing but elements of that field
// (copying, de-duplicating, dropping). A list that also holds names from elsewhere (translated aliases, defaults)
// admits what the policy does not list.
func checkACLBuiltFromPolicy(c *Ctx, res *report.Result, rule string, f *ssa.Function) {
	mk := flow.FindCalls(f, func(cc *ssa.CallCommon) bool { return flow.IsCallTo(cc, icPkg, "", "NewAccessControlInterceptor") })
	if len(mk) != 1 {
		res.Undec(rule, "makeServerOptions: NewAccessControlInterceptor call", fnPos(c.Prog, f), fmt.Sprintf("%d calls", len(mk)))
		return
	}
	args := mk[0].Common().Args
	for _, spec := range []struct {
		arg    int
		suffix string
	}{{1, "aclPolicy.AllowedMethods.AdminService"}, {2, "aclPolicy.AllowedNamespaces"}} {
		construct := "makeServerOptions: the access-control interceptor's list #" + fmt.Sprint(spec.arg) + " is " + spec.suffix + " and nothing else"
		v := args[spec.arg]
		if p, ok := flow.FieldPath(v); ok && strings.HasSuffix(p, spec.suffix) {
			res.Hold(rule, construct, instrPos(c.Prog, mk[0]), p)
			continue
		}
		call, isCall := flow.Strip(v).(*ssa.Call)
		if !isCall {
			res.Viol(rule, construct, instrPos(c.Prog, mk[0]), "the ACL interceptor is not built from the configured policy list ("+flow.Describe(v)+")")
			continue
		}
		g := flow.StaticCallee(&call.Call)
		pidx := -1
		for i, a := range call.Call.Args {
			if p, ok := flow.FieldPath(a); ok && strings.HasSuffix(p, spec.suffix) {
				pidx = i
			}
		}
		if g == nil || pidx < 0 {
			res.Viol(rule, construct, instrPos(c.Prog, mk[0]), "the ACL interceptor's list is computed by "+flow.Describe(v)+", which does not take the policy's list")
			continue
		}
		if g.Pkg != nil && g.Pkg.Pkg.Path() == "slices" && originName(g) == "Clone" {
			res.Hold(rule, construct, instrPos(c.Prog, mk[0]), "slices.Clone of the policy's list")
			continue
		}
		if len(g.Blocks) == 0 {
			res.Undec(rule, construct, instrPos(c.Prog, mk[0]), "the list passes through "+g.String()+", whose body is not available")
			continue
		}
		ok, bad, known := sliceElemsOnlyFrom(g, g.Params[pidx])
		switch {
		case !known:
			res.Undec(rule, construct, instrPos(c.Prog, mk[0]), "the list passes through "+shortFn(g)+", whose result could not be traced to its input ("+bad+")")
		case !ok:
			res.Viol(rule, construct, instrPos(c.Prog, mk[0]), "the list handed to the access check is built by "+shortFn(g)+", which also puts "+bad+" into it: names the policy does not list are admitted")
		default:
			res.Hold(rule, construct, instrPos(c.Prog, mk[0]), "built by "+shortFn(g)+", whose result holds only elements of the policy's list")
		}
	}
}

// sliceElemsOnlyFrom: every element of the slice g returns is an element of the parameter p (g builds its result
// with make/nil + append of range elements of p, or returns p / a re-slice of p).
func sliceElemsOnlyFrom(g *ssa.Function, p *ssa.Parameter) (ok bool, bad string, known bool) {
	isElemOfP := func(v ssa.Value) bool {
		ld, isLd := v.(*ssa.UnOp)
		if !isLd || ld.Op != token.MUL {
			return false
		}
		ia, isIA := ld.X.(*ssa.IndexAddr)
		return isIA && flow.Strip(flow.ResolveLoad(ia.X)) == ssa.Value(p)
	}
	seen := map[ssa.Value]bool{}
	var walk func(v ssa.Value, d int) (bool, string, bool)
	walk = func(v ssa.Value, d int) (bool, string, bool) {
		if d > 12 {
			return false, "too deep", false
		}
		if seen[v] {
			return true, "", true
		}
		seen[v] = true
		switch x := v.(type) {
		case *ssa.Parameter:
			if x == p {
				return true, "", true
			}
			return false, "parameter " + x.Name(), true
		case *ssa.Const:
			return true, "", true // nil
		case *ssa.MakeSlice:
			return true, "", true
		case *ssa.Slice:
			if _, isArr := x.X.Type().Underlying().(*types.Pointer); isArr {
				// a slice of a local array: its stored elements
				if al, isAl := x.X.(*ssa.Alloc); isAl {
					for _, r := range *al.Referrers() {
						if ia, isIA := r.(*ssa.IndexAddr); isIA {
							for _, rr := range *ia.Referrers() {
								if st, isSt := rr.(*ssa.Store); isSt && st.Addr == ssa.Value(ia) {
									if !isElemOfP(st.Val) {
										return false, "a value that is not an element of its input (" + flow.Describe(st.Val) + ")", true
									}
								}
							}
						}
					}
					return true, "", true
				}
				return false, "array slice", false
			}
			return walk(x.X, d+1)
		case *ssa.Phi:
			for _, e := range x.Edges {
				if o, b, k := walk(e, d+1); !k || !o {
					return o, b, k
				}
			}
			return true, "", true
		case *ssa.Call:
			if bi, isB := x.Call.Value.(*ssa.Builtin); isB && bi.Name() == "append" {
				for _, a := range x.Call.Args {
					if o, b, k := walk(a, d+1); !k || !o {
						return o, b, k
					}
				}
				return true, "", true
			}
			return false, "result of " + flow.Describe(x), false
		}
		return false, flow.Describe(v), false
	}
	any := false
	for _, b := range g.Blocks {
		for _, ins := range b.Instrs {
			if ret, isR := ins.(*ssa.Return); isR && len(ret.Results) >= 1 {
				any = true
				if o, bd, k := walk(ret.Results[0], 0); !k || !o {
					return o, bd, k
				}
			}
		}
	}
	return any, "", any
}
