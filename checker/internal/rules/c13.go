package rules

import (
	"fmt"
	"go/token"
	"go/types"
	"strings"

	"golang.org/x/tools/go/ssa"

	"s2scheck/internal/flow"
	"s2scheck/internal/report"
)

func init() { Registry["C13"] = c13 }

const (
	configPkg  = modPath + "/config"
	collectPkg = modPath + "/collect"
)

// errorReturned: the error result of `call` (its last result) is tested and, on the non-nil side,
// a return follows whose error operand is that error or a wrapper built from it.
func errorReturned(f *ssa.Function, call *ssa.Call) (bool, string) {
	var errv ssa.Value
	sig := call.Call.Signature()
	n := sig.Results().Len()
	if n == 1 {
		errv = call
	} else {
		for _, r := range *call.Referrers() {
			if ex, ok := r.(*ssa.Extract); ok && ex.Index == n-1 {
				errv = ex
			}
		}
	}
	if errv == nil {
		return false, "the error result is discarded"
	}
	// stored to a cell? follow loads
	derived := map[ssa.Value]bool{errv: true}
	for _, r := range *errv.Referrers() {
		if st, ok := r.(*ssa.Store); ok && st.Val == errv {
			if cell := flow.CellOf(st.Addr); cell != nil {
				for _, rr := range *cell.Referrers() {
					if ld, ok := rr.(*ssa.UnOp); ok && ld.Op == token.MUL && flow.ResolveLoad(ld) == errv {
						derived[ld] = true
					}
				}
			}
		}
	}
	for _, b := range f.Blocks {
		iff := lastIfOf(b)
		if iff == nil {
			continue
		}
		bo, ok := iff.Cond.(*ssa.BinOp)
		if !ok || (bo.Op != token.NEQ && bo.Op != token.EQL) {
			continue
		}
		var tested ssa.Value
		if flow.IsNilConst(bo.Y) {
			tested = bo.X
		} else if flow.IsNilConst(bo.X) {
			tested = bo.Y
		}
		if tested == nil || !derived[tested] {
			continue
		}
		errSide := b.Succs[0]
		if bo.Op == token.EQL {
			errSide = b.Succs[1]
		}
		// every path from errSide must return an error derived from errv (no path back to normal flow)
		okAll := true
		found := false
		seen := map[*ssa.BasicBlock]bool{}
		var walk func(x *ssa.BasicBlock)
		walk = func(x *ssa.BasicBlock) {
			if seen[x] || !okAll {
				return
			}
			seen[x] = true
			for _, ins := range x.Instrs {
				if ret, ok := ins.(*ssa.Return); ok {
					ev := flow.Ret(ret)[len(ret.Results)-1]
					if !valueDerivesFrom(ev, derived, 0) {
						okAll = false
					}
					found = true
					return
				}
			}
			for _, s := range x.Succs {
				if !errSide.Dominates(s) && s != errSide {
					okAll = false // rejoins normal flow
					return
				}
				walk(s)
			}
		}
		walk(errSide)
		if okAll && found {
			return true, ""
		}
		return false, "the non-nil error side does not return the error on every path"
	}
	return false, "the error result is never compared with nil"
}

func valueDerivesFrom(v ssa.Value, src map[ssa.Value]bool, depth int) bool {
	if depth > 6 || v == nil {
		return false
	}
	if src[v] {
		return true
	}
	if r := flow.ResolveLoad(v); r != v && src[r] {
		return true
	}
	switch x := v.(type) {
	case *ssa.Call:
		for _, a := range x.Call.Args {
			if valueDerivesFrom(a, src, depth+1) {
				return true
			}
			// variadic slice
			for _, alt := range flow.SliceSeqs(a) {
				for _, e := range alt.Elems {
					if e != a && valueDerivesFrom(e, src, depth+1) {
						return true
					}
				}
			}
		}
	case *ssa.MakeInterface:
		return valueDerivesFrom(x.X, src, depth+1)
	case *ssa.ChangeInterface:
		return valueDerivesFrom(x.X, src, depth+1)
	case *ssa.Phi:
		for _, e := range x.Edges {
			if valueDerivesFrom(e, src, depth+1) {
				return true
			}
		}
	case *ssa.UnOp:
		return valueDerivesFrom(x.X, src, depth+1)
	}
	return false
}

// inverseParity counts Inverse() applications between v and a base value; returns base.
func inverseParity(v ssa.Value) (base ssa.Value, parity int) {
	for i := 0; i < 8; i++ {
		v = flow.Strip(flow.ResolveLoad(v))
		c, ok := v.(*ssa.Call)
		if !ok {
			return v, parity
		}
		if c.Call.IsInvoke() && c.Call.Method.Name() == "Inverse" {
			parity++
			v = c.Call.Value
			continue
		}
		if f := flow.StaticCallee(&c.Call); f != nil && f.Name() == "Inverse" && len(c.Call.Args) == 1 {
			parity++
			v = c.Call.Args[0]
			continue
		}
		return v, parity
	}
	return v, parity
}

// checkTranslationOrientation implements O13.1 (namespaces) and O14.5 (search attributes).
func checkTranslationOrientation(c *Ctx, res *report.Result, rule string, ns, sa bool) {
	ncc := resolve(c, res, rule, anchor{"proxy", "", "NewClusterConnection"})
	mso := resolve(c, res, rule, anchor{"proxy", "", "makeServerOptions"})
	if ncc == nil || mso == nil {
		return
	}
	lits := serverConfigLiterals(ncc)
	byFacing := map[string]*cfgLiteral{}
	for _, l := range lits {
		byFacing[l.facing] = l
	}
	if byFacing["remote"] == nil || byFacing["local"] == nil {
		res.Undec(rule, "NewClusterConnection: configurations by facing", fnPos(c.Prog, ncc), "cannot identify the remote-facing and local-facing serverConfiguration literals")
		return
	}
	type spec struct {
		field, ctor, baseCall, what string
		on                          bool
	}
	for _, sp := range []spec{
		{"nsTranslations", "NewNamespaceNameTranslator", "AsLocalToRemoteBiMap", "namespace", ns},
		{"saTranslations", "NewSearchAttributeTranslator", "AsLocalToRemoteSATranslation", "search-attribute", sa},
	} {
		if !sp.on {
			continue
		}
		var bases [2]ssa.Value
		for i, facing := range []string{"remote", "local"} {
			l := byFacing[facing]
			v, ok := l.fields[sp.field]
			construct := fmt.Sprintf("NewClusterConnection: %s-facing server gets %s maps with the right parity", facing, sp.what)
			if !ok || l.multi[sp.field] {
				res.Viol(rule, construct, instrPos(c.Prog, l.cell), "the configuration literal does not set "+sp.field+" exactly once")
				continue
			}
			base, par := inverseParity(v)
			bases[i] = base
			want := 0
			if facing == "remote" {
				want = 1
			}
			isBase := false
			if ex, isEx := base.(*ssa.Extract); isEx && ex.Index == 0 {
				if call, isC := ex.Tuple.(*ssa.Call); isC {
					if cal := flow.StaticCallee(&call.Call); cal != nil && cal.Name() == sp.baseCall {
						isBase = true
					}
				}
			}
			detail := fmt.Sprintf("%s = Inverse^%d(%s())", sp.field, par, sp.baseCall)
			res.Check(isBase && par%2 == want, rule, construct, instrPos(c.Prog, l.cell), detail,
				fmt.Sprintf("%s: expected an %s number of Inverse() applications to the local->remote map %s() for the server facing the %s cluster (requests arriving there carry %s names)", detail, map[int]string{0: "even", 1: "odd"}[want], sp.baseCall, facing, facing))
		}
		res.Check(bases[0] != nil && bases[0] == bases[1], rule, "NewClusterConnection: both servers derive their "+sp.what+" maps from the same local->remote map", fnPos(c.Prog, ncc), "one "+sp.baseCall+"() result", "the two servers use different base maps: a round trip would not restore the original names")

		// makeServerOptions: request map parity 0, response map parity 1 relative to c.<field>
		ctors := flow.FindCalls(mso, func(cc *ssa.CallCommon) bool { return flow.IsCallTo(cc, icPkg, "", sp.ctor) })
		if len(ctors) != 1 {
			res.Undec(rule, "makeServerOptions: "+sp.ctor+" call", fnPos(c.Prog, mso), fmt.Sprintf("%d calls", len(ctors)))
			continue
		}
		args := ctors[0].Common().Args
		for i, want := range []int{0, 1} {
			which := []string{"request", "response"}[i]
			a := flow.Strip(args[1+i])
			// strip the final AsMap()/FlattenMaps()
			inner := a
			if call, ok := a.(*ssa.Call); ok {
				if call.Call.IsInvoke() && call.Call.Method.Name() == "AsMap" {
					inner = call.Call.Value
				} else if cal := flow.StaticCallee(&call.Call); cal != nil && cal.Name() == "FlattenMaps" {
					inner = call.Call.Args[0]
				}
			}
			base, par := inverseParity(inner)
			p, _ := flow.FieldPath(base)
			res.Check(strings.HasSuffix(p, "."+sp.field) && par%2 == want, rule, fmt.Sprintf("makeServerOptions: %s %s map = c.%s inverted %d time(s)", sp.what, which, sp.field, want), instrPos(c.Prog, ctors[0]),
				fmt.Sprintf("Inverse^%d(%s)", par, p), fmt.Sprintf("the %s map handed to %s is Inverse^%d(%s): request and response directions are not each other's inverse in the intended orientation", which, sp.ctor, par, p))
		}
	}
	if ns {
		checkNsTranslatorInternals(c, res, rule)
	}
	if sa {
		checkSaTranslatorInternals(c, res, rule)
	}
	checkBiMapOrientation(c, res, rule, ns, sa)
}

// fieldStoredFrom: in constructor f, the struct literal's field `field` is createFn(param #idx).
func fieldStoredFrom(f *ssa.Function, field, createFn string, paramIdx int) bool {
	for _, b := range f.Blocks {
		for _, ins := range b.Instrs {
			st, ok := ins.(*ssa.Store)
			if !ok {
				continue
			}
			fa, ok := st.Addr.(*ssa.FieldAddr)
			if !ok || flow.FieldName(fa.X.Type(), fa.Field) != field {
				continue
			}
			call, ok := st.Val.(*ssa.Call)
			if !ok {
				continue
			}
			if cal := flow.StaticCallee(&call.Call); cal != nil && cal.Name() == createFn && len(call.Call.Args) == 1 && call.Call.Args[0] == ssa.Value(f.Params[paramIdx]) {
				return true
			}
		}
	}
	return false
}

// methodUsesField: method m of the translator reads receiver field `field` and no field in `not`.
func methodUsesFields(f *ssa.Function) map[string]bool {
	out := map[string]bool{}
	seen := map[*ssa.Function]bool{}
	var rec func(g *ssa.Function, depth int)
	rec = func(g *ssa.Function, depth int) {
		if seen[g] || g.Blocks == nil || depth > 2 {
			return
		}
		seen[g] = true
		for _, b := range g.Blocks {
			for _, ins := range b.Instrs {
				if fa, ok := ins.(*ssa.FieldAddr); ok {
					out[flow.FieldName(fa.X.Type(), fa.Field)] = true
				}
				if call, ok := ins.(ssa.CallInstruction); ok {
					if cal := flow.StaticCallee(call.Common()); cal != nil && cal.Pkg == f.Pkg && cal.Signature.Recv() != nil {
						rec(cal, depth+1)
					}
				}
			}
		}
	}
	rec(f, 0)
	return out
}

func checkNsTranslatorInternals(c *Ctx, res *report.Result, rule string) {
	ctor := resolve(c, res, rule, anchor{"interceptor", "", "NewNamespaceNameTranslator"})
	if ctor != nil {
		res.Check(fieldStoredFrom(ctor, "matchReq", "createStringMatcher", 1) && fieldStoredFrom(ctor, "matchResp", "createStringMatcher", 2), rule,
			"NewNamespaceNameTranslator: matchReq from the request map, matchResp from the response map", fnPos(c.Prog, ctor), "ok", "the matchers are not built from their own map parameter (swapped or shared)")
		// visitor is visitNamespace
		ok := false
		for _, b := range ctor.Blocks {
			for _, ins := range b.Instrs {
				if st, isSt := ins.(*ssa.Store); isSt {
					if fa, isFA := st.Addr.(*ssa.FieldAddr); isFA && flow.FieldName(fa.X.Type(), fa.Field) == "visitor" {
						if fn, isFn := flow.Strip(st.Val).(*ssa.Function); isFn && fn.Name() == "visitNamespace" {
							ok = true
						}
					}
				}
			}
		}
		res.Check(ok, rule, "NewNamespaceNameTranslator: visitor is visitNamespace", fnPos(c.Prog, ctor), "ok", "the namespace translator does not walk with visitNamespace")
	}
	req := resolve(c, res, rule, anchor{"interceptor", "*translatorImpl", "TranslateRequest"})
	resp := resolve(c, res, rule, anchor{"interceptor", "*translatorImpl", "TranslateResponse"})
	if req != nil && resp != nil {
		ur, us := methodUsesFields(req), methodUsesFields(resp)
		res.Check(ur["matchReq"] && !ur["matchResp"] && us["matchResp"] && !us["matchReq"], rule, "translatorImpl: TranslateRequest uses matchReq only, TranslateResponse matchResp only", fnPos(c.Prog, req), "ok", "a translate direction uses the other direction's matcher")
	}
}

func checkSaTranslatorInternals(c *Ctx, res *report.Result, rule string) {
	ctor := resolve(c, res, rule, anchor{"interceptor", "", "NewSearchAttributeTranslator"})
	if ctor != nil {
		res.Check(fieldStoredFrom(ctor, "reqMap", "createStringMatchers", 1) && fieldStoredFrom(ctor, "respMap", "createStringMatchers", 2), rule,
			"NewSearchAttributeTranslator: reqMap from the request maps, respMap from the response maps", fnPos(c.Prog, ctor), "ok", "the matcher tables are not built from their own parameter (swapped or shared)")
	}
	req := resolve(c, res, rule, anchor{"interceptor", "*saTranslator", "TranslateRequest"})
	resp := resolve(c, res, rule, anchor{"interceptor", "*saTranslator", "TranslateResponse"})
	if req != nil && resp != nil {
		ur, us := methodUsesFields(req), methodUsesFields(resp)
		res.Check(ur["reqMap"] && !ur["respMap"] && us["respMap"] && !us["reqMap"], rule, "saTranslator: TranslateRequest uses reqMap only, TranslateResponse respMap only", fnPos(c.Prog, req), "ok", "a translate direction uses the other direction's key map")
	}
	// createStringMatchers builds one exact matcher per namespace id from that namespace's map
	if f := resolve(c, res, rule, anchor{"interceptor", "", "createStringMatchers"}); f != nil {
		ok := false
		for _, call := range flow.FindCalls(f, func(cc *ssa.CallCommon) bool { return flow.IsCallTo(cc, icPkg, "", "createStringMatcher") }) {
			if ex, isEx := call.Common().Args[0].(*ssa.Extract); isEx && ex.Index == 2 {
				ok = true
			}
		}
		res.Check(ok, rule, "createStringMatchers: matcher per namespace built from that namespace's map", fnPos(c.Prog, f), "ok", "matchers are not built from the ranged map value")
	}
	// SearchAttributeTranslation.Inverse flips `inverted`; FlattenMaps inverts iff inverted
	if f := resolve(c, res, rule, anchor{"config", "SearchAttributeTranslation", "Inverse"}); f != nil {
		ok := false
		for _, b := range f.Blocks {
			for _, ins := range b.Instrs {
				if st, isSt := ins.(*ssa.Store); isSt {
					if fa, isFA := st.Addr.(*ssa.FieldAddr); isFA && flow.FieldName(fa.X.Type(), fa.Field) == "inverted" {
						if u, isU := st.Val.(*ssa.UnOp); isU && u.Op == token.NOT {
							ok = true
						}
					}
				}
			}
		}
		res.Check(ok, rule, "SearchAttributeTranslation.Inverse flips the inverted flag", fnPos(c.Prog, f), "ok", "Inverse() does not negate the orientation flag")
	}
	if f := resolve(c, res, rule, anchor{"config", "SearchAttributeTranslation", "FlattenMaps"}); f != nil {
		ok := false
		for _, call := range flow.Calls(f) {
			cc := call.Common()
			if cc.IsInvoke() && cc.Method.Name() == "Inverse" {
				for _, g := range flow.NormGuards(flow.Guards(call.Block())) {
					if _, fld, isF := flow.FieldLoadOf(flow.ResolveLoad(g.Cond)); isF && fld == "inverted" && g.Side {
						ok = true
					}
				}
			}
		}
		res.Check(ok, rule, "SearchAttributeTranslation.FlattenMaps inverts exactly when the flag is set", fnPos(c.Prog, f), "ok", "FlattenMaps does not apply Inverse() under the inverted flag")
	}
}

// checkBiMapOrientation: the base map is local -> remote, Inverse() returns the backward map, and the
// backward map is the value->key image of the forward map.
func checkBiMapOrientation(c *Ctx, res *report.Result, rule string, ns, sa bool) {
	type src struct {
		a            anchor
		first, secnd string
	}
	var srcs []src
	if ns {
		srcs = append(srcs, src{anchor{"config", "*StringTranslator", "AsLocalToRemoteBiMap"}, "Local", "Remote"})
	}
	if sa {
		srcs = append(srcs, src{anchor{"config", "*SATranslationConfig", "AsLocalToRemoteSATranslation"}, "LocalName", "RemoteName"})
	}
	for _, s := range srcs {
		f := resolve(c, res, rule, s.a)
		if f == nil {
			continue
		}
		ok := false
		for _, g := range flow.AnonFuncsDeep(f) {
			for _, call := range flow.Calls(g) {
				cc := call.Common()
				if cc.IsInvoke() || flow.StaticCallee(cc) != nil || len(cc.Args) != 2 {
					continue
				}
				_, f1, ok1 := flow.FieldLoadOf(flow.ResolveLoad(cc.Args[0]))
				_, f2, ok2 := flow.FieldLoadOf(flow.ResolveLoad(cc.Args[1]))
				if ok1 && ok2 && f1 == s.first && f2 == s.secnd {
					ok = true
				}
			}
		}
		res.Check(ok, rule, s.a.name+": pairs are yielded as (local, remote)", fnPos(c.Prog, f), "yield(m."+s.first+", m."+s.secnd+")", "the base map is not built with the local name as key and the remote name as value")
		ruleInj := rule
		if rule == "O13.1" {
			ruleInj = "O13.4"
		}
		// every configured pair reaches the bimap (and with it the duplicate tests): in the generator closure no
		// path from the load of an element back to the loop head avoids the yield call
		for _, g := range flow.AnonFuncsDeep(f) {
			isYield := func(x ssa.Instruction) bool {
				call, isC := x.(ssa.CallInstruction)
				if !isC {
					return false
				}
				cc := call.Common()
				return !cc.IsInvoke() && flow.StaticCallee(cc) == nil && len(g.Params) > 0 && cc.Value == ssa.Value(g.Params[0])
			}
			if len(flow.FindCalls(g, func(cc *ssa.CallCommon) bool { return len(g.Params) > 0 && cc.Value == ssa.Value(g.Params[0]) })) == 0 {
				continue
			}
			checked := false
			for _, b := range g.Blocks {
				for _, ins := range b.Instrs {
					ia, isIA := ins.(*ssa.IndexAddr)
					if !isIA {
						continue
					}
					idx, isInstr := ia.Index.(ssa.Instruction)
					if !isInstr || !idx.Block().Dominates(b) {
						continue
					}
					checked = true
					isHead := func(x ssa.Instruction) bool { return x == idx }
					r := flow.FindPath(flow.After(ia), isHead, isYield, nil)
					res.Check(!r.Found, ruleInj, s.a.name+": every configured pair reaches the bimap", instrPos(c.Prog, ia), "no path through the loop body skips yield", "a configured pair can be skipped before it is handed to the bimap (path "+flow.BlockPath(r.Via)+"): it then takes no part in the one-to-one test, and a list that maps two names onto one is accepted at start-up")
				}
			}
			if !checked {
				res.Undec(ruleInj, s.a.name+": every configured pair reaches the bimap", fnPos(c.Prog, g), "the loop over the configured pairs was not recognised")
			}
		}
	}
	// generic bimap: forward.contents[key]=val; backward.contents[val]=key; inverse pointers crossed; Inverse returns m.inverse
	pk, err := c.Prog.SSAPkg("collect")
	if err != nil {
		res.Undec(rule, "collect package", "", err.Error())
		return
	}
	nb := pk.Func("NewStaticBiMap")
	if nb == nil {
		res.Undec(rule, "collect.NewStaticBiMap", "", "anchor does not resolve")
		return
	}
	initBimapRoles(nb)
	okFwd, okBwd := false, false
	for _, g := range append([]*ssa.Function{nb}, flow.AnonFuncsDeep(nb)...) {
		for _, b := range g.Blocks {
			for _, ins := range b.Instrs {
				mu, isMU := ins.(*ssa.MapUpdate)
				if !isMU {
					continue
				}
				owner := mapOwnerName(mu.Map)
				k, kp := mu.Key.(*ssa.Parameter)
				v, vp := mu.Value.(*ssa.Parameter)
				if !kp || !vp || len(g.Params) != 2 {
					continue
				}
				if owner == "forward" && k == g.Params[0] && v == g.Params[1] {
					okFwd = true
				}
				if owner == "backward" && k == g.Params[1] && v == g.Params[0] {
					okBwd = true
				}
			}
		}
	}
	res.Check(okFwd && okBwd, rule, "NewStaticBiMap: forward[key]=val and backward[val]=key", fnPos(c.Prog, nb), "ok", "the backward map is not the value->key image of the forward map")
	// inverse pointers
	cross := 0
	for _, b := range nb.Blocks {
		for _, ins := range b.Instrs {
			st, isSt := ins.(*ssa.Store)
			if !isSt {
				continue
			}
			fa, isFA := st.Addr.(*ssa.FieldAddr)
			if !isFA || flow.FieldName(fa.X.Type(), fa.Field) != "inverse" {
				continue
			}
			a, b2 := cellName(fa.X), cellName(st.Val)
			if (a == "forward" && b2 == "backward") || (a == "backward" && b2 == "forward") {
				cross++
			}
		}
	}
	res.Check(cross == 2, rule, "NewStaticBiMap: forward.inverse = backward and backward.inverse = forward", fnPos(c.Prog, nb), "ok", "the inverse pointers are not crossed")
	// returned value is forward
	retOK := false
	for _, b := range nb.Blocks {
		for _, ins := range b.Instrs {
			if st, isSt := ins.(*ssa.Store); isSt {
				if mi, isMI := st.Val.(*ssa.MakeInterface); isMI && cellName(mi.X) == "forward" {
					retOK = true
				}
			}
			if ret, isR := ins.(*ssa.Return); isR && len(ret.Results) == 2 {
				if mi, isMI := flow.Ret(ret)[0].(*ssa.MakeInterface); isMI && cellName(mi.X) == "forward" {
					retOK = true
				}
			}
		}
	}
	res.Check(retOK, rule, "NewStaticBiMap: returns the forward map", fnPos(c.Prog, nb), "ok", "the constructor does not return the forward (key->value) map")
	// Inverse() returns m.inverse
	for _, mem := range pk.Members {
		_ = mem
	}
	if tn, ok := pk.Pkg.Scope().Lookup("staticBiMap").(*types.TypeName); ok {
		if named, ok := tn.Type().(*types.Named); ok {
			for i := 0; i < named.NumMethods(); i++ {
				mo := named.Method(i)
				if mo.Name() != "Inverse" && mo.Name() != "AsMap" {
					continue
				}
				mf := c.Prog.SSA.FuncValue(mo)
				if mf == nil || mf.Blocks == nil {
					res.Undec(rule, "staticBiMap."+mo.Name(), "", "no SSA body")
					continue
				}
				want := map[string]string{"Inverse": "inverse", "AsMap": "contents"}[mo.Name()]
				ok := false
				for _, b := range mf.Blocks {
					for _, ins := range b.Instrs {
						if ret, isR := ins.(*ssa.Return); isR && !flow.IsNilConst(flow.Ret(ret)[0]) {
							v := flow.Strip(flow.Ret(ret)[0])
							if _, fld, isF := flow.FieldLoadOf(v); isF && fld == want {
								ok = true
							}
						}
					}
				}
				res.Check(ok, rule, "staticBiMap."+mo.Name()+" returns m."+want, fnPos(c.Prog, mf), "ok", "staticBiMap."+mo.Name()+" does not return the receiver's "+want)
			}
		}
	}
}

// bimapRoles names the two local bimap cells of NewStaticBiMap by role: the one whose value is returned
// is "forward", the other "backward" (independent of the variable names).
var bimapRoles = map[ssa.Value]string{}

func initBimapRoles(nb *ssa.Function) {
	bimapRoles = map[ssa.Value]string{}
	var cells []*ssa.Alloc
	for _, b := range nb.Blocks {
		for _, ins := range b.Instrs {
			if al, ok := ins.(*ssa.Alloc); ok {
				if p, ok := al.Type().Underlying().(*types.Pointer); ok {
					if pp, ok := p.Elem().Underlying().(*types.Pointer); ok {
						if n, ok := types.Unalias(pp.Elem()).(*types.Named); ok && n.Obj().Name() == "staticBiMap" {
							cells = append(cells, al)
						}
					}
				}
			}
		}
	}
	var fwd *ssa.Alloc
	for _, b := range nb.Blocks {
		for _, ins := range b.Instrs {
			var v ssa.Value
			switch x := ins.(type) {
			case *ssa.Store:
				v = x.Val
			case *ssa.Return:
				if len(x.Results) > 0 {
					v = x.Results[0]
				}
			}
			if mi, ok := v.(*ssa.MakeInterface); ok {
				if ld, ok := mi.X.(*ssa.UnOp); ok {
					if al, ok := ld.X.(*ssa.Alloc); ok {
						for _, cnd := range cells {
							if cnd == al {
								fwd = al
							}
						}
					}
				}
			}
		}
	}
	for _, cnd := range cells {
		if cnd == fwd {
			bimapRoles[cnd] = "forward"
		} else if fwd != nil {
			bimapRoles[cnd] = "backward"
		}
	}
}

// mapOwnerName: for a map value loaded as (*cell).contents, the role of the cell (forward/backward).
func mapOwnerName(m ssa.Value) string {
	m = flow.ResolveLoad(m)
	ld, ok := m.(*ssa.UnOp)
	if !ok {
		return ""
	}
	fa, ok := ld.X.(*ssa.FieldAddr)
	if !ok || flow.FieldName(fa.X.Type(), fa.Field) != "contents" {
		return ""
	}
	return cellName(fa.X)
}

// cellName names the role of the bimap cell behind a value `*cell`.
func cellName(v ssa.Value) string {
	if ld, ok := v.(*ssa.UnOp); ok && ld.Op == token.MUL {
		switch x := ld.X.(type) {
		case *ssa.FreeVar:
			if b := freeVarBinding(x); b != nil {
				return bimapRoles[b]
			}
		case *ssa.Alloc:
			return bimapRoles[x]
		}
	}
	return ""
}

func c13(c *Ctx) (*report.Result, error) {
	res := newResult("C13")
	res.RuleDoc["O13.1"] = "orientation: the server facing the remote cluster translates requests remote->local and responses local->remote, the server facing the local cluster the opposite; request and response maps are inverses of one map by construction (parity of Inverse() applications)"
	res.RuleDoc["O13.2"] = "exact match only: the string matcher is a single comma-ok map lookup by the unmodified input; nothing reachable from the translators applies substring/prefix/replace primitives"
	res.RuleDoc["O13.3"] = "frame: the only writes into a visited message are the reviewed ones (NamespaceInfo.Name, visit.Assign of a matched string / map / blob, SearchAttributes.IndexedFields, blobs[i]), each control-dependent on the matcher's verdict"
	res.RuleDoc["O13.4"] = "mappings that are not one-to-one are rejected: every insertion into the forward/backward map is preceded by a lookup of the same key whose found-side reports an error, and the error is returned up to NewClusterConnection"
	res.RuleDoc["O13.5"] = "bypass means untouched: under the translation-disabled header the handler receives the original request and its result is returned as is"

	checkTranslationOrientation(c, res, "O13.1", true, true)
	checkExactMatch(c, res, "O13.2")
	checkMessageWrites(c, res, "O13.3")
	checkInjectivity(c, res, "O13.4")
	checkBypassUntouched(c, res, "O13.5")

	res.Explanation = "SSA of proxy.NewClusterConnection and makeServerOptions (origin and Inverse()-parity of the maps each server's translators receive), of the translator constructors and methods (which matcher serves which direction), of collect.NewStaticBiMap (backward = inverse image of forward; duplicate key or value returns an error before insertion) and the config helpers that build it (pairs yielded as (local, remote); errors returned), of interceptor.visitNamespace / visitSearchAttributes / visitDataBlobs / translate* (inventory of every store and visit.Assign that can modify a message, each guarded by the matcher's verdict), and of TranslationInterceptor.Intercept (bypass path). Decides direction, invertibility-by-construction, exact-match-only and the write frame; does not decide value-level identity of untouched fields."
	res.Assumptions = []string{"visit.Assign stores exactly the given value at the visited position", "map lookup is exact string equality"}
	res.RuleDoc["O13.6"] = "every name is mapped exactly once: after visitNamespace's callback walked a History's events itself it returns Skip, so the library does not walk them again (same analysis as O12.4) - mapping twice breaks invertibility for chained or swapped one-to-one mappings"
	if f := resolve(c, res, "O13.6", anchor{"interceptor", "", "visitNamespace"}); f != nil {
		if cb := visitCallback(f); cb != nil {
			checkNoDoubleWalk(c, res, "O13.6", f, cb)
		} else {
			res.Undec("O13.6", "visitNamespace: visit callback", fnPos(c.Prog, f), "not found")
		}
	}
	res.RuleDoc["O13.9"] = "no event type is skipped that can carry a mapped name: the skip list and the message shortcut of namespace translation do not hide a namespace-name site (same analysis as O12.3) - a name the request side maps and the response side skips does not survive the round trip"
	if r12, err := nsWalkRules(c, "C12"); err == nil && r12 != nil {
		if n := importObligations(res, r12, "O13.9", func(o report.Obligation) bool {
			return o.Rule == "O12.3" && o.Status != report.Holds || o.Rule == "O12.3" && strings.HasPrefix(o.Construct, "skip[")
		}); n < 10 {
			res.Undec("O13.9", "skip-list obligations of O12.3", "", fmt.Sprintf("%d imported, at least 10 expected", n))
		}
	}
	res.RuleDoc["O13.15"] = "the search-attribute translator runs for the calls it is meant for: its method filter excludes exactly the WorkflowService prefix (the filter obligations of O14.4, imported) - a filter that matches nothing (a service name without the leading slash of gRPC's full method) leaves every unary AdminService message unmapped, in both directions, while the replication stream, which does not consult the filter, keeps translating"
	if r14, err := Registry["C14"](c); err == nil && r14 != nil {
		if n := importObligations(res, r14, "O13.15", func(o report.Obligation) bool { return o.Rule == "O14.4" }); n < 1 {
			res.Undec("O13.15", "method-filter obligations of O14.4", "", "none imported")
		}
	} else {
		res.Undec("O13.15", "method-filter obligations of O14.4", "", "C14 rule set failed")
	}
	res.RuleDoc["O13.14"] = "a decoded history blob is walked, whoever asks: in translateOneDataBlob no return that can report success is reachable after the decode without the call of the visitor parameter - the function serves the namespace translator, the search-attribute translator and the access check, so a short cut that is right for one of them (a batch of skip-listed event types has no namespace) leaves the keys of the others unmapped, in both directions"
	checkDecodedBlobAlwaysWalked(c, res, "O13.14")
	res.RuleDoc["O13.16"] = "only a real intra-proxy stream goes untranslated (same analysis as O12.15): IsIntraProxy requires the exact marker value"
	checkIntraProxyMarkerExact(c, res, "O13.16")
	res.RuleDoc["O13.13"] = "a message is mapped once on its way through a deployment (same analysis as O12.13): intra-proxy streams reach their handler without the translating wrapper"
	checkIntraProxyStreamsNotTranslated(c, res, "O13.13")
	res.RuleDoc["O13.11"] = "what a translator mapped stays mapped: between its arrival and its hand-over a message is written by the translators and by nobody else - in Intercept and the stream wrapper's RecvMsg / SendMsg no call that receives the message can overwrite it (proto.Reset / Merge / Unmarshal, the message's own Reset, or a module function doing that); a roll-back to a snapshot taken before the translators ran hands the request on with the names of the side it came from"
	checkOnlyTranslatorsWriteMessage(c, res, "O13.11")
	res.RuleDoc["O13.12"] = "every message is handed, whole, to the visitor by both translator types (same analysis as O12.12 / O14.12): a short cut in front of the walk leaves the sites it did not look at unmapped, in one direction only - the round trip is no longer the identity"
	checkTranslatorAlwaysVisits(c, res, "O13.12", []string{"translatorImpl", "saTranslator"})
	res.RuleDoc["O13.10"] = "every blob is looked into before it is passed on: translateOneDataBlob returns a blob undecoded (with a nil error) only if it is nil or empty (same analysis as O12.4 / O14.2) - a blob that is waved through by its encoding label keeps the names the rest of the message had mapped, and the round trip does not restore them"
	checkBlobExamined(c, res, "O13.10")
	res.RuleDoc["O13.7"] = "translation, access control and repair keep no memory between messages: no shipped function of the interceptor, proto/compat, auth and collect packages stores into package-level state, receiver fields or sync.Maps after construction - a cache keyed by message type or content makes the treatment of one message depend on the ones before it"
	checkStateless(c, res, "O13.7", []string{"interceptor", "proto/compat", "auth", "collect"}, map[string]string{})
	res.RuleDoc["O13.8"] = "no swallowed error in the files the mechanism lives in: no function returns a nil error on a path on which an error obtained from a call is known to be non-nil (io.EOF from a stream Recv, the normal end of a receive loop, is the one accepted idiom)"
	checkNoSwallowedErrors(c, res, "O13.8", []string{"interceptor/translator.go", "interceptor/reflection.go", "interceptor/translation_interceptor.go", "collect/bimap.go", "config/cluster_conn_config.go", "config/config.go"})
	return res, nil
}

func checkExactMatch(c *Ctx, res *report.Result, rule string) {
	f := resolve(c, res, rule, anchor{"interceptor", "", "createStringMatcher"})
	if f == nil {
		return
	}
	if len(f.AnonFuncs) != 1 {
		res.Undec(rule, "createStringMatcher: matcher closure", fnPos(c.Prog, f), "expected one closure")
		return
	}
	cl := f.AnonFuncs[0]
	ok := true
	why := ""
	nLookup := 0
	for _, b := range cl.Blocks {
		for _, ins := range b.Instrs {
			switch x := ins.(type) {
			case *ssa.Lookup:
				nLookup++
				if !x.CommaOk || x.Index != ssa.Value(cl.Params[0]) {
					ok, why = false, "the lookup key is not the unmodified input name"
				}
			case ssa.CallInstruction:
				ok, why = false, "the matcher calls "+flow.CalleeName(x.Common())
			case *ssa.Return:
				// (Extract#0, Extract#1) of the lookup
				for i, r := range x.Results {
					if ex, isEx := r.(*ssa.Extract); !isEx || ex.Index != i {
						ok, why = false, "the matcher does not return the lookup's (value, found) pair unchanged"
					} else if _, isL := ex.Tuple.(*ssa.Lookup); !isL {
						ok, why = false, "the matcher's results do not come from the map lookup"
					}
				}
			}
		}
	}
	if nLookup != 1 && ok {
		ok, why = false, fmt.Sprintf("%d map lookups", nLookup)
	}
	res.Check(ok, rule, "createStringMatcher: one exact comma-ok lookup of the input", fnPos(c.Prog, cl), "mapping[name]", why)
	// no fuzzy string primitive reachable from the translators inside package interceptor
	var roots []*ssa.Function
	for _, a := range []anchor{{"interceptor", "", "visitNamespace"}, {"interceptor", "", "visitSearchAttributes"}, {"interceptor", "*translatorImpl", "TranslateRequest"}, {"interceptor", "*translatorImpl", "TranslateResponse"},
		{"interceptor", "*saTranslator", "TranslateRequest"}, {"interceptor", "*saTranslator", "TranslateResponse"}} {
		if g := resolve(c, res, rule, a); g != nil {
			roots = append(roots, g)
		}
	}
	reach := flow.Reachable(roots, nil)
	var hits []string
	n := 0
	fuzzy := map[string]bool{"Contains": true, "HasPrefix": true, "HasSuffix": true, "Replace": true, "ReplaceAll": true, "Index": true, "TrimPrefix": true, "TrimSuffix": true, "EqualFold": true, "ToLower": true, "ToUpper": true, "Split": true, "Fields": true, "TrimSpace": true, "Trim": true}
	for g := range reach {
		if g.Blocks == nil || g.Pkg == nil || g.Pkg.Pkg.Path() != icPkg {
			continue
		}
		n++
		for _, call := range flow.Calls(g) {
			if cal := flow.StaticCallee(call.Common()); cal != nil && cal.Pkg != nil && (cal.Pkg.Pkg.Path() == "strings" || cal.Pkg.Pkg.Path() == "regexp") && (fuzzy[cal.Name()] || cal.Pkg.Pkg.Path() == "regexp") {
				hits = append(hits, shortFn(g)+" calls "+cal.Pkg.Pkg.Path()+"."+cal.Name()+" at "+instrPos(c.Prog, call))
			}
		}
	}
	res.Check(len(hits) == 0, rule, "no substring/prefix/case-folding primitive in the translation walk", "", fmt.Sprintf("%d functions of package interceptor reachable from the translators examined", n), "name matching is no longer exact: "+strings.Join(hits, "; "))
}

// checkMessageWrites inventories stores into visited objects.
func checkMessageWrites(c *Ctx, res *report.Result, rule string) {
	var fns []*ssa.Function
	for _, a := range []anchor{{"interceptor", "", "visitNamespace"}, {"interceptor", "", "visitSearchAttributes"}, {"interceptor", "", "visitDataBlobs"}, {"interceptor", "", "translateDataBlobs"}, {"interceptor", "", "translateOneDataBlob"}, {"interceptor", "", "translateIndexedFields"}, {"interceptor", "", "getParentFieldType"}} {
		if f := resolve(c, res, rule, a); f != nil {
			fns = append(fns, f)
			fns = append(fns, flow.AnonFuncsDeep(f)...)
		}
	}
	var verdictGuard func(gs []flow.Guard) bool
	matcherVerdictAt := func(b *ssa.BasicBlock) bool {
		if verdictGuard(flow.NormGuards(flow.Guards(b))) {
			return true
		}
		if len(b.Preds) < 2 {
			return false
		}
		for _, p := range b.Preds {
			if !verdictGuard(flow.EdgeGuards(p, b)) {
				return false
			}
		}
		return true
	}
	verdictGuard = func(gs []flow.Guard) bool {
		for _, g := range gs {
			if !g.Side {
				continue
			}
			v := flow.ResolveLoad(g.Cond)
			if ex, ok := v.(*ssa.Extract); ok {
				if call, ok := ex.Tuple.(*ssa.Call); ok {
					// dynamic call of the matcher (stringMatcher value) or of a translate helper returning (.., matched, changed, ..)
					if flow.StaticCallee(&call.Call) == nil && !call.Call.IsInvoke() {
						return true
					}
					if cal := flow.StaticCallee(&call.Call); cal != nil && strings.HasPrefix(cal.Name(), "translate") {
						return true
					}
				}
			}
			// `matched || changed` style phi over verdicts
			if phi, ok := v.(*ssa.Phi); ok {
				for _, e := range phi.Edges {
					if ex, ok := e.(*ssa.Extract); ok {
						if call, ok := ex.Tuple.(*ssa.Call); ok {
							if cal := flow.StaticCallee(&call.Call); cal != nil && strings.HasPrefix(cal.Name(), "translate") {
								return true
							}
						}
					}
				}
			}
		}
		return false
	}
	n := 0
	for _, f := range fns {
		for _, b := range f.Blocks {
			for _, ins := range b.Instrs {
				switch x := ins.(type) {
				case *ssa.Store:
					// only stores through pointers into heap objects reachable from the message matter:
					// FieldAddr on a non-local base, IndexAddr on a slice parameter
					switch a := x.Addr.(type) {
					case *ssa.FieldAddr:
						if _, isAlloc := a.X.(*ssa.Alloc); isAlloc {
							continue
						}
						n++
						fld := flow.FieldName(a.X.Type(), a.Field)
						owner := types.TypeString(a.X.Type(), func(p *types.Package) string { return p.Name() })
						construct := fmt.Sprintf("%s: store to %s.%s", shortFn(f), owner, fld)
						switch {
						case strings.HasSuffix(owner, "namespace.NamespaceInfo") && fld == "Name":
							res.Check(matcherVerdictAt(b), rule, construct, instrPos(c.Prog, x), "guarded by the matcher's verdict", "NamespaceInfo.Name is written without the matcher having matched")
						case strings.HasSuffix(owner, "common.SearchAttributes") && fld == "IndexedFields":
							// value is translateIndexedFields' first result (rebuild keeps values, O14.3)
							v := flow.ResolveLoad(x.Val)
							ok := false
							if ex, isEx := v.(*ssa.Extract); isEx && ex.Index == 0 {
								if call, isC := ex.Tuple.(*ssa.Call); isC && flow.IsCallTo(&call.Call, icPkg, "", "translateIndexedFields") {
									ok = true
								}
							}
							res.Check(ok, rule, construct, instrPos(c.Prog, x), "assigned from translateIndexedFields (key rebuild, values kept)", "IndexedFields is assigned something other than the rebuilt map")
						default:
							res.Viol(rule, construct, instrPos(c.Prog, x), "unreviewed write into a visited object: translation must change only mapped namespace names and search-attribute keys")
						}
					case *ssa.IndexAddr:
						if _, isAlloc := a.X.(*ssa.Alloc); isAlloc {
							continue
						}
						if sl, isSl := a.X.(*ssa.Slice); isSl {
							if _, isAlloc := sl.X.(*ssa.Alloc); isAlloc {
								continue
							}
						}
						n++
						construct := fmt.Sprintf("%s: store to element of %s", shortFn(f), flow.Describe(a.X))
						// blobs[i] = newBlob where newBlob is translateOneDataBlob's result
						v := flow.ResolveLoad(x.Val)
						ok := false
						if ex, isEx := v.(*ssa.Extract); isEx && ex.Index == 0 {
							if call, isC := ex.Tuple.(*ssa.Call); isC && flow.IsCallTo(&call.Call, icPkg, "", "translateOneDataBlob") {
								ok = true
							}
						}
						res.Check(ok, rule, construct, instrPos(c.Prog, x), "element replaced by translateOneDataBlob's result (the same blob unless matched or repaired)", "a slice element of the message is overwritten with an unreviewed value")
					}
				case *ssa.MapUpdate:
					if _, isMk := x.Map.(*ssa.MakeMap); isMk {
						continue
					}
					n++
					res.Viol(rule, fmt.Sprintf("%s: map update on %s", shortFn(f), flow.Describe(x.Map)), instrPos(c.Prog, x), "a map that belongs to the visited message is updated in place")
				case ssa.CallInstruction:
					cc := x.Common()
					if flow.IsCallTo(cc, visitPath, "", "Assign") {
						n++
						construct := fmt.Sprintf("%s: visit.Assign #%d", shortFn(f), n)
						res.Check(matcherVerdictAt(b), rule, construct, instrPos(c.Prog, x), "guarded by the matcher's verdict (matched / changed)", "visit.Assign overwrites a message field without the matcher having matched")
					}
					if b, isB := cc.Value.(*ssa.Builtin); isB && b.Name() == "delete" {
						n++
						res.Viol(rule, fmt.Sprintf("%s: delete on a map", shortFn(f)), instrPos(c.Prog, x), "an entry of a visited map is deleted")
					}
				}
			}
		}
	}
	if n < 5 {
		res.Undec(rule, "write inventory", "", fmt.Sprintf("only %d write sites found; the inventory on the pinned tree has 7", n))
	}
	// re-serialisation only when matched or changed
	if f := resolve(c, res, rule, anchor{"interceptor", "", "translateOneDataBlob"}); f != nil {
		for _, call := range flow.Calls(f) {
			cc := call.Common()
			if cc.IsInvoke() && cc.Method.Name() == "SerializeEvents" {
				// every edge into the block is the true side of a condition whose sources are the visitor's
				// verdict or the repair's changed flag
				blk := call.Block()
				ok := len(blk.Preds) > 0
				okCond := true
				for _, p := range blk.Preds {
					iff := lastIfOf(p)
					if iff == nil || p.Succs[0] != blk || p.Succs[1] == blk {
						ok = false
						continue
					}
					good := false
					for _, src := range condSources(iff.Cond, 0) {
						if ex, isEx := src.(*ssa.Extract); isEx {
							if cv, isC := ex.Tuple.(*ssa.Call); isC {
								cal := flow.StaticCallee(&cv.Call)
								if cal == nil && !cv.Call.IsInvoke() {
									good = true // the visitor (function value)
								}
								if cal != nil && cal.Name() == "tryRepairInvalidUTF8InBlob" {
									good = true
								}
							}
						}
					}
					if !good {
						okCond = false
					}
				}
				res.Check(ok && okCond, rule, "translateOneDataBlob: blob re-encoded only when matched or repaired", instrPos(c.Prog, call), "SerializeEvents is conditional on matched || changed", "the blob is re-serialised unconditionally: untouched blobs would be rewritten")
			}
		}
	}
}

func checkInjectivity(c *Ctx, res *report.Result, rule string) {
	pk, err := c.Prog.SSAPkg("collect")
	if err != nil {
		res.Undec(rule, "collect package", "", err.Error())
		return
	}
	nb := pk.Func("NewStaticBiMap")
	if nb == nil {
		res.Undec(rule, "collect.NewStaticBiMap", "", "anchor does not resolve")
		return
	}
	initBimapRoles(nb)
	nUpd := 0
	for _, g := range append([]*ssa.Function{nb}, flow.AnonFuncsDeep(nb)...) {
		for _, b := range g.Blocks {
			for _, ins := range b.Instrs {
				mu, ok := ins.(*ssa.MapUpdate)
				if !ok {
					continue
				}
				owner := mapOwnerName(mu.Map)
				if owner == "" {
					continue
				}
				nUpd++
				construct := "NewStaticBiMap: insertion into " + owner + " is preceded by a duplicate test"
				// find dominating comma-ok lookup on same owner with same key, with mu on the not-found side
				found := false
				for _, gd := range flow.NormGuards(flow.Guards(b)) {
					ex, isEx := gd.Cond.(*ssa.Extract)
					if !isEx || ex.Index != 1 || gd.Side {
						continue
					}
					lk, isL := ex.Tuple.(*ssa.Lookup)
					if !isL || !lk.CommaOk || mapOwnerName(lk.X) != owner || lk.Index != mu.Key {
						continue
					}
					// found side must produce a non-nil error and stop
					foundSide := gd.If.Block().Succs[0]
					hasErr := false
					for _, fi := range foundSide.Instrs {
						if st, isSt := fi.(*ssa.Store); isSt && types.Identical(st.Val.Type(), types.Universe.Lookup("error").Type()) && !flow.IsNilConst(st.Val) {
							hasErr = true
						}
						if ret, isR := fi.(*ssa.Return); isR {
							for _, r := range ret.Results {
								if types.Identical(r.Type(), types.Universe.Lookup("error").Type()) && !flow.IsNilConst(r) {
									hasErr = true
								}
							}
						}
					}
					if hasErr && !flow.ReachBlock(foundSide, b, nil) {
						found = true
					}
				}
				res.Check(found, rule, construct, instrPos(c.Prog, mu), "comma-ok lookup of the same key; the found side reports an error and never reaches the insertion", "a pair is inserted into the "+owner+" map without first rejecting a duplicate "+map[string]string{"forward": "key", "backward": "value"}[owner]+": a non-injective mapping would be accepted silently")
			}
		}
	}
	if nUpd < 2 {
		res.Undec(rule, "NewStaticBiMap: insertions", fnPos(c.Prog, nb), fmt.Sprintf("%d insertions found, expected 2", nUpd))
	}
	// error propagation chain
	for _, spec := range []struct {
		a      anchor
		callee string
	}{
		{anchor{"config", "*StringTranslator", "AsLocalToRemoteBiMap"}, "NewStaticBiMap"},
		{anchor{"config", "*SATranslationConfig", "AsLocalToRemoteSATranslation"}, "NewStaticBiMap"},
		{anchor{"proxy", "", "NewClusterConnection"}, "AsLocalToRemoteBiMap"},
		{anchor{"proxy", "", "NewClusterConnection"}, "AsLocalToRemoteSATranslation"},
	} {
		f := resolve(c, res, rule, spec.a)
		if f == nil {
			continue
		}
		calls := flow.FindCalls(f, func(cc *ssa.CallCommon) bool {
			cal := flow.StaticCallee(cc)
			if cal != nil && cal.Origin() != nil {
				cal = cal.Origin()
			}
			return cal != nil && cal.Name() == spec.callee
		})
		if len(calls) == 0 {
			res.Undec(rule, spec.a.name+": call of "+spec.callee, fnPos(c.Prog, f), "not found")
			continue
		}
		for _, call := range calls {
			cv, ok := call.(*ssa.Call)
			if !ok {
				continue
			}
			good, why := errorReturned(f, cv)
			res.Check(good, rule, spec.a.name+": error of "+spec.callee+" is returned", instrPos(c.Prog, call), "err != nil -> return err", "a rejected mapping would be ignored at start-up: "+why)
		}
	}
	// NewProxy: the error of NewClusterConnection is fatal
	if f := resolve(c, res, rule, anchor{"proxy", "", "NewProxy"}); f != nil {
		ok := false
		for _, call := range flow.FindCalls(f, func(cc *ssa.CallCommon) bool { return flow.IsCallTo(cc, proxyPkg, "", "NewClusterConnection") }) {
			cv := call.(*ssa.Call)
			for _, r := range *cv.Referrers() {
				ex, isEx := r.(*ssa.Extract)
				if !isEx || ex.Index != 1 {
					continue
				}
				for _, b := range f.Blocks {
					for _, g := range flow.NormGuards(flow.Guards(b)) {
						if bo, isB := g.Cond.(*ssa.BinOp); isB && bo.Op == token.NEQ && g.Side && bo.X == ssa.Value(ex) {
							for _, ins := range b.Instrs {
								if ci, isC := ins.(ssa.CallInstruction); isC && ci.Common().IsInvoke() && ci.Common().Method.Name() == "Fatal" {
									ok = true
								}
							}
						}
					}
				}
			}
		}
		res.Check(ok, rule, "NewProxy: a failing cluster connection is fatal", fnPos(c.Prog, f), "logger.Fatal on err != nil", "the start-up error of NewClusterConnection is not escalated")
	}
}

func checkBypassUntouched(c *Ctx, res *report.Result, rule string) {
	f := resolve(c, res, rule, anchor{"interceptor", "*TranslationInterceptor", "Intercept"})
	if f == nil {
		return
	}
	h := handlerParam(f, grpcPkg, "UnaryHandler")
	if h == nil {
		res.Undec(rule, "Intercept: handler parameter", fnPos(c.Prog, f), "not found")
		return
	}
	n := 0
	for _, hc := range callsOfValue(f, h) {
		call := hc.(*ssa.Call)
		// bypass call: reachable from the IsRequestTranslationDisabled true edge without a Translate call
		disabledSide := false
		for _, pb := range call.Block().Preds {
			for _, cls := range edgeClasses(pb, call.Block()) {
				if cls.kind == "call" && strings.HasSuffix(cls.arg, "common.IsRequestTranslationDisabled") && cls.truth {
					disabledSide = true
				}
			}
		}
		if !disabledSide {
			continue
		}
		n++
		okArg := len(call.Call.Args) == 2 && flow.Strip(call.Call.Args[1]) == ssa.Value(f.Params[2])
		okRet := false
		for _, ins := range call.Block().Instrs {
			if ret, isR := ins.(*ssa.Return); isR && len(ret.Results) == 2 {
				e0, ok0 := flow.Ret(ret)[0].(*ssa.Extract)
				e1, ok1 := flow.Ret(ret)[1].(*ssa.Extract)
				if ok0 && ok1 && e0.Tuple == ssa.Value(call) && e1.Tuple == ssa.Value(call) && e0.Index == 0 && e1.Index == 1 {
					okRet = true
				}
			}
		}
		res.Check(okArg && okRet, rule, "Intercept: bypass forwards the original request and returns the handler's result unchanged", instrPos(c.Prog, call), "return handler(ctx, req)", "under the bypass header the request or the response is not passed through as is")
	}
	if n == 0 {
		res.Viol(rule, "Intercept: bypass path exists", fnPos(c.Prog, f), "no handler call on the translation-disabled side: the bypass header no longer bypasses translation")
	}
}

// condSources lists the leaf values a boolean condition is computed from (through phis, !, ||/&&).
func condSources(v ssa.Value, depth int) []ssa.Value {
	if depth > 6 {
		return []ssa.Value{v}
	}
	v = flow.ResolveLoad(v)
	switch x := v.(type) {
	case *ssa.Phi:
		var out []ssa.Value
		for _, e := range x.Edges {
			if e == ssa.Value(x) {
				continue
			}
			out = append(out, condSources(e, depth+1)...)
		}
		return out
	case *ssa.UnOp:
		if x.Op == token.NOT {
			return condSources(x.X, depth+1)
		}
	case *ssa.BinOp:
		if x.Op == token.LOR || x.Op == token.LAND || x.Op == token.OR || x.Op == token.AND {
			return append(condSources(x.X, depth+1), condSources(x.Y, depth+1)...)
		}
	}
	return []ssa.Value{v}
}
