package rules

import (
	"fmt"
	"go/token"

	"golang.org/x/tools/go/ssa"

	"s2scheck/internal/flow"
	"s2scheck/internal/report"
)

// checkRetryLoopBookkeeping: the "retry until every target accepted" loops (for numRemaining > 0 { for k := range
// targets { if done[k] { continue }; if deliver(k) { done[k] = true; numRemaining-- } } }) count each target once:
// wherever the remaining count is decremented the target is marked done in the same block, under its own range
// key, and a marked target is skipped at the top of the body. Without the mark a target delivered in one round is
// delivered and counted again in the next, the count reaches zero while another target was never served, and the
// loop's exit is taken as "all delivered" (entries are discarded / the next batch is read).
func checkRetryLoopBookkeeping(c *Ctx, res *report.Result, rule string, f *ssa.Function, minLoops int) {
	n := 0
	for _, hb := range f.Blocks {
		iff := lastIfOf(hb)
		if iff == nil || !isNumRemainingLoop(iff) {
			continue
		}
		n++
		body := hb.Succs[0]
		inLoop := func(b *ssa.BasicBlock) bool {
			return body.Dominates(b) && flow.ReachBlock(b, hb, nil)
		}
		// the inner range over the targets
		var next *ssa.Next
		for _, b := range f.Blocks {
			if !inLoop(b) {
				continue
			}
			for _, ins := range b.Instrs {
				if nx, ok := ins.(*ssa.Next); ok && !nx.IsString {
					next = nx
				}
			}
		}
		construct := fmt.Sprintf("%s: retry loop #%d counts every target once", shortFn(f), n)
		if next == nil {
			res.Undec(rule, construct, instrPos(c.Prog, iff), "no range over the targets inside the retry loop")
			continue
		}
		var key ssa.Value
		for _, r := range *next.Referrers() {
			if ex, ok := r.(*ssa.Extract); ok && ex.Index == 1 {
				key = ex
			}
		}
		// decrements feeding the loop's counter
		var decs []*ssa.BinOp
		for _, b := range f.Blocks {
			if !inLoop(b) {
				continue
			}
			for _, ins := range b.Instrs {
				if bo, ok := ins.(*ssa.BinOp); ok && bo.Op == token.SUB {
					if k, isK := flow.ConstInt(bo.Y); isK && k == 1 {
						if _, isPhi := bo.X.(*ssa.Phi); isPhi && bo.Type() == iff.Cond.(*ssa.BinOp).X.Type() {
							decs = append(decs, bo)
						}
					}
				}
			}
		}
		if len(decs) == 0 || key == nil {
			res.Undec(rule, construct, instrPos(c.Prog, iff), "no decrement of the remaining count / no range key found")
			continue
		}
		bad := ""
		var doneMap ssa.Value
		for _, d := range decs {
			marked := false
			for _, ins := range d.Block().Instrs {
				if mu, ok := ins.(*ssa.MapUpdate); ok && mu.Key == key {
					if v, isC := flow.ConstBool(mu.Value); isC && v {
						marked = true
						doneMap = mu.Map
					}
				}
			}
			if !marked {
				bad = "the remaining count is decremented at " + instrPos(c.Prog, d) + " without marking that target done (done[target] = true under the range key, in the same block)"
			}
		}
		if bad == "" {
			// marked targets are skipped: a lookup done[key] in the loop whose true side leaves the body for the
			// next element without reaching a decrement
			skipped := false
			for _, b := range f.Blocks {
				if !inLoop(b) {
					continue
				}
				ifb := lastIfOf(b)
				if ifb == nil {
					continue
				}
				lk, ok := ifb.Cond.(*ssa.Lookup)
				if !ok || lk.X != doneMap || lk.Index != key {
					continue
				}
				reachDec := false
				for _, d := range decs {
					if b.Succs[0] == next.Block() {
						continue // straight back to the range header: the element is skipped
					}
					if b.Succs[0] == d.Block() || flow.ReachBlock(b.Succs[0], d.Block(), func(a, b2 *ssa.BasicBlock) bool { return b2 != next.Block() }) {
						reachDec = true
					}
				}
				if !reachDec {
					skipped = true
				}
			}
			if !skipped {
				bad = "a target already marked done is not skipped at the top of the loop body (no `if done[target] { continue }` on the marked map)"
			}
		}
		res.Check(bad == "", rule, construct, instrPos(c.Prog, iff), "decrement and done-mark go together, marked targets are skipped", bad+": a target served in one round is served and counted again in the next, so the count reaches zero while another target was never served - and the loop's exit is taken as 'every target accepted'")
	}
	if n < minLoops {
		res.Undec(rule, shortFn(f)+": retry loops", fnPos(c.Prog, f), fmt.Sprintf("%d `for numRemaining > 0` loops found, %d confirmed by hand", n, minLoops))
	}
}
