package rules

import (
	"fmt"
	"go/constant"
	"go/types"
	"sort"
	"strings"

	"s2scheck/internal/load"
	"s2scheck/internal/typegraph"
)

// apiModel is the type-level view of the proxied API: the message types of both services and the
// oracle that says which struct fields carry a namespace name, serialized history events or search
// attributes. It is computed from go/types data of the pinned API modules on every run.
type apiModel struct {
	pkgs  map[string]*types.Package
	w     *typegraph.Walker
	roots []apiRoot
	// event types
	events []eventType
}

type apiRoot struct {
	Service string // WorkflowService / AdminService
	Method  string
	Role    string // request / response / stream-request / stream-response
	Type    *types.Named
}

func (r apiRoot) Name() string {
	return typegraph.PkgShort(r.Type.Obj().Pkg()) + "." + r.Type.Obj().Name()
}
func (r apiRoot) IsRequest() bool {
	return r.Role == "request" || r.Role == "stream-request"
}

type eventType struct {
	Name    string
	Value   int64
	Wrapper *types.Named // history.HistoryEvent_XxxEventAttributes, nil if none
	Attrs   *types.Named // the attributes struct
}

const (
	wfSvcPkg    = apiPath + "/workflowservice/v1"
	adminSvcPkg = srvPath + "/api/adminservice/v1"
	histPkg     = apiPath + "/history/v1"
	enumsPkg    = apiPath + "/enums/v1"
	nsPkg       = apiPath + "/namespace/v1"
	commonPkg   = apiPath + "/common/v1"
)

func loadAPIModel(c *Ctx, extra ...string) (*apiModel, error) {
	pats := append([]string{wfSvcPkg, adminSvcPkg, histPkg, enumsPkg, nsPkg, commonPkg}, extra...)
	pkgs, err := load.LoadTypesOnly(c.RepoDir, c.Overlay, pats...)
	if err != nil {
		return nil, err
	}
	m := &apiModel{pkgs: pkgs, w: typegraph.New()}
	for _, s := range []struct{ pkg, iface, svc string }{
		{wfSvcPkg, "WorkflowServiceServer", "WorkflowService"},
		{adminSvcPkg, "AdminServiceServer", "AdminService"},
	} {
		p := pkgs[s.pkg]
		if p == nil {
			return nil, fmt.Errorf("anchor: package %s not loaded", s.pkg)
		}
		tn, ok := p.Scope().Lookup(s.iface).(*types.TypeName)
		if !ok {
			return nil, fmt.Errorf("anchor: %s.%s not found", s.pkg, s.iface)
		}
		it, ok := tn.Type().Underlying().(*types.Interface)
		if !ok {
			return nil, fmt.Errorf("anchor: %s is not an interface", s.iface)
		}
		for i := 0; i < it.NumMethods(); i++ {
			meth := it.Method(i)
			if !meth.Exported() {
				continue
			}
			sig := meth.Type().(*types.Signature)
			added := 0
			// unary: (ctx, *Req) (*Resp, error)
			for j := 0; j < sig.Params().Len(); j++ {
				pt := sig.Params().At(j).Type()
				if n := typegraph.NamedStruct(pt); n != nil && isProtoMessage(n) {
					m.roots = append(m.roots, apiRoot{s.svc, meth.Name(), "request", n})
					added++
				} else if iface, ok := types.Unalias(pt).Underlying().(*types.Interface); ok && isStreamIface(iface) {
					for k := 0; k < iface.NumMethods(); k++ {
						sm := iface.Method(k)
						ssig := sm.Type().(*types.Signature)
						if sm.Name() == "Send" && ssig.Params().Len() == 1 {
							if n := typegraph.NamedStruct(ssig.Params().At(0).Type()); n != nil {
								m.roots = append(m.roots, apiRoot{s.svc, meth.Name(), "stream-response", n})
								added++
							}
						}
						if sm.Name() == "Recv" && ssig.Results().Len() == 2 {
							if n := typegraph.NamedStruct(ssig.Results().At(0).Type()); n != nil {
								m.roots = append(m.roots, apiRoot{s.svc, meth.Name(), "stream-request", n})
								added++
							}
						}
					}
				}
			}
			for j := 0; j < sig.Results().Len(); j++ {
				if n := typegraph.NamedStruct(sig.Results().At(j).Type()); n != nil && isProtoMessage(n) {
					m.roots = append(m.roots, apiRoot{s.svc, meth.Name(), "response", n})
					added++
				}
			}
			if added < 2 {
				return nil, fmt.Errorf("service method %s.%s: could not identify request and response message types", s.svc, meth.Name())
			}
		}
	}
	sort.Slice(m.roots, func(i, j int) bool {
		a, b := m.roots[i], m.roots[j]
		if a.Service != b.Service {
			return a.Service < b.Service
		}
		if a.Method != b.Method {
			return a.Method < b.Method
		}
		return a.Role < b.Role
	})
	if err := m.loadEvents(); err != nil {
		return nil, err
	}
	return m, nil
}

func isStreamIface(it *types.Interface) bool {
	hasSend, hasRecv := false, false
	for i := 0; i < it.NumMethods(); i++ {
		switch it.Method(i).Name() {
		case "Send":
			hasSend = true
		case "Recv":
			hasRecv = true
		}
	}
	return hasSend || hasRecv
}

func isProtoMessage(n *types.Named) bool {
	// generated messages have a ProtoReflect method on the pointer type
	ms := types.NewMethodSet(types.NewPointer(n))
	for i := 0; i < ms.Len(); i++ {
		if ms.At(i).Obj().Name() == "ProtoReflect" {
			return true
		}
	}
	return false
}

func camelEvent(s string) string {
	parts := strings.Split(strings.ToLower(s), "_")
	for i, p := range parts {
		if p != "" {
			parts[i] = strings.ToUpper(p[:1]) + p[1:]
		}
	}
	return strings.Join(parts, "")
}

func (m *apiModel) loadEvents() error {
	enums, hist := m.pkgs[enumsPkg], m.pkgs[histPkg]
	if enums == nil || hist == nil {
		return fmt.Errorf("anchor: enums/history packages not loaded")
	}
	etObj := enums.Scope().Lookup("EventType")
	if etObj == nil {
		return fmt.Errorf("anchor: enums.EventType not found")
	}
	et := etObj.Type()
	for _, n := range enums.Scope().Names() {
		cst, ok := enums.Scope().Lookup(n).(*types.Const)
		if !ok || !types.Identical(cst.Type(), et) {
			continue
		}
		v, _ := constant.Int64Val(cst.Val())
		e := eventType{Name: n, Value: v}
		base := strings.TrimPrefix(n, "EVENT_TYPE_")
		if tn, ok := hist.Scope().Lookup("HistoryEvent_" + camelEvent(base) + "EventAttributes").(*types.TypeName); ok {
			if nt, ok := tn.Type().(*types.Named); ok {
				e.Wrapper = nt
				if st, ok := nt.Underlying().(*types.Struct); ok && st.NumFields() == 1 {
					e.Attrs = typegraph.NamedStruct(st.Field(0).Type())
				}
			}
		}
		m.events = append(m.events, e)
	}
	sort.Slice(m.events, func(i, j int) bool { return m.events[i].Value < m.events[j].Value })
	return nil
}

// ---------------------------------------------------------------------------------------------
// Oracles (independent of the repo's own tables)

// nsNameExclusions: fields whose name mentions "namespace" but which do not hold a namespace
// *name*. Each entry carries the reason; an API upgrade that adds a new "namespace"-named field of
// string kind which is neither covered by the repo nor listed here fails the check.
var nsNameExclusions = map[string]string{}

// isNamespaceNameField applies the naming/typing convention of the Temporal API: a field holds
// namespace name(s) iff its Go name contains "namespace" (case-insensitive), does not end in
// Id/Ids/ID, and its type is string, []string, or a map with string keys or values.
func isNamespaceNameField(owner *types.Named, f *types.Var) (is bool, kind string) {
	ln := strings.ToLower(f.Name())
	if !strings.Contains(ln, "namespace") {
		return false, ""
	}
	if strings.HasSuffix(ln, "id") || strings.HasSuffix(ln, "ids") {
		return false, ""
	}
	t := types.Unalias(f.Type())
	switch u := t.Underlying().(type) {
	case *types.Basic:
		if u.Kind() == types.String {
			return true, "string"
		}
	case *types.Slice:
		if typegraph.IsString(u.Elem()) {
			return true, "[]string"
		}
	case *types.Map:
		if typegraph.IsString(u.Key()) && typegraph.IsString(u.Elem()) {
			return true, "map[string]string"
		}
	}
	return false, ""
}

func isNamespaceInfo(t types.Type) bool {
	return typegraph.TypeIs(t, "api/namespace/v1", "NamespaceInfo")
}
func isHistory(t types.Type) bool      { return typegraph.TypeIs(t, "api/history/v1", "History") }
func isHistoryEvent(t types.Type) bool { return typegraph.TypeIs(t, "api/history/v1", "HistoryEvent") }
func isDataBlob(t types.Type) bool     { return typegraph.TypeIs(t, "api/common/v1", "DataBlob") }
func isSearchAttrs(t types.Type) bool {
	return typegraph.TypeIs(t, "api/common/v1", "SearchAttributes")
}
func isPayload(t types.Type) bool { return typegraph.TypeIs(t, "api/common/v1", "Payload") }

// dataBlobForm classifies a field type as *DataBlob, []*DataBlob or other DataBlob-containing form.
func dataBlobForm(t types.Type) string {
	t = types.Unalias(t)
	if p, ok := t.(*types.Pointer); ok && isDataBlob(p) {
		return "*DataBlob"
	}
	if s, ok := t.Underlying().(*types.Slice); ok {
		if p, ok := types.Unalias(s.Elem()).(*types.Pointer); ok && isDataBlob(p) {
			return "[]*DataBlob"
		}
		if isDataBlob(s.Elem()) {
			return "[]DataBlob"
		}
	}
	if mp, ok := t.Underlying().(*types.Map); ok && isDataBlob(mp.Elem()) {
		return "map[..]*DataBlob"
	}
	if isDataBlob(t) {
		return "DataBlob"
	}
	return ""
}

// isSAContainer: the property's two container forms - the typed *common.SearchAttributes message and a
// bare map[string]*common.Payload whose field name mentions search attributes.
func isSAContainer(f *types.Var) bool {
	t := types.Unalias(f.Type())
	if _, ok := t.(*types.Pointer); ok && isSearchAttrs(t) {
		return true
	}
	if mp, ok := t.Underlying().(*types.Map); ok && typegraph.IsString(mp.Key()) && isPayload(mp.Elem()) {
		ln := strings.ToLower(f.Name())
		return strings.Contains(ln, "searchattribute")
	}
	return false
}
