package rules

import (
	"fmt"
	"go/token"
	"sort"
	"strings"

	"golang.org/x/tools/go/ssa"

	"s2scheck/internal/flow"
	"s2scheck/internal/report"
)

// isCountingEffect: the instruction changes a shared count: Inc/Dec/Add/Sub on a prometheus metric or a sync/atomic
// value, or `field = field +/- k`.
func isCountingEffect(ins ssa.Instruction) (bool, string) {
	switch x := ins.(type) {
	case *ssa.Call:
		cc := x.Common()
		n := ""
		recvT := ""
		if cc.IsInvoke() {
			n = cc.Method.Name()
			recvT = cc.Value.Type().String()
		} else if sc := flow.StaticCallee(cc); sc != nil && sc.Signature.Recv() != nil {
			n = sc.Name()
			recvT = sc.Signature.Recv().Type().String()
		}
		switch n {
		case "Inc", "Dec", "Add", "Sub":
			if strings.Contains(recvT, "prometheus") || strings.Contains(recvT, "sync/atomic") {
				return true, recvT + "." + n
			}
		}
	case *ssa.Store:
		if fa, ok := x.Addr.(*ssa.FieldAddr); ok {
			if bo, ok := x.Val.(*ssa.BinOp); ok && (bo.Op == token.ADD || bo.Op == token.SUB) {
				if ld, ok := bo.X.(*ssa.UnOp); ok && ld.Op == token.MUL {
					if fa2, ok := ld.X.(*ssa.FieldAddr); ok && fa2.Field == fa.Field && flow.SameValue(fa2.X, fa.X) {
						return true, "field " + flow.FieldName(fa.X.Type(), fa.Field) + " +/-"
					}
				}
			}
		}
	}
	return false, ""
}

// effectThenPanic: f performs a counting effect and can panic afterwards (before returning): the effect stays
// although the caller sees a failure. Calls through function values and interface calls count as may-panic; module
// callees are followed (bounded) for both effects and panics.
func effectThenPanic(f *ssa.Function, depth int, memo map[*ssa.Function][3]string) (bad string, hasEffect bool, mayPanic bool) {
	if m, ok := memo[f]; ok {
		return m[0], m[1] == "1", m[2] == "1"
	}
	memo[f] = [3]string{"", "0", "1"}
	type mark struct {
		ins  ssa.Instruction
		what string
	}
	var effects, panics []mark
	for _, b := range f.Blocks {
		for _, ins := range b.Instrs {
			if _, isDefer := ins.(*ssa.Defer); isDefer {
				continue
			}
			if ok, what := isCountingEffect(ins); ok {
				effects = append(effects, mark{ins, what})
				continue
			}
			if call, isCall := ins.(*ssa.Call); isCall {
				if g := flow.StaticCallee(call.Common()); g != nil && len(g.Blocks) > 0 && depth > 0 && isShippedFunc(g) {
					gb, ge, gp := effectThenPanic(g, depth-1, memo)
					if gb != "" && bad == "" {
						bad = shortFn(g) + ": " + gb
					}
					if ge {
						effects = append(effects, mark{ins, "call of " + shortFn(g) + " (counts)"})
					}
					if gp {
						panics = append(panics, mark{ins, "call of " + shortFn(g) + " (may panic)"})
					}
					continue
				}
			}
			if mp, why := flow.MayPanic(ins, nil, flow.RangeProvenIndex); mp {
				// logging and metric label lookups are treated as total
				if call, isCall := ins.(ssa.CallInstruction); isCall {
					cc := call.Common()
					if cc.IsInvoke() {
						switch cc.Method.Name() {
						case "Debug", "Info", "Warn", "Error", "WithLabelValues", "With", "Lock", "Unlock", "RLock", "RUnlock":
							continue
						}
					} else if sc := flow.StaticCallee(cc); sc != nil {
						n := sc.String()
						if strings.Contains(n, "/log") || strings.Contains(n, "tag.") || strings.HasPrefix(n, "fmt.") || strings.Contains(n, "prometheus") {
							continue
						}
					}
				}
				panics = append(panics, mark{ins, why})
			}
		}
	}
	for _, e := range effects {
		for _, p := range panics {
			if p.ins == e.ins {
				continue
			}
			r := flow.FindPath(flow.After(e.ins), func(x ssa.Instruction) bool { return x == p.ins }, func(ssa.Instruction) bool { return false }, nil)
			if r.Found && bad == "" {
				bad = fmt.Sprintf("after %s (%s) it can still panic: %s (%s)", e.what, f.Prog.Fset.Position(e.ins.Pos()).String(), p.what, f.Prog.Fset.Position(p.ins.Pos()).String())
			}
		}
	}
	he, mp := "0", "0"
	if len(effects) > 0 {
		he = "1"
	}
	if len(panics) > 0 {
		mp = "1"
	}
	memo[f] = [3]string{bad, he, mp}
	return bad, he == "1", mp == "1"
}

// resolveFuncValue: the functions a function-typed value can be, following parameters to the arguments of the
// repo's static call sites, bound methods to their method, closures to their body.
func resolveFuncValue(c *Ctx, v ssa.Value, depth int, out map[*ssa.Function]bool, unknown *[]string) {
	if depth > 5 {
		*unknown = append(*unknown, "too deep")
		return
	}
	v = flow.Strip(v)
	if _, name, ok := flow.BoundMethod(v); ok {
		mc := v.(*ssa.MakeClosure)
		recvT := mc.Bindings[0].Type()
		ms := c.Prog.SSA.MethodSets.MethodSet(recvT)
		for i := 0; i < ms.Len(); i++ {
			if sel := ms.At(i); sel.Obj().Name() == name {
				if m := c.Prog.SSA.MethodValue(sel); m != nil {
					out[m] = true
					return
				}
			}
		}
		// fall back to the wrapper
		out[mc.Fn.(*ssa.Function)] = true
		return
	}
	switch x := v.(type) {
	case *ssa.Function:
		out[x] = true
	case *ssa.MakeClosure:
		if fn, ok := x.Fn.(*ssa.Function); ok {
			out[fn] = true
		}
	case *ssa.Parameter:
		f := x.Parent()
		idx := -1
		for i, p := range f.Params {
			if p == x {
				idx = i
			}
		}
		n := 0
		for _, g := range c.Prog.RepoFuncs() {
			if !isShippedFunc(g) {
				continue
			}
			for _, call := range flow.Calls(g) {
				if flow.StaticCallee(call.Common()) == f && idx >= 0 && idx < len(call.Common().Args) {
					n++
					resolveFuncValue(c, call.Common().Args[idx], depth+1, out, unknown)
				}
			}
		}
		if n == 0 {
			*unknown = append(*unknown, "parameter "+x.Name()+" of "+shortFn(f)+" has no call site in the shipped code")
		}
	case *ssa.Phi:
		for _, e := range x.Edges {
			resolveFuncValue(c, e, depth+1, out, unknown)
		}
	default:
		*unknown = append(*unknown, flow.Describe(v))
	}
}

// checkReportAllOrNothing (O20.11): the handler registers the deferred -1 only after the +1 report returned, so the
// +1 report must be all-or-nothing: whatever function ends up in adminServiceProxyServer.reportStreamValue either
// counts and then cannot fail, or fails before it counted. A reporter that counts something (a gauge) and then
// calls on into code that can panic (the observer rejects huge shard ids by an index panic, which the handler turns
// into an error) leaves that count incremented for ever. The handler's own gauge Inc must likewise be followed at
// once by its deferred Dec.
func checkReportAllOrNothing(c *Ctx, res *report.Result, rule string) {
	ctor := resolve(c, res, rule, anchor{"proxy", "", "NewAdminServiceProxyServer"})
	if ctor == nil {
		return
	}
	var stored ssa.Value
	for _, b := range ctor.Blocks {
		for _, ins := range b.Instrs {
			if st, ok := ins.(*ssa.Store); ok {
				if fa, ok := st.Addr.(*ssa.FieldAddr); ok && flow.FieldName(fa.X.Type(), fa.Field) == "reportStreamValue" {
					stored = st.Val
				}
			}
		}
	}
	if stored == nil {
		res.Undec(rule, "NewAdminServiceProxyServer: reportStreamValue", fnPos(c.Prog, ctor), "no store into the field found")
		return
	}
	fns := map[*ssa.Function]bool{}
	var unknown []string
	resolveFuncValue(c, stored, 0, fns, &unknown)
	if len(unknown) > 0 || len(fns) == 0 {
		res.Undec(rule, "NewAdminServiceProxyServer: reportStreamValue resolves to known functions", fnPos(c.Prog, ctor), "the reporter could not be resolved: "+strings.Join(unknown, "; "))
		return
	}
	var list []*ssa.Function
	for f := range fns {
		list = append(list, f)
	}
	sort.Slice(list, func(i, j int) bool { return list[i].String() < list[j].String() })
	memo := map[*ssa.Function][3]string{}
	for _, f := range list {
		// the report runs on the handler's goroutine: CapturePanic only covers panics on the handler's own stack
		for _, b := range f.Blocks {
			for _, ins := range b.Instrs {
				if g, isGo := ins.(*ssa.Go); isGo {
					res.Viol(rule, "stream reporter "+shortFn(f)+" reports on the handler's goroutine", instrPos(c.Prog, g), "the reporter starts a goroutine for the report: the observer rejects an out-of-range shard id by panicking, and a panic on any goroutine other than the handler's is not turned into an error by log.CapturePanic - it ends the process, with every stream of every connection")
				}
			}
		}
		bad, _, _ := effectThenPanic(f, 3, memo)
		res.Check(bad == "", rule, "stream reporter "+shortFn(f)+" is all-or-nothing", fnPos(c.Prog, f), "no counting effect is followed by an instruction that may panic", "the reporter can fail after it has counted: "+bad+" - the handler registers the deferred -1 only after the +1 report returned, so a report that panics half-way (a huge shard id is rejected that way) leaves the count it already changed incremented for ever, and every later stream is counted on top of a phantom one")
	}
	// the handler's own gauge
	h := resolve(c, res, rule, anchor{"proxy", "*adminServiceProxyServer", "StreamWorkflowReplicationMessages"})
	if h == nil {
		return
	}
	for _, b := range h.Blocks {
		for i, ins := range b.Instrs {
			call, ok := ins.(*ssa.Call)
			if !ok || !call.Call.IsInvoke() || call.Call.Method.Name() != "Inc" || !strings.Contains(call.Call.Value.Type().String(), "prometheus") {
				continue
			}
			okPair := false
			why := "no deferred Dec on the same gauge follows the Inc"
			for j := i + 1; j < len(b.Instrs); j++ {
				if d, isD := b.Instrs[j].(*ssa.Defer); isD && deferRuns(d, func(cc *ssa.CallCommon, outer func(ssa.Value) ssa.Value) bool {
					return cc.IsInvoke() && cc.Method.Name() == "Dec" && (cc.Value == call.Call.Value || outer(cc.Value) == outer(call.Call.Value))
				}) {
					okPair = true
					break
				}
				if mp, w := flow.MayPanic(b.Instrs[j], nil, nil); mp {
					why = "between the gauge Inc and the registration of its deferred Dec something may panic (" + w + ")"
					break
				}
			}
			res.Check(okPair, rule, "StreamWorkflowReplicationMessages: gauge Inc is followed at once by its deferred Dec", instrPos(c.Prog, call), "defer gauge.Dec() right after gauge.Inc()", why)
		}
	}
}
