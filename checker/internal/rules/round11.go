package rules

import (
	"fmt"
	"go/ast"
	"go/token"
	"go/types"
	"strings"

	"golang.org/x/tools/go/ssa"

	"s2scheck/internal/flow"
	"s2scheck/internal/report"
)

// checkAdvertisedShardsImmutable (O9.16): a node's advertised shard table is never edited in place. The table of
// remote states hands out NodeShardState *values*, but their Shards field is a map, so every copy shares the one map
// that the membership code stored: an update or delete on a map read from a NodeShardState.Shards field - in a debug
// snapshot, a filter, a "report each shard once" clean-up - edits the manager's ownership view behind the back of its
// mutex. States are replaced as a whole (MergeRemoteState, NotifyMsg) and built from a fresh map (NodeMeta).
func checkAdvertisedShardsImmutable(c *Ctx, res *report.Result, rule string) {
	isShardsOfState := func(v ssa.Value) bool {
		base, field, ok := flow.FieldLoadOf(flow.ResolveLoad(v))
		if !ok || field != "Shards" {
			if f, isF := flow.ResolveLoad(v).(*ssa.Field); isF {
				return flow.FieldName(f.X.Type(), f.Field) == "Shards" && isNamedPtr(f.X.Type(), "NodeShardState")
			}
			return false
		}
		return isNamedPtr(base.Type(), "NodeShardState")
	}
	reads, writes := 0, 0
	for _, f := range c.Prog.RepoFuncs() {
		if f.Pkg == nil || f.Pkg.Pkg.Path() != proxyPkg || !isShippedFunc(f) || len(f.Blocks) == 0 {
			continue
		}
		for _, b := range f.Blocks {
			for _, ins := range b.Instrs {
				switch x := ins.(type) {
				case *ssa.Range:
					if isShardsOfState(x.X) {
						reads++
					}
				case *ssa.Lookup:
					if isShardsOfState(x.X) {
						reads++
					}
				case *ssa.MapUpdate:
					if isShardsOfState(x.Map) {
						writes++
						res.Viol(rule, fmt.Sprintf("%s: no update of an advertised shard table in place (#%d)", shortFn(f), writes), instrPos(c.Prog, ins), "an entry is stored into a map read from a NodeShardState.Shards field: every copy of a node's state shares that map with the one kept in remoteNodeStates, so this edits the manager's view of who owns what, outside its mutex")
					}
				case *ssa.Call:
					if bi, ok := x.Call.Value.(*ssa.Builtin); ok && (bi.Name() == "delete" || bi.Name() == "clear") && len(x.Call.Args) > 0 && isShardsOfState(x.Call.Args[0]) {
						writes++
						res.Viol(rule, fmt.Sprintf("%s: no update of an advertised shard table in place (#%d)", shortFn(f), writes), instrPos(c.Prog, ins), "an entry is deleted from a map read from a NodeShardState.Shards field: every copy of a node's state shares that map with the one kept in remoteNodeStates, so the claim disappears from the manager's ownership view (getShardOwner no longer finds the shard's owner and deliveries for it are reported undelivered) until that node's next full state arrives")
					}
				}
			}
		}
	}
	if reads < 2 {
		res.Undec(rule, "reads of NodeShardState.Shards", "", fmt.Sprintf("%d range / lookup sites found, at least 2 confirmed by hand: the rule no longer recognises the field", reads))
	} else if writes == 0 {
		res.Hold(rule, "no update of an advertised shard table in place", "", fmt.Sprintf("%d read sites, no MapUpdate / delete / clear on a map read from NodeShardState.Shards in package proxy", reads))
	}
}

// checkTranslationNotEdited (O5.11): what AggregateUpTo computed is what is acknowledged. The map it returns is not
// written by its caller: a "monotonicity guard" that raises an entry to the level forwarded earlier acknowledges an id
// that the table did not report for this confirmation (the id of an entry already discarded, from another run of the
// source's ids), and the discard count no longer belongs to the levels that are forwarded.
func checkTranslationNotEdited(c *Ctx, res *report.Result, rule string) {
	n := 0
	for _, f := range c.Prog.RepoFuncs() {
		if f.Pkg == nil || f.Pkg.Pkg.Path() != proxyPkg || !isShippedFunc(f) || len(f.Blocks) == 0 {
			continue
		}
		for _, call := range flow.FindCalls(f, func(cc *ssa.CallCommon) bool {
			return flow.IsCallTo(cc, proxyPkg, "proxyIDRingBuffer", "AggregateUpTo")
		}) {
			cv, ok := call.(*ssa.Call)
			if !ok {
				continue
			}
			n++
			var agg ssa.Value
			for _, r := range *cv.Referrers() {
				if ex, isE := r.(*ssa.Extract); isE && ex.Index == 0 {
					agg = ex
				}
			}
			bad := ""
			if agg != nil {
				isAgg := func(v ssa.Value) bool { return v == agg || flow.ResolveLoad(v) == agg || resolveCell(v) == agg }
				for _, fn := range append([]*ssa.Function{f}, flow.AnonFuncsDeep(f)...) {
					for _, b := range fn.Blocks {
						for _, ins := range b.Instrs {
							switch x := ins.(type) {
							case *ssa.MapUpdate:
								if isAgg(x.Map) {
									bad = instrPos(c.Prog, ins)
								}
							case *ssa.Call:
								if bi, isB := x.Call.Value.(*ssa.Builtin); isB && (bi.Name() == "delete" || bi.Name() == "clear") && len(x.Call.Args) > 0 && isAgg(x.Call.Args[0]) {
									bad = instrPos(c.Prog, ins)
								}
							}
						}
					}
				}
			}
			res.Check(bad == "", rule, fmt.Sprintf("%s: the per-source levels returned by AggregateUpTo are forwarded as computed (#%d)", shortFn(f), n), instrPos(c.Prog, cv), "the returned map is only read",
				"the map returned by AggregateUpTo is edited at "+bad+" before it is forwarded: a level that the id table did not report for this confirmation is acknowledged to the source shard, while the discard count still belongs to the levels the table computed")
		}
	}
	if n < 1 {
		res.Undec(rule, "callers of AggregateUpTo", "", "none found, 1 confirmed by hand (recvAck)")
	}
}

// checkNodeMetaFitsLimit (O20.14 / O9.17): what NodeMeta hands to memberlist fits the limit it was given. The
// marshalled state is returned only on the side of a comparison of its own length with the limit parameter on which
// len(data) <= limit - an estimate made before marshalling is not that test. memberlist panics on an oversized meta
// ("Node meta data provided is longer than the limit") in the goroutine that called UpdateNode, which RegisterShard /
// UnregisterShard start with `go` and nobody recovers: the ids in the shard keys come verbatim from stream-open
// metadata, so their printed length is the caller's choice.
func checkNodeMetaFitsLimit(c *Ctx, res *report.Result, rule string) {
	f := resolve(c, res, rule, anchor{"proxy", "*shardDelegate", "NodeMeta"})
	if f == nil || len(f.Params) < 2 {
		return
	}
	limit := ssa.Value(f.Params[1])
	n := 0
	for _, b := range f.Blocks {
		ret, ok := b.Instrs[len(b.Instrs)-1].(*ssa.Return)
		if !ok || len(ret.Results) != 1 {
			continue
		}
		data := flow.Ret(ret)[0]
		ex, isE := data.(*ssa.Extract)
		if !isE {
			continue
		}
		call, isC := ex.Tuple.(*ssa.Call)
		if !isC {
			continue
		}
		sc := flow.StaticCallee(&call.Call)
		if sc == nil || sc.Name() != "Marshal" {
			continue
		}
		n++
		fits := false
		for _, g := range flow.NormGuards(flow.Guards(b)) {
			bo, isB := g.Cond.(*ssa.BinOp)
			if !isB {
				continue
			}
			lenOf := func(v ssa.Value) bool {
				lc, ok := v.(*ssa.Call)
				if !ok {
					return false
				}
				bi, ok := lc.Call.Value.(*ssa.Builtin)
				return ok && bi.Name() == "len" && flow.ResolveLoad(lc.Call.Args[0]) == data
			}
			isLimit := func(v ssa.Value) bool { return flow.Strip(flow.ResolveLoad(v)) == limit }
			op := bo.Op
			switch {
			case lenOf(bo.X) && isLimit(bo.Y):
			case lenOf(bo.Y) && isLimit(bo.X):
				// mirror: limit OP len  ==  len OP' limit
				switch op {
				case token.LSS:
					op = token.GTR
				case token.LEQ:
					op = token.GEQ
				case token.GTR:
					op = token.LSS
				case token.GEQ:
					op = token.LEQ
				}
			default:
				continue
			}
			if g.Side && (op == token.LEQ || op == token.LSS) || !g.Side && (op == token.GTR) {
				fits = true
			}
		}
		res.Check(fits, rule, fmt.Sprintf("NodeMeta: the marshalled state returned in block %d was found to fit the limit", b.Index), instrPos(c.Prog, ret), "len(data) <= limit on this path",
			"the marshalled state is returned without a test of its own length against the limit: memberlist panics on an oversized meta in the goroutine that RegisterShard / UnregisterShard started for UpdateNode, which nothing recovers - and the length depends on the printed length of shard ids taken verbatim from stream-open metadata")
	}
	if n < 1 {
		res.Undec(rule, "NodeMeta: return of the marshalled state", fnPos(c.Prog, f), "no return of a Marshal result found")
	}
}

// checkNamedErrorResultAssigned (O11.10 / O10.14): a function that returns its named error result has assigned it
// somewhere. `func f() (err error) { for .. { if _, err := call(); err == nil {..} }; return err }` declares a second
// err inside the if: the named result is never assigned and the function reports success whatever the calls
// returned - and neither the compiler nor vet's default set says so. Decided on the type-checked syntax of every
// shipped package: for each function with a named result of type error that some return statement hands back by name
// (`return .., <that name>`; a bare return of a never-assigned result is just `return nil`), an assignment to that very variable exists in the body (closures
// included; taking its address counts).
func checkNamedErrorResultAssigned(c *Ctx, res *report.Result, rule string, minFuncs int) {
	errT := types.Universe.Lookup("error").Type()
	n := 0
	for _, pk := range c.Prog.Pkgs {
		rel := relPath(pk.PkgPath)
		skip := false
		for _, s := range []string{"endtoendtest", "proxy/test", "cmd/tools", "develop", "mocks", "proto/1_22"} {
			if strings.Contains(rel, s) {
				skip = true
			}
		}
		if skip {
			continue
		}
		for _, file := range pk.Syntax {
			if strings.HasSuffix(c.Prog.Fset.Position(file.Pos()).Filename, "_test.go") {
				continue
			}
			ast.Inspect(file, func(nd ast.Node) bool {
				var ft *ast.FuncType
				var body *ast.BlockStmt
				name := ""
				switch x := nd.(type) {
				case *ast.FuncDecl:
					ft, body, name = x.Type, x.Body, x.Name.Name
				case *ast.FuncLit:
					ft, body, name = x.Type, x.Body, "func literal"
				default:
					return true
				}
				if body == nil || ft.Results == nil {
					return true
				}
				nres := 0
				for _, fl := range ft.Results.List {
					nres += max(1, len(fl.Names))
				}
				idx := 0
				for _, fl := range ft.Results.List {
					if len(fl.Names) == 0 {
						idx++
						continue
					}
					for _, id := range fl.Names {
						pos := idx
						idx++
						obj, _ := pk.TypesInfo.Defs[id].(*types.Var)
						if obj == nil || id.Name == "_" || !types.Identical(obj.Type(), errT) {
							continue
						}
						n++
						assigned, returned := false, false
						var retPos token.Pos
						var walk func(node ast.Node, top bool)
						walk = func(node ast.Node, top bool) {
							ast.Inspect(node, func(m ast.Node) bool {
								switch y := m.(type) {
								case *ast.FuncLit:
									if y.Body != nil && m != node {
										walk(y.Body, false)
									}
									return m == node
								case *ast.AssignStmt:
									for _, l := range y.Lhs {
										if li, ok := l.(*ast.Ident); ok && (pk.TypesInfo.Uses[li] == obj || pk.TypesInfo.Defs[li] == obj) {
											assigned = true
										}
									}
								case *ast.UnaryExpr:
									if y.Op == token.AND {
										if li, ok := y.X.(*ast.Ident); ok && pk.TypesInfo.Uses[li] == obj {
											assigned = true
										}
									}
								case *ast.RangeStmt:
									for _, l := range []ast.Expr{y.Key, y.Value} {
										if li, ok := l.(*ast.Ident); ok && pk.TypesInfo.Uses[li] == obj {
											assigned = true
										}
									}
								case *ast.ReturnStmt:
									if !top {
										return true
									}
									// a bare return of a never-assigned result is a plain `return nil`; naming the variable in
									// the return statement says the author believes it holds something
									if len(y.Results) == nres {
										if li, ok := y.Results[pos].(*ast.Ident); ok && pk.TypesInfo.Uses[li] == obj {
											returned, retPos = true, y.Pos()
										}
									}
								}
								return true
							})
						}
						walk(body, true)
						construct := fmt.Sprintf("%s.%s: the named error result %s that it returns is assigned somewhere", rel, name, id.Name)
						if returned && !assigned {
							res.Viol(rule, construct, c.Prog.Pos(retPos), "the function returns its named result "+id.Name+", but nothing in its body ever assigns that variable (an inner `"+id.Name+" :=` declares another one): it reports success whatever its calls returned - a connection whose peer never answered the first ping, say, is registered as a live session")
						} else {
							res.Hold(rule, construct, c.Prog.Pos(id.Pos()), "assigned, or never returned by name")
						}
					}
				}
				return true
			})
		}
	}
	if n < minFuncs {
		res.Undec(rule, "functions with a named error result", "", fmt.Sprintf("%d found, at least %d confirmed by hand", n, minFuncs))
	}
}

// checkForwarderMetadataVerbatim (O7.9): the forwarder opens the source stream with exactly the metadata the handler
// prepared. In LCM mode the handler rewrites the four cluster / shard keys in targetMetadata and hands the forwarder
// the un-remapped ids besides (for its stream id and metrics); Temporal's decoder reads the FIRST value of a key, so
// joining anything in front of targetMetadata - the forwarder's own EncodeClusterShardMD, say - puts the stale ids
// where the serving cluster looks. The metadata argument of NewOutgoingContext in StreamForwarder.Run is the
// targetMetadata field itself.
func checkForwarderMetadataVerbatim(c *Ctx, res *report.Result, rule string) {
	f := resolve(c, res, rule, anchor{"proxy", "*StreamForwarder", "Run"})
	if f == nil {
		return
	}
	n := 0
	for _, call := range flow.Calls(f) {
		sc := flow.StaticCallee(call.Common())
		if sc == nil || sc.Pkg == nil || sc.Pkg.Pkg.Path() != "google.golang.org/grpc/metadata" {
			continue
		}
		switch sc.Name() {
		case "NewOutgoingContext":
			n++
			md := flow.Strip(flow.ResolveLoad(call.Common().Args[1]))
			base, field, ok := flow.FieldLoadOf(md)
			good := ok && field == "targetMetadata" && flow.Strip(flow.ResolveLoad(base)) == ssa.Value(f.Params[0])
			res.Check(good, rule, "StreamForwarder.Run: the source stream is opened with the handler's targetMetadata, verbatim", instrPos(c.Prog, call), "NewOutgoingContext(.., f.targetMetadata)",
				"the outgoing metadata is "+flow.Describe(md)+", not the targetMetadata field itself: in LCM mode only targetMetadata carries the remapped shard ids, the forwarder's own shard id fields are the un-remapped ones, and a decoder that reads the first value of a key sees whatever was joined in front")
		case "AppendToOutgoingContext":
			n++
			res.Viol(rule, "StreamForwarder.Run: nothing is appended to the outgoing metadata", instrPos(c.Prog, call), "metadata is appended to the outgoing context of the source stream: a second value for a cluster / shard key makes the result depend on which value the peer's decoder picks")
		}
	}
	if n < 1 {
		res.Undec(rule, "StreamForwarder.Run: NewOutgoingContext", fnPos(c.Prog, f), "no outgoing-context construction found")
	}
}

// checkNoAppendOntoBorrowedPrefix (O15.9 / O16.10): the policy's lists reach the access check as they were configured.
// `append(s[:k], x)` writes x into s's backing array at position k whenever the array is longer than k - so a helper
// that "abbreviates" or "filters" a list it was handed (a value receiver does not help: the slice header is copied,
// the array is shared) replaces an entry of the caller's list. In packages config, auth and interceptor no append has
// as its first argument a truncating re-slice (a Slice with an upper bound) of a slice the function does not own - a
// parameter, a field of a parameter or of the receiver, or something loaded through them.
func checkNoAppendOntoBorrowedPrefix(c *Ctx, res *report.Result, rule string, pkgRels []string, minAppends int) {
	var borrowed func(v ssa.Value, d int) bool
	borrowed = func(v ssa.Value, d int) bool {
		if d > 6 || v == nil {
			return false
		}
		switch x := v.(type) {
		case *ssa.Parameter:
			return true
		case *ssa.FreeVar:
			return true
		case *ssa.Global:
			return true
		case *ssa.UnOp:
			return borrowed(x.X, d+1)
		case *ssa.FieldAddr:
			return borrowed(x.X, d+1)
		case *ssa.Field:
			return borrowed(x.X, d+1)
		case *ssa.IndexAddr:
			return borrowed(x.X, d+1)
		case *ssa.Slice:
			return borrowed(x.X, d+1)
		case *ssa.Phi:
			for _, e := range x.Edges {
				if borrowed(e, d+1) {
					return true
				}
			}
		case *ssa.Alloc:
			// a local copy of a parameter struct (value receiver): its fields still point at the caller's arrays
			for _, r := range *x.Referrers() {
				if st, ok := r.(*ssa.Store); ok && st.Addr == ssa.Value(x) && borrowed(st.Val, d+1) {
					return true
				}
			}
		}
		return false
	}
	n := 0
	for _, rel := range pkgRels {
		sp, err := c.Prog.SSAPkg(rel)
		if err != nil {
			res.Undec(rule, "package "+rel, "", err.Error())
			continue
		}
		for _, f := range c.Prog.RepoFuncs() {
			if f.Package() != sp || !isShippedFunc(f) || len(f.Blocks) == 0 {
				continue
			}
			k := 0
			for _, call := range flow.Calls(f) {
				bi, ok := call.Common().Value.(*ssa.Builtin)
				if !ok || bi.Name() != "append" || len(call.Common().Args) == 0 {
					continue
				}
				n++
				sl, isSl := call.Common().Args[0].(*ssa.Slice)
				if !isSl || sl.High == nil {
					continue
				}
				if _, isStr := sl.X.Type().Underlying().(*types.Basic); isStr {
					continue
				}
				k++
				res.Check(!borrowed(sl.X, 0), rule, fmt.Sprintf("%s: append #%d onto a truncated view writes only into a slice the function made itself", shortFn(f), k), instrPos(c.Prog, call), "the re-sliced slice is local",
					"append onto a truncated view of a slice the function was handed ("+flow.Describe(sl.X)+"): the appended element overwrites the caller's element at that position - for the ACL policy's lists, an allowed method or namespace is replaced by something else before the access check is built from the same array, and the call is refused (or a name that was never configured is admitted)")
			}
		}
	}
	if n < minAppends {
		res.Undec(rule, "append calls in "+strings.Join(pkgRels, ", "), "", fmt.Sprintf("%d found, at least %d confirmed by hand", n, minAppends))
	} else {
		res.Hold(rule, "append calls of "+strings.Join(pkgRels, ", ")+" examined", "", fmt.Sprintf("%d append calls, each onto a truncated view is listed above (none today: the positive example is the variant 'policy list abbreviated for the log' of the thorough tier)", n))
	}
}
