package rules

import (
	"fmt"
	"go/ast"
	"go/types"
	"os"
	"sort"
	"strings"

	"golang.org/x/tools/go/packages"

	"s2scheck/internal/report"
	"s2scheck/internal/typegraph"
)

func init() {
	Registry["C12"] = func(c *Ctx) (*report.Result, error) { return nsWalkRules(c, "C12") }
}

// dataBlobClass is the reviewed classification of every DataBlob-typed struct field reachable from a
// service message: "events" = serialized []HistoryEvent (must be decoded and walked), "opaque" = not
// history events (reason given). An unclassified site fails the check.
var dataBlobClass = map[string][2]string{
	"adminservice.GetWorkflowExecutionRawHistoryResponse.HistoryBatches":   {"events", "raw history batches"},
	"adminservice.GetWorkflowExecutionRawHistoryV2Response.HistoryBatches": {"events", "raw history batches"},
	"adminservice.ImportWorkflowExecutionRequest.HistoryBatches":           {"events", "history batches to import"},
	"adminservice.ReapplyEventsRequest.Events":                             {"events", "serialized events to re-apply"},
	"replication.HistoryTaskAttributes.Events":                             {"events", "replicated event batch"},
	"replication.HistoryTaskAttributes.NewRunEvents":                       {"events", "replicated event batch of the new run"},
	"replication.HistoryTaskAttributes.EventsBatches":                      {"events", "replicated event batches"},
	"replication.BackfillHistoryTaskAttributes.EventBatches":               {"events", "backfilled event batches"},
	"replication.VersionedTransitionArtifact.EventBatches":                 {"events", "event batches accompanying a state transition"},
	"replication.NewRunInfo.EventBatch":                                    {"events", "first event batch of the new run"},
	"workflowservice.GetWorkflowExecutionHistoryResponse.RawHistory":       {"events", "raw history: each blob is a serialized event batch"},
	"replication.ReplicationTask.Data":                                     {"opaque", "generic serialized task payload for task kinds without typed attributes; not an event batch"},
	"persistence.ChasmNode.Data":                                           {"opaque", "CHASM node data, not history events"},
	"persistence.ChasmComponentAttributes_Task.Data":                       {"opaque", "CHASM task data, not history events"},
	"adminservice.AddTasksRequest_Task.Blob":                               {"opaque", "serialized history queue task, not events"},
	"common.HistoryTask.Blob":                                              {"opaque", "serialized history queue task (DLQ), not events"},
}

type nsSite struct {
	Key  string
	Kind string // string, []string, map[string]string, NamespaceInfo.Name
	Path string
}

type walkFacts struct {
	nsCovered   map[string]string // site -> example path
	nsUncovered map[string]string // site -> why + path
	blobSites   map[string]string // site key -> form|path
	nsInfoBad   map[string]string // path where *NamespaceInfo is not held as a struct field
	saSites     map[string]string
	paths       int
}

// allSites lists every namespace-name site reached (recognised by the repo or not), with a path.
func (f *walkFacts) allSites() []string {
	var out []string
	for k, v := range f.nsCovered {
		out = append(out, k+" via "+v)
	}
	for k, v := range f.nsUncovered {
		out = append(out, k+" via "+strings.Split(v, "|")[1])
	}
	for k, v := range f.nsInfoBad {
		out = append(out, k+" via "+v)
	}
	sort.Strings(out)
	return out
}

// walkRoot mirrors visitNamespace's walk from a root value of type t.
func walkNamespaceSites(m *apiModel, t types.Type, nsNames map[string]bool) *walkFacts {
	f := &walkFacts{nsCovered: map[string]string{}, nsUncovered: map[string]string{}, blobSites: map[string]string{}, nsInfoBad: map[string]string{}, saSites: map[string]string{}}
	m.w.Walk(t, func(n *typegraph.Node) bool {
		f.paths++
		// a *NamespaceInfo value: the repo matches it only when it is a struct field
		if _, isPtr := types.Unalias(n.Type).(*types.Pointer); isPtr && isNamespaceInfo(n.Type) {
			if n.Holder != typegraph.StructField {
				f.nsInfoBad["namespace.NamespaceInfo.Name via "+n.Holder.String()] = n.PathString()
			} else {
				f.nsCovered["namespace.NamespaceInfo.Name"] = n.PathString()
			}
		}
		if n.Holder != typegraph.StructField || n.Owner == nil {
			return true
		}
		key := typegraph.SiteKey(n.Owner, n.Field)
		if form := dataBlobForm(n.Type); form != "" {
			f.blobSites[key] = form + "|" + n.PathString()
		}
		if is, kind := isNamespaceNameField(n.Owner, n.Field); is {
			if _, excluded := nsNameExclusions[key]; !excluded {
				if kind == "string" && nsNames[n.Field.Name()] {
					f.nsCovered[key] = n.PathString()
				} else if kind != "string" {
					f.nsUncovered[key] = "namespace names held in a " + kind + " are never matched by the walker (only string struct fields are)|" + n.PathString()
				} else {
					f.nsUncovered[key] = "Go field name " + n.Field.Name() + " is not in namespaceFieldNames|" + n.PathString()
				}
			}
		}
		return true
	})
	return f
}

type interceptorTables struct {
	pk        *packages.Package
	nsNames   map[string]bool
	blobNames map[string]bool
	saNames   map[string]bool
	skipList  map[string]bool // event constant name
	skipPos   map[string]string
}

func readInterceptorTables(c *Ctx) (*interceptorTables, error) {
	pk, err := c.Prog.Pkg("interceptor")
	if err != nil {
		return nil, err
	}
	t := &interceptorTables{pk: pk, skipList: map[string]bool{}, skipPos: map[string]string{}}
	if t.nsNames, err = stringSetTable(pk, "namespaceFieldNames"); err != nil {
		return nil, err
	}
	if t.blobNames, err = stringSetTable(pk, "dataBlobFieldNames"); err != nil {
		return nil, err
	}
	if t.saNames, err = stringSetTable(pk, "searchAttributeFieldNames"); err != nil {
		return nil, err
	}
	keys, err := mapLiteralKeys(pk, "namespaceTranslationSkippableHistoryEvents")
	if err != nil {
		return nil, err
	}
	for _, k := range keys {
		if k.Const == nil {
			return nil, fmt.Errorf("skip list: key at %s is not an enum constant", c.Prog.Pos(k.Pos))
		}
		t.skipList[k.Const.Name()] = true
		t.skipPos[k.Const.Name()] = c.Prog.Pos(k.Pos)
	}
	return t, nil
}

// nsWalkRules implements O12.1-O12.5 (property C12) and, restricted to request roots, O16.1 (C16).
func nsWalkRules(c *Ctx, prop string) (*report.Result, error) {
	res := newResult(prop)
	m, err := loadAPIModel(c)
	if err != nil {
		return res, err
	}
	tabs, err := readInterceptorTables(c)
	if err != nil {
		return res, err
	}
	P := "O12"
	if prop == "C16" {
		P = "O16.1"
	}
	r1, r2, r3, r4 := P+".1", P+".2", P+".3", P+".4"
	if prop == "C16" {
		r1, r2, r3, r4 = "O16.1a", "O16.1b", "O16.1c", "O16.1d"
	}
	res.RuleDoc[r1] = "every struct field that carries a namespace name (API naming/typing oracle) below a service message root is a string field whose Go name is in namespaceFieldNames, or NamespaceInfo.Name reached through a struct field of type *NamespaceInfo"
	res.RuleDoc[r2] = "every DataBlob field classified as serialized history events is named in dataBlobFieldNames and has a type handled by visitDataBlobs ([]*DataBlob or *DataBlob)"
	res.RuleDoc[r3] = "skip soundness: no event type in namespaceTranslationSkippableHistoryEvents, and no message type short-circuited by isSkippableForNamespaceTranslation, reaches a namespace-name site; event-level namespace sites outside Attributes are tested by the shortcut"
	res.RuleDoc[r4] = "no walk cut before a site: every Skip/Stop returned by the visit callbacks is one of the reviewed classes (nil pointer, unexported field, History handled by per-event recursion, error)"
	res.Floors[r1] = 100
	res.Floors[r2] = 8
	res.Floors[r3] = 50
	if prop == "C16" {
		res.Floors[r1] = 60
		res.Floors[r2] = 2
	}

	// ---- roots
	var roots []apiRoot
	for _, r := range m.roots {
		if prop == "C16" && !r.IsRequest() {
			continue
		}
		roots = append(roots, r)
	}
	// the content of every events blob is []*history.HistoryEvent
	hePkg := m.pkgs[histPkg]
	heObj, _ := hePkg.Scope().Lookup("HistoryEvent").(*types.TypeName)
	if heObj == nil {
		return res, fmt.Errorf("anchor: history.HistoryEvent not found")
	}
	heNamed := heObj.Type().(*types.Named)
	extraRoots := []apiRoot{{Service: "blob", Method: "events", Role: "request", Type: heNamed}}
	allNs := map[string]string{}
	allBad := map[string]string{}
	allBlobs := map[string]string{}
	totalPaths := 0
	nontrivialRoots := 0
	perRootNs := map[string]int{}
	for _, r := range append(append([]apiRoot{}, roots...), extraRoots...) {
		f := walkNamespaceSites(m, types.NewPointer(r.Type), tabs.nsNames)
		totalPaths += f.paths
		if len(f.nsCovered)+len(f.nsUncovered)+len(f.blobSites) > 0 {
			nontrivialRoots++
		}
		perRootNs[r.Name()] = len(f.nsCovered) + len(f.nsUncovered)
		for k, v := range f.nsCovered {
			if _, ok := allNs[k]; !ok {
				allNs[k] = r.Name() + ": " + v
			}
		}
		for k, v := range f.nsUncovered {
			if _, ok := allBad[k]; !ok {
				allBad[k] = v + "|" + r.Name()
			}
		}
		for k, v := range f.nsInfoBad {
			if _, ok := allBad[k]; !ok {
				allBad[k] = "*NamespaceInfo value is not held as a struct field, so the special case in visitNamespace does not see it|" + v + "|" + r.Name()
			}
		}
		for k, v := range f.blobSites {
			if _, ok := allBlobs[k]; !ok {
				allBlobs[k] = v + "|" + r.Name()
			}
		}
	}
	for _, k := range sortedKeys(allNs) {
		if _, bad := allBad[k]; bad {
			continue
		}
		res.Hold(r1, k, "", "covered; e.g. "+allNs[k])
	}
	for _, k := range sortedKeys(allBad) {
		parts := strings.Split(allBad[k], "|")
		res.Viol(r1, k, "", parts[0], parts[1:]...)
	}

	// ---- O12.2 blobs
	visitDataBlobTypes, err := typeSwitchCases(tabs.pk, "visitDataBlobs")
	if err != nil {
		return res, err
	}
	handles := map[string]bool{}
	for _, t := range visitDataBlobTypes {
		handles[dataBlobForm(t)] = true
	}
	for _, k := range sortedKeys(allBlobs) {
		parts := strings.Split(allBlobs[k], "|")
		form, path, root := parts[0], parts[1], parts[2]
		cls, ok := dataBlobClass[k]
		field := k[strings.LastIndex(k, ".")+1:]
		if !ok {
			res.Undec(r2, k, "", "DataBlob field is not in the reviewed classification table of the checker (events/opaque): review it and add it", "type "+form, "path "+path, "root "+root)
			continue
		}
		if cls[0] == "opaque" {
			res.Hold(r2, k, "", "opaque (not history events): "+cls[1])
			continue
		}
		switch {
		case !tabs.blobNames[field]:
			res.Viol(r2, k, "", "serialized history events ("+cls[1]+") in a field whose Go name "+field+" is not in dataBlobFieldNames: the blob is never decoded, so namespaces inside it are not translated/checked", "type "+form, "path "+path, "root "+root)
		case !handles[form]:
			res.Viol(r2, k, "", "field type "+form+" is not a case of the type switch in visitDataBlobs", "path "+path)
		default:
			res.Hold(r2, k, "", "decoded: name in dataBlobFieldNames, type "+form)
		}
	}

	// ---- O12.3 skip soundness
	evByName := map[string]eventType{}
	for _, e := range m.events {
		evByName[e.Name] = e
	}
	for _, name := range sortedKeys(tabs.skipList) {
		if _, ok := evByName[name]; !ok {
			res.Undec(r3, "skip["+name+"]", tabs.skipPos[name], "skip-list key is not a constant of enums.EventType in the pinned API")
		}
	}
	// every event type of the API is examined; only those on the skip list can violate
	for _, e := range m.events {
		name := e.Name
		inSkip := tabs.skipList[name]
		construct := "event[" + name + "]"
		if inSkip {
			construct = "skip[" + name + "]"
		}
		if e.Wrapper == nil {
			if e.Value == 0 || !inSkip {
				if e.Value != 0 {
					res.Undec(r3, construct, "", "no HistoryEvent_<Name>EventAttributes wrapper found by naming convention: cannot decide what the event may contain")
				} else {
					res.Trivial(r3, construct)
				}
				continue
			}
			res.Undec(r3, construct, tabs.skipPos[name], "no HistoryEvent_<Name>EventAttributes wrapper found for this skipped event type: cannot decide what the event may contain")
			continue
		}
		f := walkNamespaceSites(m, types.NewPointer(e.Wrapper), tabs.nsNames)
		sites := f.allSites()
		var evBlobs []string
		for k := range f.blobSites {
			if dataBlobClass[k][0] != "opaque" {
				evBlobs = append(evBlobs, k)
			}
		}
		switch {
		case !inSkip:
			res.Hold(r3, construct, "", fmt.Sprintf("not on the skip list: always walked (attributes reach %d namespace-name site(s))", len(sites)))
		case len(sites) == 0 && len(evBlobs) == 0:
			res.Hold(r3, construct, tabs.skipPos[name], fmt.Sprintf("skipped, and its attributes reach no namespace-name site (%d type paths)", f.paths))
		default:
			var tr []string
			for i, s := range sites {
				if i < 4 {
					tr = append(tr, s)
				}
			}
			res.Viol(r3, construct, tabs.skipPos[name], fmt.Sprintf("event type is skipped by namespace translation and by the namespace ACL, but its attributes reach %d namespace-name site(s)", len(sites)), tr...)
		}
	}
	// non-event types short-circuited by isSkippableForNamespaceTranslation
	skipTypes, err := typeSwitchCases(tabs.pk, "isSkippableForNamespaceTranslation")
	if err != nil {
		return res, err
	}
	for _, t := range skipTypes {
		if isHistoryEvent(t) {
			continue
		}
		if s, ok := types.Unalias(t).Underlying().(*types.Slice); ok && isHistoryEvent(s.Elem()) {
			continue
		}
		name := typegraph.ShortType(t)
		// map the repo-side type to the API model type by package path + name
		mt := m.lookupType(t)
		if mt == nil {
			res.Undec(r3, "shortcut["+name+"]", "", "type of the shortcut case not found in the API model")
			continue
		}
		f := walkNamespaceSites(m, mt, tabs.nsNames)
		n := len(f.allSites())
		var evBlobs []string
		for k := range f.blobSites {
			if dataBlobClass[k][0] != "opaque" {
				evBlobs = append(evBlobs, k)
			}
		}
		if n == 0 && len(evBlobs) == 0 {
			res.Hold(r3, "shortcut["+name+"]", "", "short-circuited message type reaches no namespace-name site and no events blob")
		} else {
			tr := f.allSites()
			res.Viol(r3, "shortcut["+name+"]", "", fmt.Sprintf("isSkippableForNamespaceTranslation returns true for this type but it reaches %d namespace-name site(s) / %d events blob(s)", n, len(evBlobs)), tr...)
		}
	}
	// event-level namespace sites outside Attributes must be tested by the shortcut
	if err := checkEventLevelShortcut(c, m, tabs, heNamed, res, r3); err != nil {
		return res, err
	}

	// ---- O12.4 walk cuts
	checkWalkCuts(c, res, r4)
	checkVisitLibrary(c, res, r4)
	checkBlobExamined(c, res, r4)
	if prop == "C16" {
		checkEveryBlobTranslated(c, res, r4)
	}
	{
		rs := "O12.6"
		if prop == "C16" {
			rs = "O16.7"
		}
		res.RuleDoc[rs] = "translation and access control keep no memory between messages: no shipped function of the interceptor, proto/compat, auth and collect packages stores into package-level state, receiver fields or sync.Maps after construction - a cache keyed by message type or content (or a 'reported once' set) makes the treatment of one message depend on the ones before it"
		checkStateless(c, res, rs, []string{"interceptor", "proto/compat", "auth", "collect"}, map[string]string{})
		re := "O12.7"
		if prop == "C16" {
			re = "O16.8"
		}
		res.RuleDoc[re] = "no swallowed error in the files the mechanism lives in: no function returns a nil error on a path on which an error obtained from a call is known to be non-nil (io.EOF from a stream Recv, the normal end of a receive loop, is the one accepted idiom)"
		checkNoSwallowedErrors(c, res, re, []string{"interceptor/reflection.go", "interceptor/translator.go", "interceptor/translation_interceptor.go", "interceptor/access_control.go"})
	}

	if prop == "C12" {
		checkTranslateOrder(c, m, res)
		res.RuleDoc["O12.8"] = "the per-RPC method gate of the namespace translator admits every method of both services whose request or response type reaches a namespace-name site: matchMethod returns true on every path, or excludes only methods named by the constant keys of a package-level table, each resolved against the method lists of both services (a short name may belong to both), and translatorImpl.MatchMethod delegates to it"
		siteCount := map[string]int{}
		for _, r := range roots {
			f := walkNamespaceSites(m, types.NewPointer(r.Type), tabs.nsNames)
			n := len(f.nsCovered) + len(f.nsUncovered) + len(f.nsInfoBad)
			for k := range f.blobSites {
				if cls, ok := dataBlobClass[k]; !ok || cls[0] == "events" {
					n++
				}
			}
			siteCount[r.Name()] = n
		}
		checkNamespaceMethodGate(c, res, "O12.8", m, siteCount)
		res.RuleDoc["O12.10"] = "what leaves is what the visitor mapped: after the visitor ran, translateOneDataBlob returns its input blob or the serialization of the very events the visitor walked - never a blob produced earlier (e.g. by the UTF-8 repair)"
		checkTranslatedBlobProvenance(c, res, "O12.10")
		res.RuleDoc["O12.11"] = "every blob of a repeated field is looked into: no path through translateDataBlobs' loop goes on to the next element without calling translateOneDataBlob"
		checkEveryBlobTranslated(c, res, "O12.11")
		res.RuleDoc["O12.15"] = "only a real intra-proxy stream goes untranslated: common.IsIntraProxy answers true only when the header equals the marker WithIntraProxyHeaders writes - the interceptor skips the translating wrapper for such streams, so a looser test lets any peer switch translation off for its replication stream with a header value of its choosing"
		checkIntraProxyMarkerExact(c, res, "O12.15")
		res.RuleDoc["O12.13"] = "a message is mapped once on its way through a deployment: in InterceptStream the translating wrapper is put around a stream only on the false side of IsIntraProxy(stream context) and intra-proxy streams are handed to the handler as they are - both listeners of a multi-node deployment carry the translation interceptor, so a message that crosses an intra-proxy hop would be mapped twice (a swapped pair comes back untranslated, a chain lands on the wrong name)"
		checkIntraProxyStreamsNotTranslated(c, res, "O12.13")
		res.RuleDoc["O12.14"] = "a decoded history blob is always handed to the visitor (same analysis as O13.14)"
		checkDecodedBlobAlwaysWalked(c, res, "O12.14")
		res.RuleDoc["O12.12"] = "performance short cuts never change the result: translatorImpl.TranslateRequest / TranslateResponse hand every message, whole, to the visitor - no return is reachable without the call of the receiver's visitor field on the method's own message (a content-based fast path in front of the walk is wrong for every message that names a second namespace further down)"
		checkTranslatorAlwaysVisits(c, res, "O12.12", []string{"translatorImpl"})
		res.RuleDoc["O12.9"] = "a translated blob replaces the original as a whole: after translateOneDataBlob / translateDataBlobs reported a match or a change, no path of visitDataBlobs reaches a return without visit.Assign of the returned blob (same analysis as O17.4) - the re-serialized blob carries its own encoding label, so copying only its bytes into the old blob leaves a JSON-labelled blob holding proto3 bytes, which the receiving cluster cannot decode"
		checkRepairedBlobWrittenBack(c, res, "O12.9")
	}

	res.Explanation = fmt.Sprintf("Type-graph walk (mirroring github.com/keilerkonzept/visit as driven by interceptor.visitNamespace) from %d service message roots (+%d extra roots) of the pinned go.temporal.io/api and go.temporal.io/server/api: %d type paths enumerated exhaustively (recursion cut when a named struct re-appears on the path). An oracle independent of the repo's tables (field name contains 'namespace', string-like type, not an id; NamespaceInfo.Name; reviewed DataBlob classification) names the sites that carry a namespace; the repo's recognisers (namespaceFieldNames, dataBlobFieldNames, the skip list, the type switches of visitDataBlobs / isSkippableForNamespaceTranslation) are read from the current source and every site must be recognised; the skip list must not contain an event type whose attributes reach a site; the visit callbacks must not cut the walk outside the reviewed classes. Decides the structural completeness of the walker, not the run-time behaviour of visit.Assign or the serializer.",
		len(roots), len(extraRoots), totalPaths)
	res.Extra["exhaustive"] = true
	res.Extra["type_paths"] = totalPaths
	res.Extra["roots"] = len(roots)
	res.Extra["extra_roots"] = len(extraRoots)
	res.Extra["roots_with_sites"] = nontrivialRoots
	res.Extra["event_types"] = len(m.events)
	res.Extra["skip_list_entries"] = len(tabs.skipList)
	res.Analysed["api_packages"] = len(m.pkgs)
	res.Analysed["tables"] = map[string]any{"namespaceFieldNames": sortedKeys(tabs.nsNames), "dataBlobFieldNames": sortedKeys(tabs.blobNames)}
	res.Assumptions = []string{
		"Go type checker and export data of the pinned API modules",
		"visit.Values traverses struct fields, pointer/interface elements, slice/array elements, map keys and values (checked structurally against its source in the thorough tier)",
		"Temporal API naming convention: namespace names live in string fields whose name contains 'namespace' (not ...Id), and in NamespaceInfo.Name",
		"reviewed DataBlob classification table in the checker (events vs opaque)",
		"visit.Assign and the history-event serializer behave as named",
	}
	if os.Getenv("S2S_DEBUG") != "" {
		for _, k := range sortedKeys(allBlobs) {
			fmt.Println("BLOB", k, allBlobs[k])
		}
	}
	return res, nil
}

// lookupType maps a type from the source load to the same-named type of the API model load.
func (m *apiModel) lookupType(t types.Type) types.Type {
	t = types.Unalias(t)
	if p, ok := t.(*types.Pointer); ok {
		if e := m.lookupType(p.Elem()); e != nil {
			return types.NewPointer(e)
		}
		return nil
	}
	if s, ok := t.(*types.Slice); ok {
		if e := m.lookupType(s.Elem()); e != nil {
			return types.NewSlice(e)
		}
		return nil
	}
	n, ok := t.(*types.Named)
	if !ok || n.Obj().Pkg() == nil {
		return nil
	}
	p := m.pkgs[n.Obj().Pkg().Path()]
	if p == nil {
		return nil
	}
	tn, ok := p.Scope().Lookup(n.Obj().Name()).(*types.TypeName)
	if !ok {
		return nil
	}
	return tn.Type()
}

// typeSwitchCases returns the case types of all type switches and comma-ok type assertions in a
// function of the package (AST + go/types).
func typeSwitchCases(pk *packages.Package, funcName string) ([]types.Type, error) {
	var fd *ast.FuncDecl
	for _, f := range pk.Syntax {
		for _, d := range f.Decls {
			if x, ok := d.(*ast.FuncDecl); ok && x.Name.Name == funcName && x.Recv == nil {
				fd = x
			}
		}
	}
	if fd == nil || fd.Body == nil {
		return nil, fmt.Errorf("anchor: function %s.%s not found", pk.Name, funcName)
	}
	var out []types.Type
	ast.Inspect(fd.Body, func(n ast.Node) bool {
		switch x := n.(type) {
		case *ast.TypeSwitchStmt:
			for _, cl := range x.Body.List {
				for _, e := range cl.(*ast.CaseClause).List {
					if t := pk.TypesInfo.TypeOf(e); t != nil {
						out = append(out, t)
					}
				}
			}
		}
		return true
	})
	return out, nil
}

// checkEventLevelShortcut: every namespace-name site reachable from HistoryEvent outside its
// Attributes oneof must be read by a getter call in both event cases of the shortcut function.
func checkEventLevelShortcut(c *Ctx, m *apiModel, tabs *interceptorTables, he *types.Named, res *report.Result, rule string) error {
	st := he.Underlying().(*types.Struct)
	type site struct{ owner, field, path string }
	var sites []site
	for i := 0; i < st.NumFields(); i++ {
		f := st.Field(i)
		if !f.Exported() || f.Name() == "Attributes" {
			continue
		}
		m.w.Walk(f.Type(), func(n *typegraph.Node) bool {
			if nt := typegraph.NamedStruct(n.Type); nt == he {
				return false
			}
			if n.Holder == typegraph.StructField && n.Owner != nil {
				if is, _ := isNamespaceNameField(n.Owner, n.Field); is {
					sites = append(sites, site{n.Owner.Obj().Name(), n.Field.Name(), "HistoryEvent." + f.Name() + "/" + n.PathString()})
				}
			}
			return true
		})
	}
	fd, pk, err := c.Prog.FuncDecl("interceptor", "", "isSkippableForNamespaceTranslation")
	if err != nil {
		return err
	}
	// getter calls per case clause of the type switch
	type caseInfo struct {
		name    string
		getters map[string]bool // Owner.GetField
		usesTbl bool
	}
	var cases []caseInfo
	ast.Inspect(fd.Body, func(n ast.Node) bool {
		ts, ok := n.(*ast.TypeSwitchStmt)
		if !ok {
			return true
		}
		for _, cl := range ts.Body.List {
			cc := cl.(*ast.CaseClause)
			for _, e := range cc.List {
				t := pk.TypesInfo.TypeOf(e)
				isEv := isHistoryEvent(t)
				if s, ok := types.Unalias(t).Underlying().(*types.Slice); ok && isHistoryEvent(s.Elem()) {
					isEv = true
				}
				if !isEv {
					continue
				}
				ci := caseInfo{name: typegraph.ShortType(t), getters: map[string]bool{}}
				for _, s := range cc.Body {
					ast.Inspect(s, func(n ast.Node) bool {
						switch x := n.(type) {
						case *ast.CallExpr:
							if sel, ok := x.Fun.(*ast.SelectorExpr); ok {
								if fo, ok := pk.TypesInfo.Uses[sel.Sel].(*types.Func); ok {
									if r := fo.Type().(*types.Signature).Recv(); r != nil {
										if nt := typegraph.NamedStruct(r.Type()); nt != nil {
											ci.getters[nt.Obj().Name()+"."+fo.Name()] = true
										}
									}
								}
							}
						case *ast.SelectorExpr:
							if v, ok := pk.TypesInfo.Uses[x.Sel].(*types.Var); ok && v.IsField() {
								if sel, ok := pk.TypesInfo.Selections[x]; ok {
									if nt := typegraph.NamedStruct(sel.Recv()); nt != nil {
										ci.getters[nt.Obj().Name()+".Get"+v.Name()] = true
									}
								}
							}
						case *ast.Ident:
							if x.Name == "namespaceTranslationSkippableHistoryEvents" {
								ci.usesTbl = true
							}
						}
						return true
					})
				}
				cases = append(cases, ci)
			}
		}
		return true
	})
	if len(cases) < 1 {
		res.Undec(rule, "shortcut[event cases]", c.Prog.Pos(fd.Pos()), "no *HistoryEvent / []*HistoryEvent case found in isSkippableForNamespaceTranslation")
		return nil
	}
	seen := map[string]bool{}
	for _, s := range sites {
		key := s.owner + "." + s.field
		if seen[key] {
			continue
		}
		seen[key] = true
		for _, ci := range cases {
			construct := "shortcut[" + ci.name + "] tests " + key
			if ci.getters[s.owner+".Get"+s.field] {
				res.Hold(rule, construct, c.Prog.Pos(fd.Pos()), "event-level namespace site "+s.path+" is read by the shortcut before it answers 'skippable'")
			} else {
				res.Viol(rule, construct, c.Prog.Pos(fd.Pos()), "event-level namespace site "+s.path+" (outside Attributes) is not examined by the shortcut: an event of a skippable type carrying it would be skipped")
			}
		}
	}
	return nil
}
