package rules

import (
	"fmt"
	"go/token"
	"strings"

	"golang.org/x/tools/go/ssa"

	"s2scheck/internal/flow"
	"s2scheck/internal/report"
)

// errMayBeNil: the error value v, returned from block b, can be nil: the nil constant, a phi with such an edge, or
// anything that is neither freshly made (errors.New / fmt.Errorf) nor tested non-nil on the way to b.
func errMayBeNil(v ssa.Value, b *ssa.BasicBlock, d int) bool {
	if d > 4 {
		return true
	}
	if flow.IsNilConst(v) {
		return true
	}
	for _, g := range flow.NormGuards(flow.Guards(b)) {
		if bo, isB := g.Cond.(*ssa.BinOp); isB {
			x, y := flow.ResolveLoad(bo.X), flow.ResolveLoad(bo.Y)
			if (x == v && flow.IsNilConst(y) || y == v && flow.IsNilConst(x)) && (bo.Op == token.NEQ && g.Side || bo.Op == token.EQL && !g.Side) {
				return false
			}
		}
	}
	switch x := v.(type) {
	case *ssa.Call:
		if sc := flow.StaticCallee(&x.Call); sc != nil && sc.Pkg != nil && (sc.Pkg.Pkg.Path() == "errors" && sc.Name() == "New" || sc.Pkg.Pkg.Path() == "fmt" && sc.Name() == "Errorf") {
			return false
		}
	case *ssa.Phi:
		for _, e := range x.Edges {
			if errMayBeNil(e, b, d+1) {
				return true
			}
		}
		return false
	}
	return true
}

// checkConnWrappedOnEveryPath (O19.11): a connection that a mux connection provider hands out went through the TLS
// wrapper. In establishingConnProvider.NewConnection and receivingConnProvider.NewConnection (closures included), from
// every dial / accept no return that can report success is reachable without the call of the provider's tlsWrapper
// field. The wrapper call existing somewhere is not enough: a retry path that returns the raw TCP connection runs
// yamux in plaintext, with a peer that showed no certificate at all.
func checkConnWrappedOnEveryPath(c *Ctx, res *report.Result, rule string) {
	n := 0
	for _, a := range []anchor{{"transport/mux", "*establishingConnProvider", "NewConnection"}, {"transport/mux", "*receivingConnProvider", "NewConnection"}} {
		top := resolve(c, res, rule, a)
		if top == nil {
			continue
		}
		for _, f := range append([]*ssa.Function{top}, flow.AnonFuncsDeep(top)...) {
			isWrap := func(ins ssa.Instruction) bool {
				call, ok := ins.(*ssa.Call)
				if !ok || call.Call.IsInvoke() {
					return false
				}
				_, field, isF := flow.FieldLoadOf(resolveCell(call.Call.Value))
				if !isF {
					_, field, isF = flow.FieldLoadOf(call.Call.Value)
				}
				return isF && field == "tlsWrapper"
			}
			isSuccessReturn := func(ins ssa.Instruction) bool {
				ret, ok := ins.(*ssa.Return)
				if !ok || len(ret.Results) == 0 {
					return false
				}
				rs := flow.Ret(ret)
				if flow.IsNilConst(rs[0]) {
					return false // no connection is handed out
				}
				return errMayBeNil(rs[len(rs)-1], ret.Block(), 0)
			}
			k := 0
			for _, call := range flow.Calls(f) {
				cv, isCall := call.(*ssa.Call)
				if !isCall {
					continue
				}
				name := ""
				if sc := flow.StaticCallee(&cv.Call); sc != nil && sc.Pkg != nil && sc.Pkg.Pkg.Path() == "net" && strings.HasPrefix(sc.Name(), "Dial") {
					name = "net." + sc.Name()
				} else if cv.Call.IsInvoke() && cv.Call.Method.Name() == "Accept" {
					name = "Accept"
				}
				if name == "" {
					continue
				}
				n++
				k++
				r := flow.FindPath(flow.After(cv), isSuccessReturn, isWrap, nil)
				res.Check(!r.Found, rule, fmt.Sprintf("%s: connection #%d (%s) reaches a successful return only through tlsWrapper", shortFn(f), k, name), instrPos(c.Prog, cv), "p.tlsWrapper(conn) on every path to a nil-error return",
					"after this "+name+" a return that can report success is reachable without the TLS wrapper"+pathSuffix(r)+": that connection is handed to yamux as plain TCP - the endpoint configured for TLS accepts (or dials) a peer that never proved anything")
			}
		}
	}
	if n < 2 {
		res.Undec(rule, "dial / accept calls of the mux connection providers", "", fmt.Sprintf("%d found, 2 confirmed by hand", n))
	}
}

// checkIntraSenderRunTripsLatch (O20.15): the intra-proxy routing handler waits on the latch only, and the only thing
// that trips it is the deferred Shutdown at the top of the sender's recvAck. So no return of intraProxyStreamSender.Run
// is reachable without the call of recvAck with Run's own latch (a refusal in front of it leaves the handler parked for
// ever: the stream is neither served nor rejected, and its +1 in the observer is never taken back), and recvAck
// registers the deferred Shutdown before anything else can return.
func checkIntraSenderRunTripsLatch(c *Ctx, res *report.Result, rule string) {
	run := resolve(c, res, rule, anchor{"proxy", "*intraProxyStreamSender", "Run"})
	ack := resolve(c, res, rule, anchor{"proxy", "*intraProxyStreamSender", "recvAck"})
	if run == nil || ack == nil || len(run.Params) < 3 || len(ack.Params) < 2 {
		return
	}
	latch := ssa.Value(run.Params[2])
	trips := func(ins ssa.Instruction) bool {
		call, ok := ins.(ssa.CallInstruction)
		if !ok {
			return false
		}
		if _, isGo := ins.(*ssa.Go); isGo {
			return false
		}
		cc := call.Common()
		if sc := flow.StaticCallee(cc); sc == ack {
			for _, a := range cc.Args {
				if flow.Strip(flow.ResolveLoad(a)) == latch {
					return true
				}
			}
		}
		return cc.IsInvoke() && cc.Method.Name() == "Shutdown" && flow.Strip(flow.ResolveLoad(cc.Value)) == latch
	}
	r := flow.FindPath(flow.Point{Block: run.Blocks[0]}, flow.IsReturn, trips, nil)
	res.Check(!r.Found, rule, "intraProxyStreamSender.Run: every return follows recvAck(latch) (or a Shutdown of the latch)", fnPos(c.Prog, run), "no return before the ack loop",
		"Run can return without having run recvAck or tripped its latch"+pathSuffix(r)+": streamIntraProxyRouting waits on that latch only, so the handler never returns for such a stream-open - neither served nor rejected - and its count in the stream observer is never taken back")
	okDefer := false
	for _, ins := range ack.Blocks[0].Instrs {
		if d, isD := ins.(*ssa.Defer); isD && deferRuns(d, func(cc *ssa.CallCommon, outer func(ssa.Value) ssa.Value) bool {
			return cc.IsInvoke() && cc.Method.Name() == "Shutdown" && (flow.Strip(flow.ResolveLoad(cc.Value)) == ssa.Value(ack.Params[1]) || outer(cc.Value) == ssa.Value(ack.Params[1]))
		}) {
			okDefer = true
		}
	}
	res.Check(okDefer, rule, "intraProxyStreamSender.recvAck: the latch is tripped by a defer registered in the entry block", fnPos(c.Prog, ack), "defer func() { .. shutdownChan.Shutdown() }()", "recvAck can return without tripping the latch its handler waits on")
}

// checkDecodedBlobAlwaysWalked (O13.14 / O12.14 / O14.14): translateOneDataBlob serves every visitor - the namespace
// translator, the search-attribute translator and the access check. Once the blob is decoded, no return that can
// report success is reachable without the call of the visitor parameter on the decoded events: a short cut that is
// right for one visitor ("only skip-listed event types: no namespace in here") silently switches the others off for
// that blob.
func checkDecodedBlobAlwaysWalked(c *Ctx, res *report.Result, rule string) {
	f := resolve(c, res, rule, anchor{"interceptor", "", "translateOneDataBlob"})
	if f == nil {
		return
	}
	var vp ssa.Value
	for _, p := range f.Params {
		if nm, ok := p.Type().(interface {
			Obj() interface{ Name() string }
		}); ok {
			_ = nm
		}
		if strings.HasSuffix(p.Type().String(), ".visitor") {
			vp = p
		}
	}
	if vp == nil {
		res.Undec(rule, "translateOneDataBlob: visitor parameter", fnPos(c.Prog, f), "no parameter of type visitor")
		return
	}
	var decode *ssa.Call
	for _, call := range flow.Calls(f) {
		name := ""
		if sc := flow.StaticCallee(call.Common()); sc != nil {
			name = sc.Name()
		} else if call.Common().IsInvoke() {
			name = call.Common().Method.Name()
		}
		if cv, ok := call.(*ssa.Call); ok && name == "DeserializeEvents" && decode == nil {
			decode = cv
		}
	}
	if decode == nil {
		res.Undec(rule, "translateOneDataBlob: decode call", fnPos(c.Prog, f), "no DeserializeEvents call")
		return
	}
	isVisit := func(ins ssa.Instruction) bool {
		call, ok := ins.(*ssa.Call)
		return ok && !call.Call.IsInvoke() && flow.Strip(flow.ResolveLoad(call.Call.Value)) == vp
	}
	isSuccessReturn := func(ins ssa.Instruction) bool {
		ret, ok := ins.(*ssa.Return)
		if !ok || len(ret.Results) == 0 {
			return false
		}
		rs := flow.Ret(ret)
		return errMayBeNil(rs[len(rs)-1], ret.Block(), 0)
	}
	r := flow.FindPath(flow.After(decode), isSuccessReturn, isVisit, nil)
	res.Check(!r.Found, rule, "translateOneDataBlob: a decoded blob is handed to the visitor before any successful return", instrPos(c.Prog, decode), "visitor(logger, events, match) on every path to a nil-error return",
		"after the blob was decoded a return that can report success is reachable without the visitor"+pathSuffix(r)+": the function serves the namespace translator, the search-attribute translator and the access check alike, so a short cut that is right for one of them leaves the blob unexamined for the others")
}

// checkIntraProxyStreamsNotTranslated (O12.13 / O13.13): a message is mapped once on its way through a deployment. A
// stream between two proxy instances of the same deployment (x-s2s-intra-proxy) is handed to its handler as it is;
// only other streams get the translating wrapper. In InterceptStream every call of the handler with the wrapper is on
// the false side of IsIntraProxy(stream context) and the true side calls the handler with the stream it was given -
// with both listeners translating, a swapped or chained mapping is applied twice.
func checkIntraProxyStreamsNotTranslated(c *Ctx, res *report.Result, rule string) {
	f := resolve(c, res, rule, anchor{"interceptor", "*TranslationInterceptor", "InterceptStream"})
	if f == nil || len(f.Params) < 5 {
		return
	}
	handler, stream := ssa.Value(f.Params[4]), ssa.Value(f.Params[2])
	nWrapped, nPlain := 0, 0
	for _, call := range flow.Calls(f) {
		cc := call.Common()
		if cc.IsInvoke() || flow.Strip(flow.ResolveLoad(cc.Value)) != handler || len(cc.Args) < 2 {
			continue
		}
		arg := flow.Strip(flow.ResolveLoad(cc.Args[1]))
		if mi, ok := arg.(*ssa.MakeInterface); ok {
			arg = flow.Strip(mi.X)
		}
		side := 0 // +1: IsIntraProxy true side, -1: false side
		for _, g := range flow.NormGuards(flow.Guards(call.Block())) {
			if gc, ok := g.Cond.(*ssa.Call); ok {
				if sc := flow.StaticCallee(&gc.Call); sc != nil && sc.Name() == "IsIntraProxy" {
					if g.Side {
						side = 1
					} else {
						side = -1
					}
				}
			}
		}
		if arg == stream {
			nPlain++
			res.Check(side == 1, rule, fmt.Sprintf("InterceptStream: handler call #%d with the untranslated stream is for intra-proxy streams only", nPlain), instrPos(c.Prog, call), "on the true side of IsIntraProxy", "the handler is given the raw stream outside the intra-proxy case: that stream's messages leave untranslated")
		} else {
			nWrapped++
			res.Check(side == -1, rule, fmt.Sprintf("InterceptStream: handler call #%d with the translating wrapper is not for intra-proxy streams", nWrapped), instrPos(c.Prog, call), "on the false side of IsIntraProxy", "the translating wrapper is also put around streams between two proxy instances of the same deployment: a message that crosses such a hop is mapped twice - a swapped pair of names comes back untranslated, a chained mapping lands on the wrong namespace")
		}
	}
	if nWrapped < 1 || nPlain < 1 {
		res.Undec(rule, "InterceptStream: handler calls", fnPos(c.Prog, f), fmt.Sprintf("%d with the wrapper, %d with the raw stream; one of each confirmed by hand", nWrapped, nPlain))
	}
}

// checkStreamClientNilGuard (O8.19): the intra-proxy manager uses a looked-up receiver only after finding its stream
// open. ensureStream registers a receiver before its goroutine has opened the gRPC stream (and a receiver whose open
// failed stays registered until that goroutine removes it), so intraProxyManager.sendAck reaches the receiver's
// sendAck - which calls through streamClient without a test of its own - only on the side of `r.streamClient != nil`.
// A nil interface there is a panic in the sender's ack goroutine, which nothing recovers.
func checkStreamClientNilGuard(c *Ctx, res *report.Result, rule string) {
	f := resolve(c, res, rule, anchor{"proxy", "*intraProxyManager", "sendAck"})
	inner := resolve(c, res, rule, anchor{"proxy", "*intraProxyStreamReceiver", "sendAck"})
	if f == nil || inner == nil {
		return
	}
	// does the callee test the field itself?
	selfGuarded := false
	for _, call := range flow.Calls(inner) {
		cc := call.Common()
		if !cc.IsInvoke() {
			continue
		}
		if _, fld, ok := flow.FieldLoadOf(cc.Value); ok && fld == "streamClient" {
			for _, g := range flow.NormGuards(flow.Guards(call.Block())) {
				if bo, isB := g.Cond.(*ssa.BinOp); isB && bo.Op == token.NEQ && g.Side && flow.IsNilConst(bo.Y) {
					if _, f2, ok2 := flow.FieldLoadOf(bo.X); ok2 && f2 == "streamClient" {
						selfGuarded = true
					}
				}
			}
		}
	}
	n := 0
	for _, call := range flow.FindCalls(f, func(cc *ssa.CallCommon) bool { return flow.StaticCallee(cc) == inner }) {
		n++
		recv := flow.Strip(flow.ResolveLoad(call.Common().Args[0]))
		guarded := selfGuarded
		for _, g := range flow.NormGuards(flow.Guards(call.Block())) {
			bo, isB := g.Cond.(*ssa.BinOp)
			if !isB || !flow.IsNilConst(bo.Y) || !(bo.Op == token.NEQ && g.Side || bo.Op == token.EQL && !g.Side) {
				continue
			}
			if base, fld, ok := flow.FieldLoadOf(bo.X); ok && fld == "streamClient" && (flow.Strip(flow.ResolveLoad(base)) == recv || flow.SameValue(base, recv)) {
				guarded = true
			}
		}
		res.Check(guarded, rule, fmt.Sprintf("intraProxyManager.sendAck: receiver.sendAck #%d is reached only with an open stream", n), instrPos(c.Prog, call), "r.streamClient != nil on this path",
			"the looked-up receiver's sendAck is called without a test of its streamClient: a receiver is registered before its stream is open (and stays registered after a failed open), so an ack routed in that window calls Send on a nil interface - a panic in the sender's ack goroutine, which nothing recovers")
	}
	if n < 1 {
		res.Undec(rule, "intraProxyManager.sendAck: call of the receiver's sendAck", fnPos(c.Prog, f), "none found, 1 confirmed by hand")
	}
}

// checkCodecPayloadOwned (O18.9 / O17.11): the bytes that the repair path decodes are the codec's own copy of the
// payload. In RepairUTF8Codec.Unmarshal the byte slice handed to convertAndRepairInvalidUTF8 is the result of
// data.Materialize() on the method's own BufferSlice (a freshly allocated, unshared slice), and nothing in package
// compat returns a pooled buffer (mem.Buffer.Free) - bytes read out of a pooled buffer that has been freed belong to
// whichever RPC takes the buffer next, so a fragmented payload is "repaired" from another message's bytes.
func checkCodecPayloadOwned(c *Ctx, res *report.Result, rule string) {
	f := resolve(c, res, rule, anchor{"proto/compat", "*RepairUTF8Codec", "Unmarshal"})
	if f == nil || len(f.Params) < 2 {
		return
	}
	n := 0
	for _, call := range flow.Calls(f) {
		sc := flow.StaticCallee(call.Common())
		if sc == nil || sc.Name() != "convertAndRepairInvalidUTF8" || len(call.Common().Args) < 1 {
			continue
		}
		n++
		arg := flow.Strip(flow.ResolveLoad(call.Common().Args[0]))
		ok := false
		if mc, isC := arg.(*ssa.Call); isC {
			if m := flow.StaticCallee(&mc.Call); m != nil && m.Name() == "Materialize" && len(mc.Call.Args) == 1 && flow.Strip(flow.ResolveLoad(mc.Call.Args[0])) == ssa.Value(f.Params[1]) {
				ok = true
			}
		}
		res.Check(ok, rule, "RepairUTF8Codec.Unmarshal: the repair decodes data.Materialize(), the codec's own copy of the payload", instrPos(c.Prog, call), "convertAndRepairInvalidUTF8(data.Materialize(), v)",
			"the bytes handed to the repair are "+flow.Describe(arg)+", not the result of data.Materialize() on the payload: unless they are a copy the codec owns, they can be recycled (a pooled buffer freed before the legacy decode reads it) or shared with the delegate's decode")
	}
	if n < 1 {
		res.Undec(rule, "RepairUTF8Codec.Unmarshal: call of convertAndRepairInvalidUTF8", fnPos(c.Prog, f), "none found")
	}
	// nobody in the package frees a mem.Buffer
	sp, err := c.Prog.SSAPkg("proto/compat")
	if err != nil {
		return
	}
	frees := 0
	for _, g := range c.Prog.RepoFuncs() {
		if g.Package() != sp || len(g.Blocks) == 0 || strings.HasSuffix(c.Prog.Pos(g.Pos()), "_gen.go") {
			continue
		}
		for _, call := range flow.Calls(g) {
			cc := call.Common()
			if cc.IsInvoke() && cc.Method.Name() == "Free" && strings.Contains(cc.Value.Type().String(), "grpc/mem") {
				frees++
				res.Viol(rule, fmt.Sprintf("%s: no pooled payload buffer is freed by the codec (#%d)", shortFn(g), frees), instrPos(c.Prog, call), "a mem.Buffer is freed in package compat: any byte slice read out of it (ReadOnlyData) is invalid from here on, and the buffer pool hands the same array to the next RPC")
			}
		}
	}
	if frees == 0 {
		res.Hold(rule, "no mem.Buffer is freed in package compat", "", "the codec works on its own copy of the payload")
	}
}
