package rules

import (
	"fmt"
	"go/token"
	"go/types"
	"strings"

	"golang.org/x/tools/go/ssa"

	"s2scheck/internal/flow"
	"s2scheck/internal/report"
)

func init() { Registry["C17"] = c17 }

var errType = types.Universe.Lookup("error").Type()

// errResultOf returns the value holding the error result of a call (the call itself for single
// results, the Extract otherwise).
func errResultOf(call *ssa.Call) ssa.Value {
	sig := call.Call.Signature()
	n := sig.Results().Len()
	if n == 0 || !types.Identical(sig.Results().At(n-1).Type(), errType) {
		return nil
	}
	if n == 1 {
		return call
	}
	for _, r := range *call.Referrers() {
		if ex, ok := r.(*ssa.Extract); ok && ex.Index == n-1 {
			return ex
		}
	}
	return nil
}

// guardedErrNil: block b executes only when errv == nil.
func guardedErrNil(b *ssa.BasicBlock, errv ssa.Value) bool {
	for _, g := range flow.NormGuards(flow.Guards(b)) {
		bo, ok := g.Cond.(*ssa.BinOp)
		if !ok {
			continue
		}
		x, y := flow.ResolveLoad(bo.X), flow.ResolveLoad(bo.Y)
		match := (x == errv && flow.IsNilConst(y)) || (y == errv && flow.IsNilConst(x))
		if !match {
			continue
		}
		if (bo.Op == token.NEQ && !g.Side) || (bo.Op == token.EQL && g.Side) {
			return true
		}
	}
	return false
}

func guardedTrue(b *ssa.BasicBlock, v ssa.Value) bool {
	for _, g := range flow.NormGuards(flow.Guards(b)) {
		if flow.ResolveLoad(g.Cond) == v && g.Side {
			return true
		}
	}
	return false
}

func c17(c *Ctx) (*report.Result, error) {
	res := newResult("C17")
	res.RuleDoc["O17.1"] = "delegate first, repair only on the UTF-8 error class: Unmarshal calls the standard codec first, enters the repair only under IsInvalidUTF8Error of that error, and returns either that error unchanged or nil after a successful repair; Marshal returns the delegate's results unchanged"
	res.RuleDoc["O17.2"] = "failures are reported: convertAndRepairInvalidUTF8 returns nil only after every fallible step succeeded and something was repaired"
	res.RuleDoc["O17.3"] = "frame: the only store into a proto/1_22 message performed by the repair code is Failure.Message in repairInvalidUTF8InFailure"
	res.RuleDoc["O17.4"] = "the history-blob path agrees with the codec path: repair only under IsInvalidUTF8Error, repair errors are returned, and a blob that failed to decode is never passed on as if it had been examined (nothing-repaired is an error there too)"
	res.RuleDoc["O17.5"] = "the repairing codec is the one in use: every grpc dial option list of the module comes from grpcutil.MakeDialOptions, which forces compat.CodecName; init registers the codec with the default proto codec as delegate"

	// ---- O17.1
	if f := resolve(c, res, "O17.1", anchor{"proto/compat", "*RepairUTF8Codec", "Unmarshal"}); f != nil {
		var delegate *ssa.Call
		for _, call := range flow.Calls(f) {
			cc := call.Common()
			if cc.IsInvoke() && cc.Method.Name() == "Unmarshal" {
				if _, fld, ok := flow.FieldLoadOf(cc.Value); ok && fld == "delegate" {
					delegate, _ = call.(*ssa.Call)
				}
			}
		}
		if res.Check(delegate != nil, "O17.1", "Unmarshal: standard codec consulted", fnPos(c.Prog, f), "c.delegate.Unmarshal", "the wrapped standard codec is never called") {
			okArgs := len(delegate.Call.Args) == 2 && delegate.Call.Args[0] == ssa.Value(f.Params[1]) && delegate.Call.Args[1] == ssa.Value(f.Params[2])
			res.Check(okArgs, "O17.1", "Unmarshal: delegate decodes the same bytes into the same target", instrPos(c.Prog, delegate), "delegate.Unmarshal(data, v)", "the delegate is not given the caller's data and target")
			// delegate first: every other call is dominated by it
			first := true
			for _, call := range flow.Calls(f) {
				if call != ssa.CallInstruction(delegate) && !flow.InstrDominates(delegate, call) {
					first = false
				}
			}
			res.Check(first, "O17.1", "Unmarshal: delegate first", instrPos(c.Prog, delegate), "every other call is dominated by the delegate's decode", "something runs before (or instead of) the standard decode")
			// repair guarded by IsInvalidUTF8Error(delegateErr)
			reps := flow.FindCalls(f, func(cc *ssa.CallCommon) bool { return flow.IsCallTo(cc, compatPkg, "", "convertAndRepairInvalidUTF8") })
			var repErr ssa.Value
			for _, rp := range reps {
				ok := false
				for _, g := range flow.NormGuards(flow.Guards(rp.Block())) {
					if gc, isC := g.Cond.(*ssa.Call); isC && g.Side && flow.IsCallTo(&gc.Call, modPath+"/common", "", "IsInvalidUTF8Error") && gc.Call.Args[0] == ssa.Value(delegate) {
						ok = true
					}
				}
				res.Check(ok, "O17.1", "Unmarshal: repair entered only under IsInvalidUTF8Error(delegate error)", instrPos(c.Prog, rp), "ok", "the repair path is entered for errors other than invalid UTF-8 (or unconditionally)")
				repErr = rp.(*ssa.Call)
				// same data, same target
				args := rp.Common().Args
				okT := len(args) == 2 && args[1] == ssa.Value(f.Params[2])
				res.Check(okT, "O17.1", "Unmarshal: repair targets the caller's message", instrPos(c.Prog, rp), "ok", "the repair decodes into something other than the caller's target")
			}
			if len(reps) == 0 {
				res.Viol("O17.1", "Unmarshal: repair path exists", fnPos(c.Prog, f), "convertAndRepairInvalidUTF8 is never called: messages from older servers with invalid UTF-8 in failure messages are rejected")
			}
			// returns
			for _, b := range f.Blocks {
				for _, ins := range b.Instrs {
					ret, ok := ins.(*ssa.Return)
					if !ok {
						continue
					}
					construct := fmt.Sprintf("Unmarshal: return in block %d", b.Index)
					r := flow.Ret(ret)[0]
					switch {
					case r == ssa.Value(delegate):
						res.Hold("O17.1", construct, instrPos(c.Prog, ret), "returns the delegate's error value unchanged")
					case flow.IsNilConst(r) && guardedErrNil(b, ssa.Value(delegate)):
						res.Hold("O17.1", construct, instrPos(c.Prog, ret), "nil because the standard codec succeeded")
					case flow.IsNilConst(r):
						res.Check(repErr != nil && guardedErrNil(b, repErr), "O17.1", construct, instrPos(c.Prog, ret), "nil only after the repair succeeded", "nil is returned although the repair did not succeed: a message the codec could not decode is passed on")
					default:
						res.Viol("O17.1", construct, instrPos(c.Prog, ret), "returns an error other than the standard codec's: valid and invalid data no longer get the standard verdict")
					}
				}
			}
		}
	}
	if f := resolve(c, res, "O17.1", anchor{"proto/compat", "*RepairUTF8Codec", "Marshal"}); f != nil {
		var delegate *ssa.Call
		for _, call := range flow.Calls(f) {
			cc := call.Common()
			if cc.IsInvoke() && cc.Method.Name() == "Marshal" {
				delegate, _ = call.(*ssa.Call)
			}
		}
		ok := delegate != nil
		if ok {
			for _, b := range f.Blocks {
				for _, ins := range b.Instrs {
					if ret, isR := ins.(*ssa.Return); isR {
						e0, ok0 := flow.Ret(ret)[0].(*ssa.Extract)
						e1, ok1 := flow.Ret(ret)[1].(*ssa.Extract)
						if !ok0 || !ok1 || e0.Tuple != ssa.Value(delegate) || e1.Tuple != ssa.Value(delegate) || e0.Index != 0 || e1.Index != 1 {
							ok = false
						}
					}
				}
			}
		}
		res.Check(ok, "O17.1", "Marshal: delegate's results returned unchanged", fnPos(c.Prog, f), "return c.delegate.Marshal(v)", "Marshal alters the standard codec's output")
	}

	// ---- O17.2
	if f := resolve(c, res, "O17.2", anchor{"proto/compat", "", "convertAndRepairInvalidUTF8"}); f != nil {
		checkNilOnlyAfterSuccess(c, res, "O17.2", f, "RepairInvalidUTF8")
	}

	// ---- O17.3
	checkLegacyWrites(c, res)
	res.RuleDoc["O17.6"] = "faithful repair: a failure link's message is rewritten with strings.ToValidUTF8(message, U+FFFD) exactly when it is not valid UTF-8, along the whole cause chain up to the depth bound"
	if f := resolve(c, res, "O17.6", anchor{"proto/compat", "", "repairInvalidUTF8InFailure"}); f != nil {
		checkFailureChainRepair(c, res, f, "O17.6")
	}

	// ---- O17.4
	checkBlobRepairPath(c, res)

	// ---- O17.5
	checkCodecInUse(c, res)

	res.Explanation = "SSA of proto/compat.RepairUTF8Codec.Unmarshal/Marshal and convertAndRepairInvalidUTF8 (dominance of the delegate call, guards on every return, value identity of the returned error), of every function of proto/compat and the blob repair helpers of package interceptor (who writes into proto/1_22 messages), of interceptor.translateOneDataBlob / tryRepairInvalidUTF8InBlob (sibling agreement with the codec path), and of every grpc.NewClient / dial-option construction site of the module. Decides the control structure that makes the repair invisible on valid data and loud on failure; does not decide byte-level equality with the reference decode or U+FFFD placement (value-level)."
	res.Assumptions = []string{"encoding.GetCodecV2(proto.Name) is the standard protobuf codec", "strings.ToValidUTF8 replaces exactly the invalid byte runs"}
	res.RuleDoc["O17.7"] = "translation, access control and repair keep no memory between messages: no shipped function of the interceptor, proto/compat, auth and collect packages stores into package-level state, receiver fields or sync.Maps after construction - a cache keyed by message type or content makes the treatment of one message depend on the ones before it"
	checkStateless(c, res, "O17.7", []string{"interceptor", "proto/compat", "auth", "collect"}, map[string]string{})
	res.RuleDoc["O17.11"] = "what is repaired is the payload that failed to decode (same analysis as O18.9): the repair path decodes data.Materialize(), the codec's own copy, and no pooled buffer is freed in package compat"
	checkCodecPayloadOwned(c, res, "O17.11")
	res.RuleDoc["O17.10"] = "nothing but the error class gates the repair: from the true side of IsInvalidUTF8Error every path of the codec's Unmarshal reaches convertAndRepairInvalidUTF8"
	checkRepairGate(c, res, "O17.10")
	res.RuleDoc["O17.9"] = "an unrepairable message comes back as an error, not as a panic: every WithLabelValues call with an explicit value list in the codec, the interceptor and the compat package passes exactly as many values as the metric vector was declared with (label counts are computed from package metrics' initialiser) - prometheus panics on a mismatch, and the variadic signature lets a stale call site compile"
	checkMetricLabelArity(c, res, "O17.9", []string{"proto/compat/", "interceptor/", "proxy/", "transport/"}, 15)
	res.RuleDoc["O17.8"] = "no swallowed error in the files the mechanism lives in: no function returns a nil error on a path on which an error obtained from a call is known to be non-nil (io.EOF from a stream Recv, the normal end of a receive loop, is the one accepted idiom)"
	checkNoSwallowedErrors(c, res, "O17.8", []string{"proto/compat/codec.go", "proto/compat/repair_utf8.go", "interceptor/reflection.go"})
	return res, nil
}

// checkNilOnlyAfterSuccess: a nil error is returned only on blocks guarded by `err == nil` for every
// fallible call that dominates the return, by the ok of every comma-ok type assertion, and by the
// `changed` result of the repair call.
func checkNilOnlyAfterSuccess(c *Ctx, res *report.Result, rule string, f *ssa.Function, repairCallee string) {
	n := 0
	for _, b := range f.Blocks {
		for _, ins := range b.Instrs {
			ret, ok := ins.(*ssa.Return)
			if !ok {
				continue
			}
			ev := flow.Ret(ret)[len(ret.Results)-1]
			if !flow.IsNilConst(ev) {
				continue
			}
			n++
			var missing []string
			for _, call := range flow.Calls(f) {
				cv, ok := call.(*ssa.Call)
				if !ok || !flow.InstrDominates(cv, ret) {
					continue
				}
				if e := errResultOf(cv); e != nil && !guardedErrNil(b, e) {
					if cal := flow.StaticCallee(&cv.Call); cal != nil && cal.Pkg != nil && cal.Pkg.Pkg.Path() == "fmt" {
						continue
					}
					missing = append(missing, "error of "+flow.Describe(cv)+" not known nil")
				}
				if cal := flow.StaticCallee(&cv.Call); cal != nil && cal.Name() == repairCallee {
					var changed ssa.Value
					for _, r := range *cv.Referrers() {
						if ex, ok := r.(*ssa.Extract); ok && ex.Index == 0 {
							changed = ex
						}
					}
					if changed == nil || !guardedTrue(b, changed) {
						missing = append(missing, "repair did not report a change")
					}
				}
			}
			for _, bb := range f.Blocks {
				for _, x := range bb.Instrs {
					if ta, ok := x.(*ssa.TypeAssert); ok && ta.CommaOk && flow.InstrDominates(ta, ret) {
						var okv ssa.Value
						for _, r := range *ta.Referrers() {
							if ex, ok := r.(*ssa.Extract); ok && ex.Index == 1 {
								okv = ex
							}
						}
						if okv == nil || !guardedTrue(b, okv) {
							missing = append(missing, "type assertion "+flow.Describe(ta)+" not known to hold")
						}
					}
				}
			}
			res.Check(len(missing) == 0, rule, fmt.Sprintf("%s: success return in block %d", f.Name(), b.Index), instrPos(c.Prog, ret), "nil is returned only after every fallible step succeeded and a repair happened", "nil is returned although "+strings.Join(missing, "; "))
		}
	}
	if n == 0 {
		res.Undec(rule, f.Name()+": success return", fnPos(c.Prog, f), "no nil return found")
	}
}

func checkLegacyWrites(c *Ctx, res *report.Result) {
	rule := "O17.3"
	var fns []*ssa.Function
	sp, err := c.Prog.SSAPkg("proto/compat")
	if err != nil {
		res.Undec(rule, "compat package", "", err.Error())
		return
	}
	for _, f := range c.Prog.RepoFuncs() {
		if f.Package() == sp {
			fns = append(fns, f)
		}
	}
	for _, a := range []anchor{{"interceptor", "", "tryRepairInvalidUTF8InBlob"}, {"interceptor", "", "validateAndRepairHistoryEvents"}} {
		if f := resolve(c, res, rule, a); f != nil {
			fns = append(fns, f)
		}
	}
	allowed := 0
	for _, f := range fns {
		for _, b := range f.Blocks {
			for _, ins := range b.Instrs {
				var base ssa.Value
				what := ""
				switch x := ins.(type) {
				case *ssa.Store:
					switch a := x.Addr.(type) {
					case *ssa.FieldAddr:
						base, what = a.X, flow.FieldName(a.X.Type(), a.Field)
					case *ssa.IndexAddr:
						base, what = a.X, "[i]"
					}
				case *ssa.MapUpdate:
					base, what = x.Map, "[key]"
				}
				if base == nil {
					continue
				}
				if _, isAlloc := base.(*ssa.Alloc); isAlloc {
					continue // composite literal / local
				}
				t := base.Type()
				ts := types.TypeString(t, nil)
				if !strings.Contains(ts, "/proto/1_22/") {
					continue
				}
				construct := fmt.Sprintf("%s writes %s.%s", shortFn(f), shortLegacy(ts), what)
				if f.Name() == "repairInvalidUTF8InFailure" && what == "Message" && strings.HasSuffix(ts, "failure/v1.Failure") {
					allowed++
					res.Hold(rule, construct, instrPos(c.Prog, ins), "the one reviewed write")
				} else {
					res.Viol(rule, construct, instrPos(c.Prog, ins), "the repair code writes into a legacy message outside Failure.Message: every other field must survive the repair intact")
				}
			}
		}
	}
	if allowed == 0 {
		res.Undec(rule, "repairInvalidUTF8InFailure writes Failure.Message", "", "the reviewed write was not found: the rule would pass vacuously")
	}
	res.Analysed["legacy_write_scan_functions"] = len(fns)
}

func shortLegacy(ts string) string {
	i := strings.Index(ts, "/proto/1_22/")
	if i < 0 {
		return ts
	}
	return strings.TrimPrefix(ts[:i], "*") + "1_22/" + ts[i+len("/proto/1_22/"):]
}

// checkRepairedBlobWrittenBack: in visitDataBlobs, whenever translateOneDataBlob / translateDataBlobs report
// changed (a repair happened) without an error, the new blob is assigned back to the visited field: with the
// error exits and the changed == false edges pruned, no path from the call reaches a return without visit.Assign.
func checkRepairedBlobWrittenBack(c *Ctx, res *report.Result, rule string) {
	f := resolve(c, res, rule, anchor{"interceptor", "", "visitDataBlobs"})
	if f == nil {
		return
	}
	n := 0
	for _, call := range flow.Calls(f) {
		cv, isC := call.(*ssa.Call)
		if !isC {
			continue
		}
		cal := flow.StaticCallee(&cv.Call)
		if cal == nil || (cal.Name() != "translateOneDataBlob" && cal.Name() != "translateDataBlobs") {
			continue
		}
		n++
		var changed, errv ssa.Value
		for _, r := range *cv.Referrers() {
			if ex, isEx := r.(*ssa.Extract); isEx {
				switch ex.Index {
				case 2:
					changed = ex
				case 3:
					errv = ex
				}
			}
		}
		construct := "visitDataBlobs: a blob repaired by " + cal.Name() + " replaces the original"
		if changed == nil {
			res.Viol(rule, construct, instrPos(c.Prog, cv), "the 'changed' result (a repair happened) is ignored: a repaired blob that contains nothing to translate is dropped and the original undecodable blob is passed on without an error")
			continue
		}
		isAssign := func(x ssa.Instruction) bool {
			ci, ok := x.(ssa.CallInstruction)
			return ok && flow.IsCallTo(ci.Common(), "github.com/keilerkonzept/visit", "", "Assign")
		}
		edgeOK := func(a, b *ssa.BasicBlock) bool {
			iff := lastIfOf(a)
			if iff == nil || len(a.Succs) != 2 {
				return true
			}
			side := b == a.Succs[0]
			for _, src := range condSources(iff.Cond, 0) {
				if src == changed && !side {
					return false // contradicts changed == true
				}
			}
			if bo, isB := iff.Cond.(*ssa.BinOp); isB && (bo.X == errv || bo.Y == errv) {
				isNil := side
				if bo.Op == token.NEQ {
					isNil = !side
				}
				if !isNil {
					return false // error exit
				}
			}
			return true
		}
		r := flow.FindPath(flow.After(cv), flow.IsReturn, isAssign, edgeOK)
		res.Check(!r.Found, rule, construct, instrPos(c.Prog, cv), "every non-error path with changed == true passes visit.Assign", "a repaired blob can be dropped (path "+flow.BlockPath(r.Via)+" returns without visit.Assign although changed may be true): the original undecodable blob is passed on without an error")
	}
	if n < 2 {
		res.Undec(rule, "visitDataBlobs: blob translation calls", fnPos(c.Prog, f), fmt.Sprintf("%d found, 2 confirmed by hand", n))
	}
}

// checkFlagAccumulation: every loop-carried boolean of f (a bool phi in a loop header) is accumulated with OR:
// on every way round the loop its new value is true, its old value, or something else only where the old value
// was false. A flag that is overwritten per element reports only the last element's verdict.
func checkFlagAccumulation(c *Ctx, res *report.Result, rule string, a anchor, min int) {
	f := resolve(c, res, rule, a)
	if f == nil {
		return
	}
	var preserves func(v ssa.Value, p *ssa.Phi, d int) bool
	preserves = func(v ssa.Value, p *ssa.Phi, d int) bool {
		if d > 6 {
			return false
		}
		if v == ssa.Value(p) {
			return true
		}
		if b, ok := flow.ConstBool(v); ok && b {
			return true
		}
		switch x := v.(type) {
		case *ssa.BinOp:
			if x.Op == token.OR || x.Op == token.LOR {
				return preserves(x.X, p, d+1) || preserves(x.Y, p, d+1)
			}
		case *ssa.Phi:
			for i, e := range x.Edges {
				if preserves(e, p, d+1) {
					continue
				}
				// arbitrary value allowed only where the old value was false
				oldFalse := false
				for _, g := range flow.EdgeGuards(x.Block().Preds[i], x.Block()) {
					if g.Cond == ssa.Value(p) && !g.Side {
						oldFalse = true
					}
				}
				if !oldFalse {
					return false
				}
			}
			return true
		}
		return false
	}
	n := 0
	for _, b := range f.Blocks {
		for _, ins := range b.Instrs {
			phi, ok := ins.(*ssa.Phi)
			if !ok || !types.Identical(phi.Type().Underlying(), types.Typ[types.Bool]) {
				continue
			}
			carried := false
			okAll := true
			for i, e := range phi.Edges {
				pred := b.Preds[i]
				if !b.Dominates(pred) {
					continue // entry edge
				}
				carried = true
				if !preserves(e, phi, 0) {
					okAll = false
				}
			}
			if !carried {
				continue
			}
			n++
			name := phi.Comment
			if name == "" {
				name = phi.Name()
			}
			res.Check(okAll, rule, fmt.Sprintf("%s: flag %s is accumulated over all elements", a.name, name), instrPos(c.Prog, phi), "new value = old || verdict", "a loop-carried flag is overwritten on each iteration instead of OR-accumulated: only the last element's verdict is reported (a repair of an earlier element is reported as 'nothing repaired', or a match is forgotten)")
		}
	}
	if n < min {
		res.Undec(rule, a.name+": accumulated flags", fnPos(c.Prog, f), fmt.Sprintf("%d loop-carried boolean flags found, %d confirmed by hand", n, min))
	}
}

func checkBlobRepairPath(c *Ctx, res *report.Result) {
	rule := "O17.4"
	checkRepairedBlobWrittenBack(c, res, rule)
	checkFlagAccumulation(c, res, rule, anchor{"interceptor", "", "validateAndRepairHistoryEvents"}, 1)
	checkFlagAccumulation(c, res, rule, anchor{"interceptor", "", "translateDataBlobs"}, 2)
	f := resolve(c, res, rule, anchor{"interceptor", "", "translateOneDataBlob"})
	if f == nil {
		return
	}
	var deser *ssa.Call
	for _, call := range flow.Calls(f) {
		cc := call.Common()
		if cc.IsInvoke() && cc.Method.Name() == "DeserializeEvents" {
			deser, _ = call.(*ssa.Call)
		}
	}
	if !res.Check(deser != nil, rule, "translateOneDataBlob: decodes the blob", fnPos(c.Prog, f), "serializer.DeserializeEvents(blob)", "the blob is never decoded") {
		return
	}
	derr := errResultOf(deser)
	reps := flow.FindCalls(f, func(cc *ssa.CallCommon) bool { return flow.IsCallTo(cc, icPkg, "", "tryRepairInvalidUTF8InBlob") })
	if len(reps) != 1 {
		res.Undec(rule, "translateOneDataBlob: repair call", fnPos(c.Prog, f), fmt.Sprintf("%d calls of tryRepairInvalidUTF8InBlob", len(reps)))
		return
	}
	rep := reps[0].(*ssa.Call)
	ok := false
	for _, g := range flow.NormGuards(flow.Guards(rep.Block())) {
		if gc, isC := g.Cond.(*ssa.Call); isC && g.Side && flow.IsCallTo(&gc.Call, modPath+"/common", "", "IsInvalidUTF8Error") && flow.ResolveLoad(gc.Call.Args[0]) == derr {
			ok = true
		}
	}
	res.Check(ok, rule, "translateOneDataBlob: repair entered only under IsInvalidUTF8Error(decode error)", instrPos(c.Prog, rep), "ok", "the blob repair runs for other decode errors too")
	good, why := errorReturned(f, rep)
	res.Check(good, rule, "translateOneDataBlob: repair error is returned", instrPos(c.Prog, rep), "ok", why)
	// other decode errors are returned
	good2, why2 := decodeErrorReturned(f, deser, derr)
	res.Check(good2, rule, "translateOneDataBlob: a decode error of another class is returned", instrPos(c.Prog, deser), "ok", why2)
	// after a failed decode, the visitor may only run on repaired events: every path from the decode-error
	// side to the visitor call must pass the assignment of the repaired events (i.e. `changed` true)
	var visitorCall *ssa.Call
	for _, call := range flow.Calls(f) {
		cc := call.Common()
		if !cc.IsInvoke() && flow.StaticCallee(cc) == nil {
			if _, isB := cc.Value.(*ssa.Builtin); !isB && cc.Value == ssa.Value(f.Params[2]) {
				visitorCall, _ = call.(*ssa.Call)
			}
		}
	}
	if visitorCall == nil {
		res.Undec(rule, "translateOneDataBlob: visitor call", fnPos(c.Prog, f), "the call of the visitor parameter was not found")
		return
	}
	var changed ssa.Value
	for _, r := range *rep.Referrers() {
		if ex, isEx := r.(*ssa.Extract); isEx && ex.Index == 1 {
			changed = ex
		}
	}
	// edges leaving the repair region with changed == false (and err == nil) must not reach the visitor
	silent := false
	var via string
	for _, b := range f.Blocks {
		if !rep.Block().Dominates(b) {
			continue
		}
		iff := lastIfOf(b)
		if iff == nil {
			continue
		}
		srcs := condSources(iff.Cond, 0)
		isChanged := false
		for _, s := range srcs {
			if s == changed {
				isChanged = true
			}
		}
		if !isChanged {
			continue
		}
		falseSucc := b.Succs[1]
		if flow.ReachBlock(falseSucc, visitorCall.Block(), nil) || falseSucc == visitorCall.Block() {
			silent = true
			via = fmt.Sprintf("block %d (changed == false) -> visitor call", b.Index)
		}
	}
	if changed == nil {
		res.Viol(rule, "translateOneDataBlob: nothing-repaired is reported", instrPos(c.Prog, rep), "the 'changed' result of the blob repair is ignored")
	} else {
		res.Check(!silent, rule, "translateOneDataBlob: nothing-repaired is reported", instrPos(c.Prog, rep), "a blob that failed to decode and could not be repaired never reaches the visitor as an empty event list",
			"when the decode fails with invalid UTF-8 and the repair changes nothing (invalid bytes outside failure messages), control continues to the visitor with the events of the failed decode and the function returns a nil error: the blob is passed on unexamined - not translated, not access-checked, no error - whereas the codec path reports 'nothing was repaired' ("+via+")")
	}
	// tryRepairInvalidUTF8InBlob: events are returned only after every step succeeded
	if g := resolve(c, res, rule, anchor{"interceptor", "", "tryRepairInvalidUTF8InBlob"}); g != nil {
		bad := ""
		for _, b := range g.Blocks {
			for _, ins := range b.Instrs {
				ret, isR := ins.(*ssa.Return)
				if !isR || flow.IsNilConst(flow.Ret(ret)[0]) {
					continue
				}
				// non-nil events: all dominating fallible calls except the last (whose error is returned alongside) succeeded
				for _, call := range flow.Calls(g) {
					cv, isC := call.(*ssa.Call)
					if !isC || !flow.InstrDominates(cv, ret) {
						continue
					}
					e := errResultOf(cv)
					if e == nil || flow.Ret(ret)[2] == e {
						continue
					}
					if !guardedErrNil(b, e) {
						bad = "events are returned although " + flow.Describe(cv) + " may have failed"
					}
				}
			}
		}
		res.Check(bad == "", rule, "tryRepairInvalidUTF8InBlob: repaired events only after every step succeeded", fnPos(c.Prog, g), "ok", bad)
	}
}

// decodeErrorReturned: on the `!IsInvalidUTF8Error(err)` side the decode error is returned.
func decodeErrorReturned(f *ssa.Function, deser *ssa.Call, derr ssa.Value) (bool, string) {
	for _, b := range f.Blocks {
		for _, ins := range b.Instrs {
			ret, ok := ins.(*ssa.Return)
			if !ok {
				continue
			}
			if flow.ResolveLoad(flow.Ret(ret)[len(ret.Results)-1]) != derr {
				continue
			}
			for _, g := range flow.NormGuards(flow.Guards(b)) {
				if gc, isC := g.Cond.(*ssa.Call); isC && !g.Side && flow.IsCallTo(&gc.Call, modPath+"/common", "", "IsInvalidUTF8Error") {
					return true, ""
				}
			}
		}
	}
	return false, "no return of the decode error on the not-invalid-UTF-8 side"
}

func checkCodecInUse(c *Ctx, res *report.Result) {
	rule := "O17.5"
	// MakeDialOptions forces the codec
	if f := resolve(c, res, rule, anchor{"transport/grpcutil", "", "MakeDialOptions"}); f != nil {
		ok := false
		name, _ := pkgConstString(c, "proto/compat", "CodecName")
		for _, call := range flow.FindCalls(f, func(cc *ssa.CallCommon) bool { return flow.IsCallTo(cc, grpcPkg, "", "ForceCodecV2") }) {
			if gc, isC := call.Common().Args[0].(*ssa.Call); isC && flow.IsCallTo(&gc.Call, "google.golang.org/grpc/encoding", "", "GetCodecV2") {
				if s, isS := flow.ConstString(gc.Call.Args[0]); isS && s == name && name != "" {
					ok = true
				}
			}
		}
		res.Check(ok, rule, "MakeDialOptions forces compat.CodecName", fnPos(c.Prog, f), "grpc.ForceCodecV2(encoding.GetCodecV2(compat.CodecName))", "the dial options do not force the repairing codec")
		// the forced option is in every returned list
		inAll := true
		for _, b := range f.Blocks {
			for _, ins := range b.Instrs {
				if ret, isR := ins.(*ssa.Return); isR {
					found := false
					for _, alt := range flow.SliceSeqs(flow.Ret(ret)[0]) {
						for _, e := range alt.Elems {
							if call, isC := flow.Strip(e).(*ssa.Call); isC && flow.IsCallTo(&call.Call, grpcPkg, "", "WithDefaultCallOptions") {
								for _, a := range flow.SliceSeqs(call.Call.Args[0]) {
									for _, o := range a.Elems {
										if oc, isO := flow.Strip(o).(*ssa.Call); isO && flow.IsCallTo(&oc.Call, grpcPkg, "", "ForceCodecV2") {
											found = true
										}
									}
								}
							}
						}
					}
					if !found {
						inAll = false
					}
				}
			}
		}
		res.Check(inAll, rule, "MakeDialOptions: the codec option is part of every returned list", fnPos(c.Prog, f), "ok", "a returned option list lacks the forced codec")
	}
	// every grpc.NewClient / grpc.Dial in the module gets options from MakeDialOptions
	n := 0
	for _, f := range c.Prog.RepoFuncs() {
		p := f.Package()
		if p == nil {
			continue
		}
		path := p.Pkg.Path()
		if strings.Contains(path, "/endtoendtest") || strings.Contains(path, "/proxy/test") || strings.Contains(path, "/cmd/tools") || strings.HasSuffix(path, "/develop") || strings.Contains(path, "/mocks") {
			continue
		}
		for _, call := range flow.Calls(f) {
			cc := call.Common()
			if !(flow.IsCallTo(cc, grpcPkg, "", "NewClient") || flow.IsCallTo(cc, grpcPkg, "", "Dial") || flow.IsCallTo(cc, grpcPkg, "", "DialContext")) {
				continue
			}
			n++
			opts := cc.Args[len(cc.Args)-1]
			ok := optsFromMakeDialOptions(opts, f, 0)
			res.Check(ok, rule, shortFn(f)+": client connection built with MakeDialOptions", instrPos(c.Prog, call), "options derive from grpcutil.MakeDialOptions", "a gRPC client connection is created with options that do not come from MakeDialOptions: responses on it are decoded by the standard codec without UTF-8 repair")
		}
	}
	if n < 3 {
		res.Undec(rule, "client construction sites", "", fmt.Sprintf("only %d grpc.NewClient sites found, 3 confirmed by hand", n))
	}
	// init registers the codec with the default proto codec as delegate
	sp, err := c.Prog.SSAPkg("proto/compat")
	if err == nil {
		ok := false
		for _, f := range c.Prog.RepoFuncs() {
			if f.Package() != sp || !strings.HasPrefix(f.Name(), "init") {
				continue
			}
			for _, call := range flow.FindCalls(f, func(cc *ssa.CallCommon) bool {
				return flow.IsCallTo(cc, "google.golang.org/grpc/encoding", "", "RegisterCodecV2")
			}) {
				if al, isAl := flow.Strip(call.Common().Args[0]).(*ssa.Alloc); isAl {
					fs, _ := flow.FieldStores(al)
					if d, isC := fs["delegate"].(*ssa.Call); isC && flow.IsCallTo(&d.Call, "google.golang.org/grpc/encoding", "", "GetCodecV2") {
						if s, isS := flow.ConstString(d.Call.Args[0]); isS && s == "proto" {
							ok = true
						}
					}
				}
			}
		}
		res.Check(ok, rule, "compat.init registers the codec with the standard proto codec as delegate", "", "encoding.RegisterCodecV2(&RepairUTF8Codec{delegate: encoding.GetCodecV2(proto.Name)})", "the codec is not registered with the standard proto codec as its delegate")
	}
}

func pkgConstString(c *Ctx, rel, name string) (string, bool) {
	pk, err := c.Prog.Pkg(rel)
	if err != nil {
		return "", false
	}
	if cst, ok := pk.Types.Scope().Lookup(name).(*types.Const); ok {
		if s := cst.Val().ExactString(); len(s) >= 2 {
			return strings.Trim(s, "\""), true
		}
	}
	return "", false
}

// optsFromMakeDialOptions: the variadic option slice derives from a MakeDialOptions call (possibly
// copied into a larger slice, or passed through a parameter whose callers all do so).
func optsFromMakeDialOptions(v ssa.Value, f *ssa.Function, depth int) bool {
	if depth > 3 {
		return false
	}
	v = flow.Strip(flow.ResolveLoad(v))
	switch x := v.(type) {
	case *ssa.Call:
		if flow.IsCallTo(&x.Call, modPath+"/transport/grpcutil", "", "MakeDialOptions") {
			return true
		}
	case *ssa.Slice:
		return optsFromMakeDialOptions(x.X, f, depth+1)
	case *ssa.MakeSlice:
		// filled by copy(dst[k:], src): find copy calls whose destination slices this value
		for _, r := range *x.Referrers() {
			if sl, ok := r.(*ssa.Slice); ok {
				for _, rr := range *sl.Referrers() {
					if call, ok := rr.(*ssa.Call); ok {
						if b, ok := call.Call.Value.(*ssa.Builtin); ok && b.Name() == "copy" && len(call.Call.Args) == 2 && call.Call.Args[0] == ssa.Value(sl) {
							if optsFromMakeDialOptions(call.Call.Args[1], f, depth+1) {
								return true
							}
						}
					}
				}
			}
		}
	case *ssa.Parameter:
		// all callers inside the module must pass MakeDialOptions-derived options
		callers := 0
		good := true
		prog := f.Prog
		for g := range allFunctions(prog) {
			for _, call := range flow.Calls(g) {
				if flow.StaticCallee(call.Common()) == x.Parent() {
					callers++
					idx := -1
					for i, p := range x.Parent().Params {
						if p == x {
							idx = i
						}
					}
					if idx < 0 || idx >= len(call.Common().Args) || !optsFromMakeDialOptions(call.Common().Args[idx], g, depth+1) {
						// test helpers are not part of the shipped behaviour
						if pk := g.Package(); pk != nil && (strings.Contains(pk.Pkg.Path(), "/endtoendtest") || strings.Contains(pk.Pkg.Path(), "/proxy/test")) {
							continue
						}
						good = false
					}
				}
			}
		}
		return callers > 0 && good
	}
	return false
}

var allFuncsCache = map[*ssa.Program]map[*ssa.Function]bool{}

func allFunctions(p *ssa.Program) map[*ssa.Function]bool {
	if m, ok := allFuncsCache[p]; ok {
		return m
	}
	m := map[*ssa.Function]bool{}
	for _, pkg := range p.AllPackages() {
		for _, mem := range pkg.Members {
			if fn, ok := mem.(*ssa.Function); ok {
				addFn(m, fn)
			}
			if t, ok := mem.(*ssa.Type); ok {
				for _, tt := range []types.Type{t.Type(), types.NewPointer(t.Type())} {
					ms := p.MethodSets.MethodSet(tt)
					for i := 0; i < ms.Len(); i++ {
						if fn := p.MethodValue(ms.At(i)); fn != nil {
							addFn(m, fn)
						}
					}
				}
			}
		}
	}
	allFuncsCache[p] = m
	return m
}

func addFn(m map[*ssa.Function]bool, f *ssa.Function) {
	if m[f] {
		return
	}
	m[f] = true
	for _, a := range f.AnonFuncs {
		addFn(m, a)
	}
}
