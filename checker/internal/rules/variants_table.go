package rules

// Seeded variants for the thorough-tier self-test (DESIGN.md Appendix A). Each edits one file of the
// current tree in memory; the named rule must report it.
func init() {
	refl := "interceptor/reflection.go"
	acl := "interceptor/access_control.go"
	cc := "proxy/cluster_connection.go"
	tri := "interceptor/translation_interceptor.go"
	wfs := "proxy/workflowservice.go"

	// ---- C12
	addVariants(
		Variant{Name: "drop WorkflowNamespace from namespaceFieldNames", Property: "C12", File: refl,
			Old: "\t\t\"WorkflowNamespace\":       true, // PollActivityTaskQueueResponse\n", New: "", Expect: "O12.1"},
		Variant{Name: "drop EventBatch from dataBlobFieldNames", Property: "C12", File: refl,
			Old: "\t\t\"EventBatch\":     true, // NewRunInfo type\n", New: "", Expect: "O12.2"},
		Variant{Name: "add CHILD_WORKFLOW_EXECUTION_STARTED to the skip list", Property: "C12", File: refl,
			Old: "\t\tenums.EVENT_TYPE_TIMER_STARTED:                       {},\n", New: "\t\tenums.EVENT_TYPE_TIMER_STARTED:                       {},\n\t\tenums.EVENT_TYPE_CHILD_WORKFLOW_EXECUTION_STARTED: {},\n", Expect: "O12.3"},
		Variant{Name: "add WORKFLOW_EXECUTION_FAILED (failure chain) to the skip list", Property: "C12", File: refl,
			Old: "\t\tenums.EVENT_TYPE_TIMER_STARTED:                       {},\n", New: "\t\tenums.EVENT_TYPE_TIMER_STARTED:                       {},\n\t\tenums.EVENT_TYPE_WORKFLOW_EXECUTION_FAILED: {},\n", Expect: "O12.3"},
		Variant{Name: "return Skip for interface values", Property: "C12", File: refl,
			Old: "\t\tif info, ok := vwp.Interface().(*namespace.NamespaceInfo); ok && info != nil {", New: "\t\tif vwp.Kind() == reflect.Interface {\n\t\t\treturn visit.Skip, nil\n\t\t}\n\t\tif info, ok := vwp.Interface().(*namespace.NamespaceInfo); ok && info != nil {", Expect: "O12.4"},
		Variant{Name: "shortcut no longer looks at event links", Property: "C12", File: refl,
			Old: "\tcase *history.HistoryEvent:\n\t\t// If this namespace field is set, do not skip translation.\n\t\tfor _, l := range v.Links {\n\t\t\tif len(l.GetWorkflowEvent().GetNamespace()) > 0 {\n\t\t\t\treturn false\n\t\t\t}\n\t\t}\n", New: "\tcase *history.HistoryEvent:\n", Expect: "O12.3"},
		Variant{Name: "shortcut a response type that carries namespaces", Property: "C12", File: refl,
			Old: "\tcase *workflowservice.ListWorkflowExecutionsResponse:\n\t\treturn true\n", New: "\tcase *workflowservice.ListWorkflowExecutionsResponse:\n\t\treturn true\n\tcase *workflowservice.DescribeNamespaceResponse:\n\t\treturn true\n", Expect: "O12.3"},
		Variant{Name: "Stop without error on a data blob", Property: "C12", File: refl,
			Old: "\t\t\tchanged, err := visitDataBlobs(logger, vwp, match, visitNamespace)\n\t\t\tmatched = matched || changed\n\t\t\tif err != nil {\n\t\t\t\treturn visit.Stop, err\n\t\t\t}", New: "\t\t\tchanged, err := visitDataBlobs(logger, vwp, match, visitNamespace)\n\t\t\tmatched = matched || changed\n\t\t\tif err != nil {\n\t\t\t\treturn visit.Stop, nil\n\t\t\t}", Expect: "O12.4"},
		Variant{Name: "handler called before request translation", Property: "C12", File: tri,
			Old: "\tmethodName := api.MethodName(info.FullMethod)\n\n\tfor _, tr := range i.translators {", New: "\tmethodName := api.MethodName(info.FullMethod)\n\tif len(i.translators) == 1 {\n\t\treturn handler(ctx, req)\n\t}\n\n\tfor _, tr := range i.translators {", Expect: "O12.5"},
		Variant{Name: "widen the translation bypass to one admin method", Property: "C12", File: tri,
			Old: "\tif common.IsRequestTranslationDisabled(ctx) || len(i.translators) == 0 ||", New: "\tif common.IsRequestTranslationDisabled(ctx) || len(i.translators) == 0 || strings.HasSuffix(info.FullMethod, \"GetReplicationMessages\") ||", Expect: "O12.5"},
	)
	// ---- C16
	addVariants(
		Variant{Name: "ACL appended before translation", Property: "C16", File: cc,
			Old: "\tvar translators []interceptor.Translator\n", New: "\tif c.aclPolicy != nil {\n\t\tearly := interceptor.NewAccessControlInterceptor(c.loggers.Get(LogInterceptor), c.aclPolicy.AllowedMethods.AdminService, c.aclPolicy.AllowedNamespaces)\n\t\tunaryInterceptors = append(unaryInterceptors, early.Intercept)\n\t}\n\tvar translators []interceptor.Translator\n", Expect: "O16.3"},
		Variant{Name: "forward when the visitor errs", Property: "C16", File: acl,
			Old: "\t\tif !allowed || err != nil {", New: "\t\tif !allowed && err == nil {", Expect: "O16.2"},
		Variant{Name: "namespace test skipped for admin service", Property: "C16", File: acl,
			Old: "\t\t(strings.HasPrefix(info.FullMethod, api.WorkflowServicePrefix) || strings.HasPrefix(info.FullMethod, api.AdminServicePrefix)) {", New: "\t\tstrings.HasPrefix(info.FullMethod, api.WorkflowServicePrefix) {", Expect: "O16.2"},
		Variant{Name: "ListNamespaces keeps every element", Property: "C16", File: wfs,
			Old: "\t\t\tif s.namespaceAccess.IsAllowed(ns.NamespaceInfo.Name) {\n\t\t\t\tnewNamespaceList = append(newNamespaceList, ns)\n\t\t\t}", New: "\t\t\tif s.namespaceAccess.IsAllowed(ns.NamespaceInfo.Name) || ns.IsGlobalNamespace {\n\t\t\t\tnewNamespaceList = append(newNamespaceList, ns)\n\t\t\t}", Expect: "O16.5"},
		Variant{Name: "matcher reports allowed names as disallowed=false always", Property: "C16", File: acl,
			Old: "\t\t\tnotAllowed = !access.IsAllowed(name)", New: "\t\t\tnotAllowed = !access.IsAllowed(name) && name != \"\"", Expect: "O16.2"},
		Variant{Name: "skip-list entry with a namespace (C16 view)", Property: "C16", File: refl,
			Old: "\t\tenums.EVENT_TYPE_TIMER_STARTED:                       {},\n", New: "\t\tenums.EVENT_TYPE_TIMER_STARTED:                       {},\n\t\tenums.EVENT_TYPE_SIGNAL_EXTERNAL_WORKFLOW_EXECUTION_INITIATED: {},\n", Expect: "O16.1c"},
	)
}
